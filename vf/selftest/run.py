"""Sensitivity self-test driver (not a registered check).

python -m vf.selftest.run C02 [--tier quick] [--only name]  : for every vf/selftest/C02/*.diff and every
/verif/seeded/*/patch.diff whose meta.json names C02, apply it to a scratch worktree of /repo (outside /repo and
/verif), run the check with VERIF_REPO pointing at it, expect exit 1 + VIOLATION, remove the worktree, and
rewrite vf/selftest/C02/RESULTS.md.
"""
import argparse
import glob
import json
import os
import subprocess
import sys
import time

VERIF = os.path.dirname(os.path.dirname(os.path.dirname(os.path.abspath(__file__))))
SCRATCH = os.environ.get("VERIF_SCRATCH", "/tmp/scratch")


def run(cmd, **kw):
    return subprocess.run(cmd, stdout=subprocess.PIPE, stderr=subprocess.STDOUT, text=True, **kw)


def one(pid, name, diff, tier, seed="1"):
    w = os.path.join(SCRATCH, "st_%s_%s_%d" % (pid, name.replace("/", "_"), os.getpid()))
    run(["git", "-C", "/repo", "worktree", "prune"])
    r = run(["git", "-C", "/repo", "worktree", "add", "--detach", w, "HEAD", "-q"])
    if r.returncode:
        return {"name": name, "error": "worktree: " + r.stdout[-300:]}
    try:
        r = run(["git", "-C", w, "apply", "--whitespace=nowarn", diff])
        if r.returncode:
            return {"name": name, "error": "apply failed: " + r.stdout[-300:]}
        env = dict(os.environ, VERIF_REPO=w, VERIF_SEED=seed, VERIF_MAX_WALL=os.environ.get("VERIF_MAX_WALL", "600"),
                   VERIF_EVIDENCE_DIR=os.path.join(SCRATCH, "selftest-evidence"), VERIF_REPLAY_DIR=os.path.join(SCRATCH, "selftest-replays"))
        t0 = time.time()
        r = run(["/venv/bin/python", "-m", "vf.check", pid, "--tier", tier], cwd=VERIF, env=env)
        lines = [l for l in r.stdout.splitlines() if l.startswith("VIOLATION") or l.startswith("detail[") or "HARNESS" in l]
        keys = sorted({l.split("]")[0][7:] for l in lines if l.startswith("detail[")})
        return {"name": name, "rc": r.returncode, "wall": round(time.time() - t0, 1), "keys": keys,
                "violation": any(l.startswith("VIOLATION") for l in lines), "tail": r.stdout[-400:] if r.returncode not in (0, 1) else ""}
    finally:
        run(["git", "-C", "/repo", "worktree", "remove", "--force", w])
        run(["git", "-C", "/repo", "worktree", "prune"])


def main():
    ap = argparse.ArgumentParser()
    ap.add_argument("pid")
    ap.add_argument("--tier", default="quick")
    ap.add_argument("--only")
    args = ap.parse_args()
    pid = args.pid.upper()
    os.makedirs(SCRATCH, exist_ok=True)
    items = []
    for d in sorted(glob.glob(os.path.join(VERIF, "vf", "selftest", pid, "*.diff"))):
        items.append(("selftest/" + os.path.basename(d)[:-5], d))
    for m in sorted(glob.glob(os.path.join(VERIF, "seeded", "*", "meta.json"))):
        meta = json.load(open(m))
        if pid in (meta.get("property"), *meta.get("also_breaks", [])):
            items.append(("seeded/" + os.path.basename(os.path.dirname(m)), os.path.join(os.path.dirname(m), "patch.diff")))
    if args.only:
        items = [i for i in items if args.only in i[0]]
    res = []
    for name, diff in items:
        r = one(pid, name, diff, args.tier)
        res.append(r)
        print(json.dumps(r))
        sys.stdout.flush()
    out = os.path.join(VERIF, "vf", "selftest", pid)
    os.makedirs(out, exist_ok=True)
    path = os.path.join(out, "RESULTS.md" if not args.only else "RESULTS.partial.md")
    with open(path, "w") as fh:
        fh.write("# %s sensitivity (%s tier, seed 1)\n\n| mutant | caught | rc | wall s | keys |\n|---|---|---|---|---|\n" % (pid, args.tier))
        for r in res:
            if "error" in r:
                fh.write("| %s | ERROR %s | | | |\n" % (r["name"], r["error"].replace("\n", " ")))
            else:
                fh.write("| %s | %s | %s | %s | %s |\n" % (r["name"], "yes" if r["violation"] else "NO", r["rc"], r["wall"], ", ".join(r["keys"])))
    missed = [r["name"] for r in res if not r.get("violation")]
    print("missed:", missed)


if __name__ == "__main__":
    main()

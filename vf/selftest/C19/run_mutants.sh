#!/bin/bash
# usage: run_mutants.sh [tier] [name-filter]   -> one line per mutant: name | repo tests | exit | keys that are not C19-* finding ids
TIER=${1:-quick}
FILTER=${2:-}
HERE=$(cd "$(dirname "$0")" && pwd)
mkdir -p /tmp/scratch
for d in "$HERE"/*${FILTER}*.diff; do
  name=$(basename "$d" .diff)
  wt=/tmp/scratch/c19_$name
  git -C /repo worktree add --detach "$wt" HEAD >/dev/null 2>&1
  (cd "$wt" && git apply "$d") || { echo "$name | patch failed"; git -C /repo worktree remove --force "$wt"; continue; }
  tests=$(cd "$wt" && /venv/bin/python -m pytest -q -p no:cacheprovider test/test_ast.py test/test_pygen.py test/test_def.py 2>&1 | tail -1)
  before=$(ls /verif/replays/C19 2>/dev/null | sort)
  out=$(cd /verif && VERIF_REPO="$wt" /venv/bin/python -m vf.check C19 --tier "$TIER" 2>&1)
  rc=$?
  keys=$(echo "$out" | grep -o '^detail\[[^]]*\]' | grep -v 'detail\[C19-' | sort -u | tr '\n' ' ')
  # replay files written for the mutant are scratch
  for f in $(ls /verif/replays/C19 2>/dev/null | sort | comm -13 <(echo "$before") -); do rm -f "/verif/replays/C19/$f"; done
  echo "$name | tests: $tests | exit $rc | new keys: ${keys:-NONE}"
  git -C /repo worktree remove --force "$wt"
done

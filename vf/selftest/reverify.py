"""Re-verify every /verif/seeded/<name> against the CURRENT /repo HEAD: patch applies, demo passes without and fails with
it, test suite passes with it (python -m vf.selftest.reverify [name-substring]); updates meta.json["reverified"]."""
import glob
import json
import os
import subprocess
import sys

from vf.selftest.seed_intake import DESELECT, SCRATCH, VERIF, run


def main():
    only = sys.argv[1] if len(sys.argv) > 1 else ""
    head = run(["git", "-C", "/repo", "log", "--format=%h", "-1"]).stdout.strip()
    bad = []
    for m in sorted(glob.glob(os.path.join(VERIF, "seeded", "*", "meta.json"))):
        d = os.path.dirname(m)
        name = os.path.basename(d)
        if only not in name:
            continue
        w = os.path.join(SCRATCH, "rv_%s_%d" % (name, os.getpid()))
        run(["git", "-C", "/repo", "worktree", "prune"])
        run(["git", "-C", "/repo", "worktree", "add", "--detach", w, "HEAD", "-q"])
        try:
            env = dict(os.environ, PYTHONPATH=w)
            r0 = run(["/venv/bin/python", os.path.join(d, "demo.py")], env=env, cwd=w)
            ra = run(["git", "-C", w, "apply", "--whitespace=nowarn", os.path.join(d, "patch.diff")])
            r1 = run(["/venv/bin/python", os.path.join(d, "demo.py")], env=env, cwd=w) if ra.returncode == 0 else None
            rt = run(["/venv/bin/python", "-m", "pytest", "-q", "-p", "no:cacheprovider", "-q", "-x"] + sum((["--deselect", x] for x in DESELECT), []), cwd=w) if ra.returncode == 0 else None
            ok = ra.returncode == 0 and r0.returncode == 0 and r1.returncode != 0 and rt.returncode == 0
            meta = json.load(open(m))
            meta["reverified"] = {"repo_head": head, "applies": ra.returncode == 0, "demo_unchanged_rc": r0.returncode,
                                  "demo_patched_rc": r1.returncode if r1 else None, "pytest_patched_rc": rt.returncode if rt else None, "ok": ok}
            json.dump(meta, open(m, "w"), indent=1)
            print(name, "ok" if ok else "PROBLEM %r" % (meta["reverified"],))
            if not ok:
                bad.append(name)
        finally:
            run(["git", "-C", "/repo", "worktree", "remove", "--force", w])
    print("problems:", bad)


if __name__ == "__main__":
    main()

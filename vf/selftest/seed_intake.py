"""Intake of an independently written breaking change:  python -m vf.selftest.seed_intake C05 /tmp/seed/C05-a-1 "needs ..."

Verifies in a scratch worktree (outside /repo and /verif) that  (a) the demo passes on the unchanged tree,
(b) the demo fails with the patch, (c) the repository's test suite still passes with the patch (the three tests
that fail on the unchanged tree are deselected), then stores /verif/seeded/<name>/{patch.diff, demo.py, meta.json}.
"""
import json
import os
import shutil
import subprocess
import sys
import time

VERIF = os.path.dirname(os.path.dirname(os.path.dirname(os.path.abspath(__file__))))
SCRATCH = os.environ.get("VERIF_SCRATCH", "/tmp/scratch")
DESELECT = ["test/test_exceptions.py::ExceptionsTest::test_custom_tback",
            "test/test_exceptions.py::ExceptionsTest::test_py_utf8_html_error_template",
            "test/test_exceptions.py::ExceptionsTest::test_utf8_format_exceptions_pygments"]


def run(cmd, **kw):
    return subprocess.run(cmd, stdout=subprocess.PIPE, stderr=subprocess.STDOUT, text=True, **kw)


def main():
    pid, base, needs = sys.argv[1], sys.argv[2], sys.argv[3]
    name = os.path.basename(base)
    diff, demo = base + ".diff", base + ".demo.py"
    os.makedirs(SCRATCH, exist_ok=True)
    w = os.path.join(SCRATCH, "intake_%s_%d" % (name, os.getpid()))
    run(["git", "-C", "/repo", "worktree", "prune"])
    r = run(["git", "-C", "/repo", "worktree", "add", "--detach", w, "HEAD", "-q"])
    assert r.returncode == 0, r.stdout
    ran = []
    try:
        env = dict(os.environ, PYTHONPATH=w)
        r0 = run(["/venv/bin/python", demo], env=env, cwd=w)
        ran.append("demo on unchanged tree: rc=%d" % r0.returncode)
        ra = run(["git", "-C", w, "apply", "--whitespace=nowarn", diff])
        if ra.returncode:
            print("APPLY FAILED", ra.stdout)
            return 1
        r1 = run(["/venv/bin/python", demo], env=env, cwd=w)
        ran.append("demo with patch: rc=%d" % r1.returncode)
        t0 = time.time()
        cmd = ["/venv/bin/python", "-m", "pytest", "-q", "-p", "no:cacheprovider", "-q"] + sum((["--deselect", d] for d in DESELECT), [])
        rt = run(cmd, cwd=w)
        tail = rt.stdout.strip().splitlines()[-1] if rt.stdout.strip() else ""
        ran.append("pytest with patch: rc=%d (%s)" % (rt.returncode, tail))
        ok = r0.returncode == 0 and r1.returncode != 0 and rt.returncode == 0
        print(json.dumps({"name": name, "ok": ok, "ran": ran}))
        if not ok:
            print(r0.stdout[-500:], "\n----\n", r1.stdout[-800:], "\n----\n", rt.stdout[-800:])
            return 1
        out = os.path.join(VERIF, "seeded", name)
        os.makedirs(out, exist_ok=True)
        shutil.copy(diff, os.path.join(out, "patch.diff"))
        shutil.copy(demo, os.path.join(out, "demo.py"))
        meta = {"property": pid, "name": name, "needs": needs, "verified": ran,
                "how": "scratch worktree of /repo HEAD; demo run with PYTHONPATH=<worktree>; full pytest minus the 3 baseline failures",
                "source": "written by an independent sub-agent given only the property text", "demo_output_with_patch": r1.stdout[-1500:]}
        with open(os.path.join(out, "meta.json"), "w") as fh:
            json.dump(meta, fh, indent=1)
        return 0
    finally:
        run(["git", "-C", "/repo", "worktree", "remove", "--force", w])
        run(["git", "-C", "/repo", "worktree", "prune"])


if __name__ == "__main__":
    sys.exit(main())

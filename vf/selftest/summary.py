"""Collect vf/selftest/CNN/RESULTS.md into one table: for every seeded change and own mutant, the checks whose quick tier catches it.

    python -m vf.selftest.summary        -> writes vf/selftest/SUMMARY.md, exits 1 if a change is caught by no check
"""
import glob
import os
import re
import sys

HERE = os.path.dirname(os.path.abspath(__file__))


def main():
    caught, seen = {}, {}
    for path in sorted(glob.glob(os.path.join(HERE, "C*", "RESULTS.md"))):
        pid = os.path.basename(os.path.dirname(path))
        verdict = {}
        # the full run of the property, then - if it is newer - the last partial run (--only), whose rows replace the older ones
        partial = os.path.join(os.path.dirname(path), "RESULTS.partial.md")
        files = [path] + ([partial] if os.path.exists(partial) and os.path.getmtime(partial) > os.path.getmtime(path) else [])
        for fn in files:
            for line in open(fn, encoding="utf-8"):
                m = re.match(r"\|\s*((?:seeded|selftest)/\S+)\s*\|\s*(yes|NO|ERROR[^|]*)\s*\|", line)
                if m:
                    verdict[m.group(1)] = m.group(2)
        for nm, v in verdict.items():
            name = nm if nm.startswith("seeded/") else "%s:%s" % (pid, nm)
            seen.setdefault(name, []).append(pid)
            if v == "yes":
                caught.setdefault(name, []).append(pid)
    present = {"seeded/" + d for d in os.listdir(os.path.join(HERE, "..", "..", "seeded"))}
    rows, missing = [], []
    for name in sorted(seen):
        if name.startswith("seeded/") and name not in present:
            continue  # withdrawn since the run
        if not name.startswith("seeded/") and not os.path.exists(os.path.join(HERE, name.split(":")[0], name.split("/", 1)[1] + ".diff")):
            continue  # own mutant dropped since the run
        by = caught.get(name, [])
        rows.append("| %s | %s | %s |" % (name, ", ".join(by) or "-", ", ".join(p for p in seen[name] if p not in by) or ""))
        if not by:
            missing.append(name)
    never_run = sorted(present - set(seen))
    out = ["# Which check catches which change (quick tiers, from the RESULTS.md of every property)", "",
           "%d changes; caught by no check: %d; seeded changes without a recorded run: %d" % (len(rows), len(missing), len(never_run)), "",
           "| change | caught by | run but not caught by |", "|---|---|---|"] + rows
    if never_run:
        out += ["", "Seeded changes with no recorded run: " + ", ".join(never_run)]
    with open(os.path.join(HERE, "SUMMARY.md"), "w", encoding="utf-8") as fh:
        fh.write("\n".join(out) + "\n")
    print("changes=%d uncaught=%r never_run=%r" % (len(rows), missing, never_run))
    return 1 if missing else 0


if __name__ == "__main__":
    sys.exit(main())

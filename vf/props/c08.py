"""C08 - a template means the same on every compilation and rendering path.

Domain : generated programs (tgen: defs, calls with content, control structures, non-ASCII text) and CLI-safe documents
         x paths P1 Template(text) | P2 Template(filename=) | P3 module_directory first load | P4 module file re-loaded
         by a later process | P5 ModuleTemplate(module imported from t.code) | P6 render / render_unicode /
         render_context | P7 mako-render (cmdline) | P8 get_def(name).render() vs a one-line template calling the def
         x PYTHONHASHSEED in {0, 1, 2, 12345} (one child process per seed handles a whole batch) x lookup options
         (module_directory, modulename_callable, URI spellings, URIs that differ only in non-word characters).
Oracle : differential - every path produces the P1 output; Template.source is that template's own text, Template.code
         that template's generated module (names its own uri; equals the module file on file paths); has_def /
         list_defs / get_def agree with P1.
"""
import contextlib
import io
import itertools
import json
import os
import subprocess
import sys

from vf import core
from vf.core import Failure
from vf.gen import tenv, tgen, tprog

PID = "C08"
LEVEL = "exploration"
RULE = (
    "case = generated template (tgen program with defs / calls with content / control structures / non-ASCII text, or a "
    "CLI-safe document with string variables) compared on paths P1-P8 in-process and, in batches, in child processes "
    "under PYTHONHASHSEED 0/1/2/12345 (fresh compile, module-directory load of the parent's module files, recompile). "
    "non-trivial = template has >=1 def and non-ASCII text and was compared on >=5 paths, or is one of a colliding-URI "
    "pair; distinct by template fingerprint."
)
ASSUMPTIONS = [
    "P7 (mako-render) only with string variables; P8 only for top-level defs without buffered / decorator / *args / **kw "
    "(a buffered def returns its content, get_def().render() then yields ''; not covered by the statement)",
    "hash-seed dependence is sampled at four seeds",
    "templates do not observe their own filename/uri",
]
FEATURES = {"control", "py", "def", "block", "ccall", "capture", "flags", "nested_def", "texttag", "loop", "try", "with"}
_k = itertools.count()
SEEDS = ["0", "1", "2", "12345"]


def strategy():
    return tprog.programs(FEATURES, max_depth=3, ndefs=(1, 3), body_len=(2, 6))


def render_paths(src, k, d, prog=None):
    """-> dict path -> ("ok", text) | ("exc", type); plus metadata checks raise Failure"""
    from mako.lookup import TemplateLookup
    from mako.runtime import Context
    from mako.template import ModuleTemplate, Template
    from mako.util import FastEncodingBuffer

    out = {}
    meta = {}
    uri = "/c08p1_%d.html" % k

    def run(fn):
        try:
            return ("ok", fn())
        except Exception as e:
            return ("exc", type(e).__name__)

    kw = dict(imports=tenv.IMPORTS)
    t1 = Template(src, uri=uri, **kw)
    out["P1"] = run(lambda: t1.render_unicode(**tenv.make_ctx()))
    meta["P1"] = (t1.source, sorted(t1.list_defs()), None)
    out["P6.render"] = run(lambda: t1.render(**tenv.make_ctx()))

    def rc():
        buf = FastEncodingBuffer()
        t1.render_context(Context(buf, **tenv.make_ctx()))
        return buf.getvalue()
    out["P6.render_context"] = run(rc)
    out["P6.second"] = run(lambda: t1.render_unicode(**tenv.make_ctx()))
    fn = os.path.join(d, "root", "c08_%d.html" % k)
    os.makedirs(os.path.dirname(fn), exist_ok=True)
    with open(fn, "wb") as fh:
        fh.write(src.encode("utf-8"))
    t2 = Template(filename=fn, **kw)
    out["P2"] = run(lambda: t2.render_unicode(**tenv.make_ctx()))
    meta["P2"] = (t2.source, sorted(t2.list_defs()), None)
    md = os.path.join(d, "mod")
    t3 = Template(filename=fn, module_directory=md, **kw)
    out["P3"] = run(lambda: t3.render_unicode(**tenv.make_ctx()))
    modfile = os.path.join(md, fn.lstrip("/") + ".py")
    meta["P3"] = (t3.source, sorted(t3.list_defs()), modfile)
    lk = TemplateLookup(directories=[os.path.join(d, "root")], module_directory=os.path.join(d, "mod2"),
                        modulename_callable=lambda filename, uri: os.path.join(d, "mod3", uri.strip("/").replace("/", "_") + ".py"), **kw)
    for spelled in ("c08_%d.html" % k, "/c08_%d.html" % k, "//c08_%d.html" % k):
        t = lk.get_template(spelled)
        out["lookup:" + spelled[:2]] = run(lambda: t.render_unicode(**tenv.make_ctx()))
    # P5: ModuleTemplate from the generated code
    pdir = os.path.join(d, "pkg")
    os.makedirs(pdir, exist_ok=True)
    modname = "c08mod_%d_%d" % (os.getpid(), k)
    with open(os.path.join(pdir, modname + ".py"), "w", encoding="utf-8") as fh:
        fh.write(t1.code)
    sys.path.insert(0, pdir)
    try:
        mod = __import__(modname)
    finally:
        sys.path.remove(pdir)
    t5 = ModuleTemplate(mod, module_source=t1.code, template_source=src)
    out["P5"] = run(lambda: t5.render_unicode(**tenv.make_ctx()))
    # (the module was imported under a name of its own: source and code are still the template's)
    meta["P5"] = (run(lambda: t5.source)[1], sorted(t5.list_defs()), None)
    if run(lambda: t5.code) != ("ok", t1.code):
        meta["P5"] = ("Template.code of the ModuleTemplate: %r" % (run(lambda: t5.code),), meta["P5"][1], None)
    sys.modules.pop(modname, None)
    return out, meta, (t1, t2, t3), fn, modfile


def check_program(case, ev, batch, d):
    prog = case["prog"]
    src, _ = tgen.emit(prog)
    k = next(_k)
    try:
        out, meta, ts, fn, modfile = render_paths(src, k, d, prog)
    except Exception as e:
        # a template that does not compile on P1 must not compile anywhere; generated programs compile
        raise Failure(case, "constructing the template failed on some path: %s: %s\n--- source ---\n%s" % (type(e).__name__, str(e)[:200], src),
                      "construct:" + type(e).__name__)
    ref = out["P1"]
    tag = "\n--- source ---\n" + src
    for p, r in out.items():
        if r != ref:
            raise Failure(case, "path %s gives %r, P1 gives %r" % (p, r, ref) + tag, "path-differs:" + p.split(":")[0])
    t1, t2, t3 = ts
    for p, (source, defs, mf) in meta.items():
        if source != src:
            raise Failure(case, "Template.source on %s is not the template's text: %r..." % (p, (source or "")[:60]) + tag, "source:" + p)
        if defs != meta["P1"][1]:
            raise Failure(case, "list_defs on %s = %r, P1 = %r" % (p, defs, meta["P1"][1]) + tag, "list_defs:" + p)
    for t, p in ((t1, "P1"), (t2, "P2"), (t3, "P3")):
        code = t.code
        if ("_template_uri = %r" % t.uri) not in code:
            raise Failure(case, "Template.code on %s does not carry its own uri %r" % (p, t.uri) + tag, "code:" + p)
    with open(modfile, "rb") as fh:
        disk = fh.read().decode("utf-8")
    if t3.code != disk:
        raise Failure(case, "Template.code on P3 differs from the module file" + tag, "code:P3-file")
    # P8: single defs
    npaths = len(out)
    for n in prog["body"]:
        if n["t"] != "def" or n.get("buffered") or n.get("decorator") or "*" in n["sig"] or "caller" in json.dumps(n["body"]):
            continue
        params = [p.split("=")[0].strip() for p in n["sig"].split(",") if p.strip()]
        req = [p for p in n["sig"].split(",") if p.strip() and "=" not in p]
        kwargs = {p.strip(): "A" + p.strip() for p in req}
        call = {"body": [x for x in prog["body"] if x["t"] == "def"] + [{"t": "expr", "e": "%s(%s)" % (n["name"], ", ".join("%s=%r" % kv for kv in kwargs.items()))}]}
        from mako.template import Template

        csrc, _ = tgen.emit(call)

        def r1():
            return Template(csrc, uri="/c08c_%d_%s.html" % (k, n["name"]), imports=tenv.IMPORTS).render_unicode(**tenv.make_ctx())

        def r2():
            ctx = tenv.make_ctx()
            ctx.update(kwargs)
            return t1.get_def(n["name"]).render_unicode(**ctx)
        a, b = _run(r1), _run(r2)
        if not t1.has_def(n["name"]) or not t3.has_def(n["name"]):
            raise Failure(case, "has_def(%s) is False" % n["name"] + tag, "has_def")
        if a != b:
            raise Failure(case, "def %s: called from a one-line template gives %r, get_def().render() gives %r" % (n["name"], a, b) + tag, "P8-differs")
        npaths += 1
    batch.append({"k": k, "src": src, "fn": fn, "expect": list(ref)})
    nonascii = any(ord(c) > 127 for c in src)
    ev.case(key=src, nontrivial=("<%def" in src and nonascii and npaths >= 5), labels=("prog", "paths:%d" % npaths, "outcome:" + ref[0]))
    if len(ev.samples) < 2 and nonascii and len(src) < 500:
        ev.sample({"source": src, "paths": sorted(out), "P1": list(ref)}, "prog%d" % len(ev.samples))


def _run(fn):
    try:
        return ("ok", fn())
    except Exception as e:
        return ("exc", type(e).__name__)


# ---- CLI-safe documents -----------------------------------------------------
def cli_doc(g):
    parts = []
    vars_ = {"v1": g.pick(["plain", "é<>&", "a b", "x=y", ""]), "v2": g.pick(["two", "ünï", "<b>"])}
    for _ in range(g.int(2, 8)):
        parts.append(g.pick([
            "text é\n", "dos\r\n", "${v1}", "${v2 | h}", "${v1 | u}", "% if v1:\nyes\n% else:\nno\n% endif\n", "<%def name=\"d()\">[${v2}]</%def>${d()}",
            "## c\n", "<% z = v1 + v2 %>${z}", "% for c in v2:\n${c}.\\\n% endfor\n", "\n", "<%text>${raw}</%text>", "%% pct\n",
            "${'é' + v1}", "<%!\n    M = 'm'\n%>${M}",
        ]))
    src = "".join(parts)
    # at most one def named d / one module block are fine to repeat? a repeated <%def name="d"> is legal (last wins) but keep one
    if src.count('<%def name="d()"') > 1:
        first = src.index('<%def name="d()"')
        src = src[:first + 1] + src[first + 1:].replace('<%def name="d()">[${v2}]</%def>${d()}', "${d()}")
    return src, vars_


def check_cli(case, ev, d):
    from mako import cmd
    from mako.template import Template

    src, vars_ = case["src"], case["vars"]
    k = next(_k)
    try:
        ref = ("ok", Template(src, uri="/c08cli_%d.html" % k).render_unicode(**vars_))
    except Exception as e:
        ref = ("exc", type(e).__name__)
    fn = os.path.join(d, "cli", "t%d.mako" % k)
    os.makedirs(os.path.dirname(fn), exist_ok=True)
    with open(fn, "wb") as fh:
        fh.write(src.encode("utf-8"))
    argv = [fn] + sum((["--var", "%s=%s" % kv] for kv in vars_.items()), [])
    def cli(args, stdin=None):
        raw = io.BytesIO()
        out = io.TextIOWrapper(raw, encoding="utf-8", newline="")
        old_stdin = sys.stdin
        try:
            if stdin is not None:
                sys.stdin = io.StringIO(stdin)
            with contextlib.redirect_stdout(out), contextlib.redirect_stderr(io.StringIO()):
                try:
                    cmd.cmdline(args)
                finally:
                    sys.stdin = old_stdin
            out.flush()
            return ("ok", raw.getvalue())
        except SystemExit:
            return ("exc", "exit")
        except Exception as e:
            return ("exc", type(e).__name__ + ":" + str(e)[:100])

    got = cli(argv)
    if got[0] == "ok":
        got = ("ok", got[1].decode("utf-8"))
    gote = cli(argv + ["--output-encoding", "utf-8"])
    if gote[0] == "ok":
        gote = ("ok", gote[1].decode("utf-8"))
    ofile = os.path.join(d, "cli", "o%d.txt" % k)
    got2 = cli(argv + ["--output-file", ofile, "--output-encoding", "utf-8"])
    if got2[0] == "ok":
        with open(ofile, "rb") as fh:
            got2 = ("ok", fh.read().decode("utf-8"))
    tag = "\n--- source (vars %r) ---\n%s" % (vars_, src)
    if ref[0] == "ok":
        if got != ref:
            raise Failure(case, "mako-render printed %r, Template(text) renders %r" % (got, ref) + tag, "P7-differs")
        if gote != ref:
            raise Failure(case, "mako-render --output-encoding utf-8 printed %r, expected %r" % (gote, ref) + tag, "P7-output-encoding")
        if got2 != ref:
            raise Failure(case, "mako-render --output-file --output-encoding utf-8 wrote %r, expected %r" % (got2, ref) + tag, "P7-output-file")
        # the template from a file and from standard input, in output encodings other than UTF-8: the bytes written are the
        # bytes Template(text, output_encoding=..).render() returns
        for enc in ("utf-16", "iso-8859-1", "cp1251"):
            try:
                want = ("ok", Template(src, uri="/c08clie_%d_%s.html" % (k, enc.replace("-", "")), output_encoding=enc).render(**vars_))
            except UnicodeEncodeError:
                continue
            varargs = argv[1:]
            for how, g in (("file", cli(argv + ["--output-encoding", enc])), ("stdin", cli(["-"] + varargs + ["--output-encoding", enc], stdin=src))):
                if g != want:
                    raise Failure(case, "mako-render (%s) --output-encoding %s wrote %r, Template.render gives %r" % (how, enc, g, want) + tag,
                                  "P7-output-encoding:" + how)
    elif got[0] == "ok":
        raise Failure(case, "Template(text) raises %s but mako-render succeeded: %r" % (ref[1], got) + tag, "P7-no-error")
    ev.case(key=src, nontrivial=any(ord(c) > 127 for c in src) and "<%def" in src, labels=("cli", "outcome:" + ref[0]))


# ---- children: other hash seeds / later process -----------------------------
CHILD = r'''
import json, sys, os
sys.path.insert(0, os.environ["VERIF_REPO"]); sys.path.insert(1, os.environ["VERIF_HOME"])
from mako.template import Template
from vf.gen import tenv
job = json.load(open(sys.argv[1]))
res = []
for j in job["items"]:
    r = {"k": j["k"]}
    def run(fn):
        try:
            return ["ok", fn()]
        except Exception as e:
            return ["exc", type(e).__name__]
    r["fresh"] = run(lambda: Template(j["src"], uri="/c08child_%d.html" % j["k"], imports=tenv.IMPORTS).render_unicode(**tenv.make_ctx()))
    # P4: the module file written by the parent is re-used by this later process (must not be rewritten)
    mf = os.path.join(job["moddir"], j["fn"].lstrip("/") + ".py")
    before = os.stat(mf).st_mtime_ns if os.path.exists(mf) else None
    r["reload"] = run(lambda: Template(filename=j["fn"], module_directory=job["moddir"], imports=tenv.IMPORTS).render_unicode(**tenv.make_ctx()))
    after = os.stat(mf).st_mtime_ns if os.path.exists(mf) else None
    r["module_reused"] = before is not None and before == after
    res.append(r)
from mako.lookup import TemplateLookup
sets = []
for st_ in job.get("sets", []):
    lk = TemplateLookup()
    for u, src in st_["templates"].items():
        lk.put_string(u, src)
    try:
        sets.append(["ok", lk.get_template(st_["entry"]).render_unicode(**st_["ctx"])])
    except Exception as e:
        sets.append(["exc", type(e).__name__])
json.dump({"items": res, "sets": sets}, open(sys.argv[2], "w"))
'''


def namespace_sets(k):
    """template sets whose meaning must not depend on set/dict iteration order: several namespaces importing the same names"""
    sets = []
    for variant in range(3):
        names = [["alpha", "beta", "gamma"], ["zeta", "eta", "theta", "iota"], ["n1", "n2", "n3", "n4", "n5"]][variant]
        T = {}
        tags = []
        for i, n in enumerate(names):
            T["/c08s_%d_%d_%s.html" % (k, variant, n)] = '<%%def name="greet()">%s-greet</%%def><%%def name="only_%s()">%s</%%def>' % (n, n, n.upper())
            imp = "*" if i % 2 == 0 else "greet, only_%s" % n
            tags.append('<%%namespace name="%s" file="/c08s_%d_%d_%s.html" import="%s"/>' % (n, k, variant, n, imp))
        body = "${greet()}|" + "".join("${only_%s()}" % n for n in names) + "|${x}"
        entry = "/c08s_%d_%d_entry.html" % (k, variant)
        T[entry] = "".join(tags) + body
        sets.append({"templates": T, "entry": entry, "ctx": {"x": "x"}})
    # nested defs whose argument defaults (positional, keyword-only, both) read context names: whatever order the names of a
    # scope are iterated in, the names are fetched before the defs that use them are declared
    for variant in range(2):
        names = [["alpha", "beta", "gamma", "delta"], ["q%d" % i for i in range(6)]][variant]
        ctx = {n: "v%d" % i for i, n in enumerate(names)}
        defs, calls, exp = [], [], []
        for i, n in enumerate(names):
            sig = ["*r, k=%s.upper()" % n, "a=%s * 2" % n, "a=%s, *r, k=len(%s)" % (n, n)][(i + variant + k) % 3]
            defs.append('<%%def name="f%d(%s)">%d:${locals().get("a", "-")}:${locals().get("k", "-")}</%%def>' % (i, sig, i))
            calls.append("${f%d()}" % i)
            v = ctx[n]
            exp.append("%d:%s:%s" % (i, {0: "-", 1: v * 2, 2: v}[(i + variant + k) % 3], {0: v.upper(), 1: "-", 2: len(v)}[(i + variant + k) % 3]))
        entry = "/c08d_%d_%d_entry.html" % (k, variant)
        T = {entry: '<%def name="outer()">' + "".join(defs) + "[" + "|".join(calls) + "]</%def>${outer()}"}
        sets.append({"templates": T, "entry": entry, "ctx": ctx, "expected": ["ok", "[" + "|".join(exp) + "]"]})
    # nested defs whose argument defaults refer to the nested defs written before them: declared in the order of the text
    for variant in range(2):
        names = [["aa", "bb", "cc", "dd"], ["g%d" % i for i in range(7)]][variant]
        defs = ['<%%def name="%s()">%s</%%def>' % (names[0], names[0].upper())]
        for prev, n in zip(names, names[1:]):
            defs.append('<%%def name="%s(p=%s)">${p()}.%s</%%def>' % (n, prev, n))
        entry = "/c08o_%d_%d_entry.html" % (k, variant)
        T = {entry: '<%def name="outer()">' + "".join(defs) + "[${%s()}]</%%def>${outer()}" % names[-1]}
        sets.append({"templates": T, "entry": entry, "ctx": {}, "expected": ["ok", "[" + ".".join([names[0].upper()] + names[1:]) + "]"]})
    return sets


def run_children(batch, d, ev, fails):
    if not batch:
        return
    from mako.lookup import TemplateLookup

    sets = namespace_sets(next(_k))
    expect_sets = []
    for st_ in sets:
        lk = TemplateLookup()
        for u, src in st_["templates"].items():
            lk.put_string(u, src)
        expect_sets.append(list(_run(lambda: lk.get_template(st_["entry"]).render_unicode(**st_["ctx"]))))
        if st_.get("expected") and expect_sets[-1] != st_["expected"]:
            f = Failure({"part": "nsset", "set": st_, "seed": "parent"}, "in the parent process the set renders %r, by construction %r\n%s" % (
                expect_sets[-1], st_["expected"], st_["templates"][st_["entry"]]), "child-differs:defaults-order")
            fails.setdefault(f.key, f)
            expect_sets[-1] = st_["expected"]
    job = os.path.join(d, "job.json")
    with open(job, "w") as fh:
        json.dump({"items": batch, "moddir": os.path.join(d, "mod"), "sets": sets}, fh)
    child = os.path.join(d, "child.py")
    with open(child, "w") as fh:
        fh.write(CHILD)
    for seed in SEEDS:
        outp = os.path.join(d, "out_%s.json" % seed)
        env = dict(os.environ, PYTHONHASHSEED=seed, VERIF_REPO=core.REPO, VERIF_HOME=core.VERIF)
        r = subprocess.run([sys.executable, child, job, outp], env=env, stdout=subprocess.PIPE, stderr=subprocess.STDOUT, text=True)
        if r.returncode != 0:
            raise core.HarnessError("child failed: " + r.stdout[-2000:])
        doc = json.load(open(outp))
        res = doc["items"]
        for st_, exp, got in zip(sets, expect_sets, doc["sets"]):
            case = {"part": "nsset", "set": st_, "seed": seed}
            if got != exp:
                f = Failure(case, "PYTHONHASHSEED=%s renders the namespace-import set as %r, the parent (seed 0) as %r\n%s" % (
                    seed, got, exp, st_["templates"][st_["entry"]]), "child-differs:namespace-imports")
                fails.setdefault(f.key, f)
            ev.case(key=[st_["entry"], seed], nontrivial=True, labels=("child:nsset",))
        for item, got in zip(batch, res):
            case = {"part": "child", "src": item["src"], "seed": seed}
            for what in ("fresh", "reload"):
                if got[what] != item["expect"]:
                    f = Failure(case, "PYTHONHASHSEED=%s %s render gives %r, parent P1 %r\n--- source ---\n%s" % (seed, what, got[what], item["expect"], item["src"]),
                                "child-differs:" + what)
                    fails.setdefault(f.key, f)
            if not got["module_reused"]:
                f = Failure(case, "module file was rewritten by the later process (seed %s)\n--- source ---\n%s" % (seed, item["src"]), "child:module-rewritten")
                fails.setdefault(f.key, f)
            ev.case(key=[item["src"], seed], nontrivial=False, labels=("child:seed=" + seed,))


# ---- single defs of templates that inherit -----------------------------------
def check_inheriting_defs(ev, fails, d):
    """P8 for a template in an inheritance chain: get_def(name).render() must give the text the def produces inside the
    full render (its self / local / parent / next are those of the full render)"""
    from mako.lookup import TemplateLookup

    k = next(_k)
    base = ('<%%def name="label()">BASE-l\u00e4bel</%%def><%%def name="wrapper(x)">w(${x}:${self.label()}:${local.label()})</%%def>'
            "B[${next.body()}]")
    mid = ('<%%inherit file="/c08i_%d_base.html"/><%%def name="label()">mid-label</%%def>M[${next.body()}]' % k)
    child = ('<%%inherit file="/c08i_%d_mid.html"/><%%def name="label()">child-l\u00e4bel</%%def>'
             '<%%def name="tag(x)">tag(${x}) ${local.label()}@${local.uri} self=${self.label()} over ${parent.label()} top=${parent.wrapper(x)}</%%def>'
             '<%%def name="plain(x)">plain(${x})</%%def>'
             "{${tag('X')}}{${plain('Y')}}" % k)
    T = {"/c08i_%d_base.html" % k: base.replace("%%", "%"), "/c08i_%d_mid.html" % k: mid, "/c08i_%d_child.html" % k: child}
    root = os.path.join(d, "inh%d" % k)
    os.makedirs(root)
    for u, s_ in T.items():
        with open(os.path.join(root, u.lstrip("/")), "wb") as fh:
            fh.write(s_.encode("utf-8"))
    for name, lk in (("put_string", None), ("files", TemplateLookup(directories=[root])),
                     ("module_directory", TemplateLookup(directories=[root], module_directory=os.path.join(d, "inhmod%d" % k)))):
        if lk is None:
            lk = TemplateLookup()
            for u, s_ in T.items():
                lk.put_string(u, s_)
        t = lk.get_template("/c08i_%d_child.html" % k)
        full = _run(lambda: t.render_unicode())
        case = {"part": "inheriting-def", "path": name}
        if full[0] != "ok":
            fails.setdefault("inheriting-def:full", Failure(case, "full render failed: %r" % (full,), "inheriting-def:full"))
            continue
        import re as _re

        parts = _re.findall(r"\{(.*?)\}", full[1])
        for dn, arg, exp in (("tag", "X", parts[0]), ("plain", "Y", parts[1])):
            got = _run(lambda: t.get_def(dn).render_unicode(x=arg))
            if got != ("ok", exp):
                f = Failure(case, "path %s: def %s inside the full render gives %r, get_def(%r).render() gives %r" % (name, dn, exp, dn, got), "inheriting-def:" + dn)
                fails.setdefault(f.key, f)
            ev.case(key=[name, dn, k], nontrivial=True, labels=("inheriting-def",))


# ---- keyword arguments of render reach a declared ** catch-all on every path ---------------------------------
def check_catchall(ev, fails, d):
    """<%page args="x, **NAME"/> and <%def name="f(a, **NAME)">: the extra keywords given to render / render_unicode /
    render_context / get_def().render arrive in NAME whatever it is called, on every construction path; expectation by
    construction"""
    from mako.runtime import Context
    from mako.template import Template
    from mako.util import FastEncodingBuffer

    for name, nextra in itertools.product(["extra", "kw", "pageargs", "rest_"], range(0, 4)):
        k = next(_k)
        extras = dict([("y", 2), ("z", "3"), ("w", None)][:nextra])
        src = ('<%%page args="x, **%s"/><%%def name="f(a, **%s)">a=${a} got=${sorted(%s.items(), key=str)}</%%def>'
               "x=${x} got=${sorted((k_, v_) for k_, v_ in %s.items() if k_ in ('y', 'z', 'w'))}" % (name, name, name, name))
        exp_page = "x=1 got=%r" % (sorted(extras.items()),)
        exp_def = "a=1 got=%r" % (sorted(extras.items(), key=str),)
        fn = os.path.join(d, "catch%d.html" % k)
        with open(fn, "wb") as fh:
            fh.write(src.encode("utf-8"))
        md = os.path.join(d, "catchmod%d" % k)
        builders = [("text", lambda: Template(src, uri="/c08c_%d.html" % k)), ("file", lambda: Template(filename=fn)),
                    ("module_directory", lambda: Template(filename=fn, module_directory=md)),
                    ("module_directory-reload", lambda: Template(filename=fn, module_directory=md))]
        for pname, build in builders:
            t = build()
            case = {"part": "catchall", "name": name, "extras": nextra, "path": pname}

            def ctx_render():
                buf = FastEncodingBuffer()
                t.render_context(Context(buf), x=1, **extras)  # (render_context hands its keywords to the body as they are)
                return buf.getvalue()

            got = {"render": _run(lambda: t.render(x=1, **extras)), "render_unicode": _run(lambda: t.render_unicode(x=1, **extras)),
                   "render_context": _run(ctx_render)}
            for how, g in got.items():
                if g != ("ok", exp_page):
                    f = Failure(case, "%s/%s with extra keywords %r: expected %r, got %r\n%s" % (pname, how, extras, exp_page, g, src), "catchall:page:" + how)
                    fails.setdefault(f.key, f)
            gd = _run(lambda: t.get_def("f").render_unicode(a=1, **extras))
            if gd != ("ok", exp_def):
                f = Failure(case, "%s/get_def('f').render_unicode(a=1, **%r): expected %r, got %r\n%s" % (pname, extras, exp_def, gd, src), "catchall:get_def")
                fails.setdefault(f.key, f)
            ev.case(key=[name, nextra, pname], nontrivial=nextra >= 1, labels=("catchall",))



# ---- get_def() under template options ------------------------------------------
def _handler(context, error):
    context.write("HANDLED:" + type(error).__name__)
    return True


DEFOPT_PIECES = {
    "text": "text é ", "loopvar": "[${str(loop)[:6]}]", "forloop": "\n% for x in cl:\n${x}:${str(loop)[:1]}\n% endfor\n",
    "undef": "<${nosuch}>", "esc": "${cs2}", "inc": '<%include file="c08inc.html"/>', "raise": "a${boom()}b",
    "arg": "(${a})", "num": "${cn}",
}


def defopt_case(g):
    opts = {}
    if g.int(1, 2) == 1:
        opts["enable_loop"] = False
    if g.int(1, 4) == 1:
        opts["strict_undefined"] = True
    if g.int(1, 3) == 1:
        opts["default_filters"] = g.pick([["h"], ["str", "trim"], ["h", "trim"]])
    if g.int(1, 3) == 1:
        opts["output_encoding"] = g.pick(["latin-1", "ascii", "utf-16"])
        opts["encoding_errors"] = g.pick(["strict", "replace", "xmlcharrefreplace"])
    if g.int(1, 4) == 1:
        opts["error_handler"] = True
    pieces = [g.pick(sorted(DEFOPT_PIECES)) for _ in range(g.int(1, 4))]
    if not opts.get("enable_loop", True) and g.int(1, 2) == 1:
        pieces.append("loopvar")
    return {"part": "defopt", "opts": opts, "pieces": pieces, "loop": g.int(1, 3) > 1, "sig": g.pick(["", "a", "a='d'"])}


def check_defopt(case, ev, d):
    """get_def(name).render*() under Template options == the def called from a one-line body under the same options"""
    from mako.lookup import TemplateLookup
    from mako.template import Template

    k = next(_k)
    opts = dict(case["opts"])
    if opts.pop("error_handler", None):
        opts["error_handler"] = _handler
    body = "".join(DEFOPT_PIECES[p] for p in case["pieces"])
    sig = case["sig"]
    dsrc = '<%%def name="d(%s)">%s</%%def>' % (sig, body)
    args = {"a": "A<"} if sig == "a" else {}
    ref_src = dsrc + "${d(%s)}" % ("a=%r" % args["a"] if args else "")
    root = os.path.join(d, "defopt")
    os.makedirs(root, exist_ok=True)
    if not os.path.exists(os.path.join(root, "c08inc.html")):
        with open(os.path.join(root, "c08inc.html"), "w") as fh:
            fh.write("{inc ${cn}}")
    fn = os.path.join(root, "o%d.html" % k)
    with open(fn, "wb") as fh:
        fh.write(dsrc.encode("utf-8"))
    lk = TemplateLookup(directories=[root])

    def ctx():
        c = tenv.make_ctx()
        c["cs2"] = "<é&€>"
        if case["loop"]:
            c["loop"] = "L"
        return c

    ref = Template(ref_src, uri="/c08ref_%d.html" % k, lookup=lk, **opts)
    want = {"render": _run(lambda: ref.render(**ctx())), "render_unicode": _run(lambda: ref.render_unicode(**ctx()))}
    md = os.path.join(d, "defoptmod")
    builders = [
        ("text", lambda: Template(dsrc, uri="/c08do_%d.html" % k, lookup=lk, **opts)),
        # (with its URI inside the lookup: a relative <%include> is resolved against the URI)
        ("file", lambda: Template(filename=fn, uri="/o%d.html" % k, lookup=lk, **opts)),
        ("module_directory", lambda: Template(filename=fn, uri="/o%d.html" % k, module_directory=md, lookup=lk, **opts)),
        ("module_directory-reload", lambda: Template(filename=fn, uri="/o%d.html" % k, module_directory=md, lookup=lk, **opts)),
        ("lookup", lambda: TemplateLookup(directories=[root], module_directory=md + "L", **opts).get_template("o%d.html" % k)),
    ]
    tag = "\n--- options %r, context loop=%r ---\n%s" % (case["opts"], case["loop"], dsrc)
    for pname, build in builders:
        t = build()
        for via, gd in (("get_def", lambda: t.get_def("d")), ("get_def-of-get_def", lambda: t.get_def("d").get_def("d"))):
            for how in ("render", "render_unicode"):
                def call():
                    c = ctx()
                    c.update(args)
                    return getattr(gd(), how)(**c)
                got = _run(call)
                if got != want[how]:
                    raise Failure(case, "%s: %s('d').%s() gives %r; the def called from a one-line template with the same "
                                  "options gives %r" % (pname, via, how, got, want[how]) + tag, "P8-options:" + how)
    nt = bool(case["opts"]) and want["render_unicode"][0] == "ok"
    ev.case(key=[case["opts"], case["pieces"], case["loop"], sig], nontrivial=nt,
            labels=("defopt", "defopt-outcome:" + want["render_unicode"][0]) + tuple("defopt:" + o for o in sorted(case["opts"])))


# ---- mako-render: where its lookups search ------------------------------------------
def check_cli_dirs(case, ev, d):
    """mako-render FILE [--template-dir D]...: <%include>/<%inherit>/<%namespace> resolve as in the API render of the
    same file with a TemplateLookup over D... (over the file's own directory when no --template-dir is given)"""
    from mako import cmd
    from mako.lookup import TemplateLookup
    from mako.template import Template

    k = next(_k)
    base = os.path.join(d, "clidirs%d" % k)
    names = ["site", "shared", "other"]
    for nm in names:
        os.makedirs(os.path.join(base, nm))
    present = case["present"]  # which directories hold part.html / base.html / fns.html
    for nm in names:
        if nm in present:
            for f, text in (("part.html", "%s-part(${v})" % nm), ("base.html", "%s-base{${self.body()}}" % nm),
                            ("fns.html", '<%%def name="f(x)">%s-f ${x}</%%def>' % nm)):
                with open(os.path.join(base, nm, f), "w") as fh:
                    fh.write(text)
    kind = case["kind"]
    # (a relative file= is resolved against the URI of the page, which for mako-render FILE is the file's whole path)
    page = {"include": '<%include file="/part.html"/>|page ${v}', "inherit": '<%inherit file="/base.html"/>page ${v}',
            "namespace": '<%namespace name="n" file="/fns.html"/>${n.f(v)}', "rel": '<%include file="part.html"/>|page ${v}'}[kind]
    fn = os.path.join(base, "site", "page.mako")
    with open(fn, "w") as fh:
        fh.write(page)
    tdirs = [os.path.join(base, nm) for nm in case["tdirs"]]
    dirs = tdirs or [os.path.join(base, "site")]
    want = _run(lambda: Template(filename=fn, lookup=TemplateLookup(directories=dirs)).render_unicode(v="5"))
    argv = [fn, "--var", "v=5"] + sum((["--template-dir", t] for t in tdirs), [])
    raw = io.BytesIO()
    out = io.TextIOWrapper(raw, encoding="utf-8", newline="")
    try:
        with contextlib.redirect_stdout(out), contextlib.redirect_stderr(io.StringIO()):
            cmd.cmdline(argv)
        out.flush()
        got = ("ok", raw.getvalue().decode("utf-8"))
    except SystemExit:
        got = ("exc", "exit")
    except Exception as e:
        got = ("exc", type(e).__name__)
    if want[0] == "ok" and got != want:
        raise Failure(case, "mako-render page.mako %s printed %r; Template(filename=page.mako, lookup=TemplateLookup(%r)) renders %r "
                      "(files present in %r)\n%s" % (" ".join("--template-dir " + t for t in case["tdirs"]), got, case["tdirs"] or ["site"],
                                                      want, present, page), "P7-template-dir")
    if want[0] != "ok" and got[0] == "ok":
        raise Failure(case, "mako-render page.mako %s printed %r; the API render raises %s (files present in %r)\n%s"
                      % (" ".join("--template-dir " + t for t in case["tdirs"]), got, want[1], present, page), "P7-template-dir")
    ev.case(key=[kind, case["tdirs"], present], nontrivial=bool(tdirs) and "site" in present and want[0] == "ok",
            labels=("cli-dirs", "cli-dirs:" + want[0]))


def check_cli_dirs_all(ev, fails, d):
    for kind in ("include", "inherit", "namespace", "rel"):
        for tdirs in ([], ["shared"], ["other", "shared"], ["shared", "site"], ["site", "shared"], ["other"]):
            for present in (["site", "shared", "other"], ["site", "shared"], ["shared"], ["site"], ["other"]):
                case = {"part": "cli-dirs", "kind": kind, "tdirs": tdirs, "present": present}
                try:
                    check_cli_dirs(case, ev, d)
                except Failure as f:
                    fails.setdefault(f.key, f)

# ---- hand-written sources through every path; one URI served by two lookups ------------------------------------------
FIXED_SOURCES = [
    # Python semantics of the embedded code do not depend on the path: annotations are objects, not strings
    ("annotations", "<%!\n    def conv(value, kind: float = 0.0):\n        return conv.__annotations__['kind'](value)\n%>total: ${conv('2.5') * 4}\n",
     "total: 10.0\n"),
    ("division", "<% q = 7 / 2 %>${q} ${7 // 2} ${print is not None}\n", "3.5 3 True\n"),
    ("nonlocal-walrus", "<%\n    def counter():\n        n = 0\n        def inc():\n            nonlocal n\n            n += 1\n            return n\n        return inc\n    c = counter()\n%>${c()}${c()} ${(w := 5) + w}\n", "12 10\n"),
]


def check_fixed_sources(ev, fails, d):
    for name, src, want in FIXED_SOURCES:
        k = next(_k)
        case = {"part": "fixed-source", "name": name}
        try:
            out, meta, ts, fn, modfile = render_paths(src, k, d)
        except Exception as e:  # noqa: BLE001
            fails.setdefault("fixed-source:construct", Failure(case, "constructing %r failed on some path: %s: %s" % (src, type(e).__name__, e), "fixed-source:construct"))
            continue
        for pth, r in sorted(out.items()):
            if r != ("ok", want):
                f = Failure(case, "path %s renders %r, the text means %r\n--- source ---\n%s" % (pth, r, want, src), "fixed-source:" + name)
                fails.setdefault(f.key, f)
        ev.case(key=["fixed-source", name], nontrivial=True, labels=("fixed-source",))


def check_same_uri_two_lookups(ev, fails, d):
    """two lookups over different directories, each with a module directory of its own, serve different templates under one
    URI: each keeps rendering, and answering has_def / list_defs / get_def for, its own template whatever was loaded since"""
    from mako.lookup import TemplateLookup

    texts = {"a": '<%def name="title()">ONE</%def><%def name="only_a()">a</%def>[${title()}] first', "b": '<%def name="title()">TWO</%def><%def name="only_b()">b</%def>[${title()}] second'}
    want = {"a": ("[ONE] first", "ONE", ["only_a", "title"]), "b": ("[TWO] second", "TWO", ["only_b", "title"])}
    for mode in ("module_directory", "memory"):
        k = next(_k)
        lks = {}
        for who in ("a", "b"):
            root = os.path.join(d, "same%d_%s" % (k, who))
            os.makedirs(root)
            with open(os.path.join(root, "page-one.html"), "w") as fh:
                fh.write(texts[who])
            kw = {"module_directory": os.path.join(d, "samemod%d_%s" % (k, who))} if mode == "module_directory" else {}
            lks[who] = TemplateLookup(directories=[root], **kw)
        for order in (("a", "b", "a"), ("b", "a", "b", "a")):
            got = {}
            ts = {}
            for who in order[:2]:
                ts[who] = lks[who].get_template("/page-one.html")
            for who in order:
                t = ts[who]
                got[who] = (_run(t.render_unicode), _run(lambda: t.get_def("title").render_unicode()),
                            sorted(n for n in t.list_defs() if n != "body"), t.has_def("only_a"), t.has_def("only_b"))
            for who in ("a", "b"):
                exp = (("ok", want[who][0]), ("ok", want[who][1]), want[who][2], who == "a", who == "b")
                case = {"part": "same-uri", "mode": mode, "order": list(order), "who": who}
                if got[who] != exp:
                    f = Failure(case, "%s, both lookups loaded /page-one.html (%s), then template %s: expected %r, got %r"
                                % (mode, "->".join(order), who, exp, got[who]), "same-uri-two-lookups:" + mode)
                    fails.setdefault(f.key, f)
                ev.case(key=["same-uri", mode, list(order), who], nontrivial=True, labels=("same-uri-two-lookups",))


def check_relative_moddir(ev, fails, d):
    """module_directory given as a relative path: what the template answers later does not depend on where the process has
    moved to in the meantime"""
    from mako.template import Template

    k = next(_k)
    proj = {}
    for who in ("a", "b"):
        proj[who] = os.path.join(d, "rel%d_%s" % (k, who))
        os.makedirs(os.path.join(proj[who], "templates"))
        with open(os.path.join(proj[who], "templates", "page.html"), "w") as fh:
            fh.write('<%%def name="item()">%s-item</%%def>page of %s ${item()}\n' % (who, who))
    old = os.getcwd()
    try:
        os.chdir(proj["b"])
        Template(filename=os.path.join(proj["b"], "templates", "page.html"), module_directory="modules", uri="/page.html").render_unicode()
        os.chdir(proj["a"])
        ta = Template(filename=os.path.join(proj["a"], "templates", "page.html"), module_directory="modules", uri="/page.html")
        with open(os.path.join(proj["a"], "modules", "page.html.py")) as fh:
            own_code = fh.read()
        for where in (d, proj["b"], proj["a"]):
            os.chdir(where)
            got = (_run(ta.render_unicode), _run(lambda: ta.source), _run(lambda: ta.code), _run(lambda: ta.get_def("item").code))
            exp = (("ok", "page of a a-item\n"), ("ok", open(os.path.join(proj["a"], "templates", "page.html")).read()), ("ok", own_code), ("ok", own_code))
            case = {"part": "relative-moddir", "cwd": os.path.relpath(where, d)}
            if got != exp:
                which = [n for n, g, e in zip(("render", "source", "code", "get_def.code"), got, exp) if g != e]
                f = Failure(case, "module_directory='modules' given while working in project a, then chdir to %s: %s differ: got %r"
                            % (case["cwd"], which, [g if g[0] != "ok" else g[1][:80] for g in got]), "relative-module-directory")
                fails.setdefault(f.key, f)
            ev.case(key=["relative-moddir", case["cwd"]], nontrivial=where != proj["a"], labels=("relative-moddir",))
    finally:
        os.chdir(old)


# ---- colliding URIs ---------------------------------------------------------
def check_collision(ev, fails):
    from mako.template import Template

    pairs = [("/c08x/a-b.html", "/c08x/a_b.html"), ("/c08x/x/y.html", "/c08x/x_y.html"), ("/c08x/p.q.html", "/c08x/p_q_html")]
    for ua, ub in pairs:
        ta = Template("text of A ${1}", uri=ua)
        tb = Template("text of B ${2}", uri=ub)
        case = {"part": "collision", "uris": [ua, ub]}
        ok = True
        for t, own in ((ta, "text of A ${1}"), (tb, "text of B ${2}")):
            try:
                s = t.source
            except Exception as e:
                s = "%s" % type(e).__name__
            if s != own:
                ok = False
                f = Failure(case, "Template(uri=%r).source returns %r, its own text is %r (another template with uri %r exists)" % (t.uri, s, own, ub if t is ta else ua),
                            "source-of-other-template")
                fails.setdefault(f.key, f)
            if ("_template_uri = %r" % t.uri) not in t.code:
                ok = False
                f = Failure(case, "Template(uri=%r).code is another template's module" % t.uri, "code-of-other-template")
                fails.setdefault(f.key, f)
        if ta.render() != "text of A 1" or tb.render() != "text of B 2":
            f = Failure(case, "colliding URIs render each other's content", "render-of-other-template")
            fails.setdefault(f.key, f)
        ev.case(key=case, nontrivial=True, labels=("collision", "held" if ok else "known"))
        if not ok:
            ev.excluded_known["C08-module-id-collision"] += 1


def shard(task):
    seed, n, ncli = task
    core.setup_repo()
    ev = core.Evidence()
    fails = {}
    with core.TempDir() as d:
        batch = []

        def check(prog):
            check_program({"part": "prog", "prog": prog}, ev, batch, d)

        f1, _ = core.hyp_search(strategy(), check, ev, seed, n, shrink=False)
        from hypothesis import strategies as st

        def checkc(data):
            g = tprog.G(data, set())
            src, vars_ = cli_doc(g)
            check_cli({"part": "cli", "src": src, "vars": vars_}, ev, d)

        f2, _ = core.hyp_search(st.binary(min_size=60, max_size=60), checkc, ev, seed + 1, ncli, shrink=True, shrink_budget=10)
        def checkd(data):
            check_defopt(defopt_case(tprog.G(data, set())), ev, d)

        f3, _ = core.hyp_search(st.binary(min_size=40, max_size=40), checkd, ev, seed + 2, max(20, n // 2), shrink=True, shrink_budget=10)
        for f in f1 + f2 + f3:
            fails.setdefault(f.key, f)
        run_children(batch, d, ev, fails)
    return ev, list(fails.values())


def run(ctx):
    fails = {}
    core.setup_repo()
    check_collision(ctx.ev, fails)
    with core.TempDir() as d:
        check_inheriting_defs(ctx.ev, fails, d)
        check_catchall(ctx.ev, fails, d)
        check_cli_dirs_all(ctx.ev, fails, d)
        check_fixed_sources(ctx.ev, fails, d)
        check_same_uri_two_lookups(ctx.ev, fails, d)
        check_relative_moddir(ctx.ev, fails, d)
    for f in fails.values():
        ctx.fail(f)
    n = ctx.pick(40, 1500)
    ctx.pmap(shard, [(ctx.shard_seed(i), n, ctx.pick(60, 1500)) for i in range(16)])


def classify(f):
    if f.case.get("part") == "collision" and f.key in ("source-of-other-template", "code-of-other-template"):
        return "C08-module-id-collision"
    return None


def replay(case):
    core.setup_repo()
    ev = core.Evidence()
    fails = {}
    try:
        part = case.get("part")
        with core.TempDir() as d:
            if part == "prog":
                check_program(case, ev, [], d)
            elif part == "cli":
                check_cli(case, ev, d)
            elif part == "collision":
                check_collision(ev, fails)
            elif part == "inheriting-def":
                check_inheriting_defs(ev, fails, d)
            elif part == "catchall":
                check_catchall(ev, fails, d)
            elif part == "defopt":
                check_defopt(case, ev, d)
            elif part == "cli-dirs":
                check_cli_dirs(case, ev, d)
            elif part == "fixed-source":
                check_fixed_sources(ev, fails, d)
            elif part == "same-uri":
                check_same_uri_two_lookups(ev, fails, d)
            elif part == "relative-moddir":
                check_relative_moddir(ev, fails, d)
            elif part == "nsset":
                from mako.lookup import TemplateLookup

                st_ = case["set"]
                outs = set()
                for seed in SEEDS + ["3", "5", "7", "11"]:
                    code = ("import sys,os,json; sys.path.insert(0, os.environ['VERIF_REPO']); from mako.lookup import TemplateLookup; st=json.loads(sys.argv[1]); lk=TemplateLookup();\n"
                            "[lk.put_string(u, s) for u, s in st['templates'].items()]; print(lk.get_template(st['entry']).render_unicode(**st['ctx']))")
                    r = subprocess.run([sys.executable, "-c", code, json.dumps(st_)], env=dict(os.environ, PYTHONHASHSEED=seed, VERIF_REPO=core.REPO),
                                       stdout=subprocess.PIPE, stderr=subprocess.STDOUT, text=True)
                    outs.add(r.stdout.strip())
                if len(outs) > 1:
                    return Failure(case, "rendering depends on PYTHONHASHSEED: %r" % sorted(outs), "child-differs:namespace-imports")
                if st_.get("expected") and outs != {st_["expected"][1]}:
                    return Failure(case, "rendered %r under every seed, by construction %r" % (sorted(outs)[0][-300:], st_["expected"][1]), "child-differs:defaults-order")
            elif part == "child":
                batch = []
                prog_src = case["src"]
                from mako.template import Template

                k = next(_k)
                fn = os.path.join(d, "root", "c08_%d.html" % k)
                os.makedirs(os.path.dirname(fn), exist_ok=True)
                with open(fn, "wb") as fh:
                    fh.write(prog_src.encode("utf-8"))
                t = Template(filename=fn, module_directory=os.path.join(d, "mod"), imports=tenv.IMPORTS)
                exp = _run(lambda: t.render_unicode(**tenv.make_ctx()))
                run_children([{"k": k, "src": prog_src, "fn": fn, "expect": list(exp)}], d, ev, fails)
    except Failure as f:
        return f
    for f in fails.values():
        return f
    return None

"""C02 - expression substitution applies the filter pipeline in the documented order.

Domain : (value expression spelling) x (local filter list) x default_filters D x <%page expression_filter> P
         x buffer_filters x site {expression, def filter=, block filter=, <%text filter=>, buffered def value}.
Oracle : reference composition local(P'(D'(value))) with independently written builtin filters and
         non-commuting tagging user filters; the value is obtained by native eval of the expression text.
"""
import itertools
import re
from html.entities import codepoint2name
from urllib.parse import quote_plus

from vf import core
from vf.core import Failure

PID = "C02"
LEVEL = "exploration"
RULE = (
    "case = (site, expression text, local filter list, default_filters, page expression_filter, buffer_filters, value). "
    "Exhaustive part: all local pipelines of length <=2 (quick) / <=3 (thorough) over 8 representative filters "
    "{h,u,trim,fa,fb,wrap('<', '>'),n,decode.utf8} x 6 D x 5 P with a fixed markup-rich value; random part: hypothesis draws "
    "value-expression spellings (literals containing | } # quotes, dict/list/tuple subscripts, calls, conditional, "
    "f-strings, bracketed multi-line with comments, spacing), 0-4 filters from builtin flags / user callables (context, "
    "<%! %>, imports=) / filter calls / attribute filters / n, and the site. non-trivial = the effective pipeline has >=2 "
    "non-commuting filters coming from >=2 of the three sources (D, P, local), or involves n; distinct by "
    "(pipeline, D, P, site, expression text)."
)
ASSUMPTIONS = [
    "h is markupsafe.escape (documented); x, u, trim, entity, str/unicode, decode.<enc> are re-implemented here from filtering.rst",
    "names in default_filters / expression_filter / buffer_filters are supplied at module level (imports= or <%! %>), the only way the docs show",
    "user filters shadowing builtin flag names are out of scope (builtins take precedence per the statement)",
]

import markupsafe  # trusted third-party, documented meaning of `h`

XML = {"&": "&amp;", ">": "&gt;", "<": "&lt;", '"': "&#34;", "'": "&#39;"}


def r_x(s):
    return "".join(XML.get(c, c) for c in s)


def r_u(s):
    return quote_plus(str(s).encode("utf-8"))


def r_entity(s):
    return "".join("&%s;" % codepoint2name[ord(c)] if ord(c) in codepoint2name else c for c in str(s))


def r_decode(enc):
    def f(x):
        if isinstance(x, str):
            return x
        if isinstance(x, bytes):
            return x.decode(enc)
        return str(x)
    return f


# user filters: tag their input so that order is visible; no two commute
def fa(s):
    return "a(" + str(s) + ")"


def fb(s):
    return "b[" + str(s) + "]"


def fc(s):
    return "c{" + str(s) + "}"


def wrap(l, r):
    return lambda s: l + str(s) + r


def pad(d):
    """filter factory taking a dict / set display as its argument: braces inside a filter list"""
    if isinstance(d, (set, frozenset)):
        d = {"l": "".join(sorted(d)), "r": "".join(sorted(d))}
    return lambda s: d.get("l", "") + str(s) + d.get("r", "")


class _Mod:
    @staticmethod
    def f(s):
        return "m<" + str(s) + ">"


mod = _Mod()
# (`u` is the url-escape flag when written bare; `u.f` is an attribute of the object called u, like any other expression)
USER = {"fa": fa, "fb": fb, "fc": fc, "wrap": wrap, "mod": mod, "pad": pad, "u": mod}
IMPORTS = ["from vf.props.c02 import fa, fb, fc, wrap, mod, pad", "from vf.props.c02 import mod as u"]
MODBLOCK = "<%! from vf.props.c02 import fa, fb, fc, wrap, mod, pad, mod as u %>"

BUILTIN = {
    "h": markupsafe.escape, "x": r_x, "u": r_u, "trim": lambda s: s.strip(), "entity": r_entity,
    "str": str, "unicode": str,
}


def resolve(name):
    """filter text -> python callable (reference)"""
    name = name.strip()
    m = re.match(r"decode\.(\w+)$", name)
    if m:
        return r_decode(m.group(1))
    if name in BUILTIN:
        return BUILTIN[name]
    return eval(name, dict(USER))


def ref_pipeline(local, D, P, is_expression=True):
    """-> list of filter texts effectively applied, in order (statement of C02)."""
    local_n = "n" in local
    eff = []
    if is_expression and not local_n:
        if "n" not in P:
            eff += list(D)
        eff += [f for f in P if f != "n"]
    eff += [f for f in local if f != "n"]
    return eff


def apply(pipeline, value):
    for f in pipeline:
        value = resolve(f)(value)
    return value


def commuting_class(f):
    return f.split("(")[0]


def nontrivial(local, D, P, eff):
    if "n" in local or "n" in P:
        return True
    srcs = 0
    for part in (D, [p for p in P if p != "n"], [l for l in local if l != "n"]):
        if any(p not in ("str", "unicode", "decode.utf8") for p in part):
            srcs += 1
    distinct = {commuting_class(f) for f in eff if f not in ("str", "unicode", "decode.utf8")}
    return srcs >= 2 and len(distinct) >= 2


D_CHOICES = [None, [], ["str"], ["fa"], ["str", "fb"], ["decode.utf8"]]
P_CHOICES = [[], ["fb"], ["fb", "fc"], ["n"], ["n", "fb"]]
REP = ["h", "u", "trim", "fa", "fb", "wrap('<', '>')", "n", "decode.utf8"]
VALUE0 = " <a href=\"x?y=1&z='2'\">é|}</a> "

_uri_counter = itertools.count()


def build_template(case):
    """case dict -> (template text, Template kwargs, expected output)"""
    site = case["site"]
    expr = case["expr"]
    local = case["local"]
    D = case["D"]
    P = case["P"]
    BF = case["BF"]
    value_ns = {"v": case["value"], "d": {"k": case["value"], "a|b}": case["value"]}, "ident": lambda z: z}
    value_ns.update(USER)
    value = eval(expr, dict(value_ns))
    Deff = ["str"] if D is None else D
    head = ""
    if P:
        head += '<%%page expression_filter="%s"/>' % ", ".join(P)
    if case.get("modblock"):
        head += MODBLOCK
    ftxt = (case.get("sp1", " ") + "|" + case.get("sp2", " ") + case.get("sep", ", ").join(local)) if local else ""
    kw = dict(default_filters=D, buffer_filters=BF)
    if case.get("strict"):
        kw["strict_undefined"] = True  # every name a template uses here is defined: the outcome must not change
    if not case.get("modblock"):
        kw["imports"] = IMPORTS
    # a comment closing the expression / the filter list (ended by a line break: the rest of the line belongs to it)
    tc1 = case.get("tc1") or ""
    tc2 = (case.get("tc2") or "") if local else ""
    inner_expr = "${" + case.get("sp0", "") + expr + tc1 + ftxt + tc2 + case.get("sp3", "") + "}"
    if site == "expr":
        text = head + "[" + inner_expr + "]"
        exp = "[" + str(apply(ref_pipeline(local, Deff, P), value)) + "]"
    elif site in ("def", "block", "anonblock"):
        # whole content once through the listed filters, without D and P; inner expression has D,P
        inner = str(apply(ref_pipeline([], Deff, P), value))
        content = "<" + inner + "&>"
        fl = [f for f in local if f != "n"]
        out = str(apply(fl, content))
        attr = ' filter="%s"' % ", ".join(fl).replace('"', "'") if fl else ""
        if site == "def":
            text = head + '<%%def name="dd()"%s><${%s}&></%%def>[${dd() | n}]' % (attr, expr + tc1)
        elif site == "block":
            text = head + '[<%%block name="bb"%s><${%s}&></%%block>]' % (attr, expr + tc1)
        else:
            text = head + '[<%%block%s><${%s}&></%%block>]' % (attr, expr + tc1)
        exp = "[" + out + "]"
    elif site == "text":
        fl = [f for f in local if f != "n"]
        raw = "<${" + expr + "}&>"
        attr = ' filter="%s"' % ", ".join(fl) if fl else ""
        text = head + "[<%%text%s>%s</%%text>]" % (attr, raw)
        exp = "[" + str(apply(fl, raw)) + "]"
    elif site == "bufdef":
        # buffered def returns content after buffer_filters; that value is then the value of an expression
        inner = str(apply(ref_pipeline([], Deff, P), value))
        content = "<" + inner + ">"
        ret = apply(list(BF), content)
        text = head + '<%%def name="bd()" buffered="True"><${%s}></%%def>[${bd()%s}]' % (expr + tc1, ftxt + tc2)
        exp = "[" + str(apply(ref_pipeline(local, Deff, P), ret)) + "]"
    else:
        raise AssertionError(site)
    return text, kw, exp


def check_case(case, ev=None):
    from mako.template import Template

    try:
        text, kw, exp = build_template(case)
    except Exception as e:
        # the reference itself cannot evaluate this case (e.g. decode of a non-decodable) -> generator issue
        raise core.HarnessError("reference failed on %r: %r" % (case, e))
    ctx = {"v": case["value"], "d": {"k": case["value"], "a|b}": case["value"]}, "ident": lambda z: z}
    if case.get("ctx_filters"):
        ctx.update({k: USER[k] for k in ("fa", "fb", "fc", "wrap", "mod", "pad", "u")})
    try:
        t = Template(text, uri="/c02_%d.html" % next(_uri_counter), **kw)
        out = t.render_unicode(**ctx)
    except Exception as e:
        raise Failure(case, "template %r (D=%r P=%r) raised %s: %s" % (text, case["D"], case["P"], type(e).__name__, str(e)[:300]),
                      "raised:" + case["site"] + ":" + type(e).__name__)
    if out != exp:
        raise Failure(case, "template %r (D=%r P=%r BF=%r) rendered %r, reference pipeline gives %r"
                      % (text, case["D"], case["P"], case["BF"], out, exp), "order:" + case["site"])
    if ev is not None:
        Deff = ["str"] if case["D"] is None else case["D"]
        eff = ref_pipeline(case["local"], Deff, case["P"], case["site"] in ("expr", "bufdef"))
        nt = nontrivial(case["local"], Deff, case["P"], eff) if case["site"] in ("expr", "bufdef") else len(set(case["local"])) >= 2
        labels = ["site:" + case["site"], "D:%r" % (case["D"],), "P:%s" % ",".join(case["P"]), "len:%d" % len(case["local"])]
        if "n" in case["local"]:
            labels.append("local-n")
        if case.get("multiline"):
            labels.append("multiline-expr")
        ev.case(key=[case["site"], case["expr"], case["local"], case["D"], case["P"], case["BF"]], nontrivial=nt, labels=labels)
        if nt:
            ev.sample({"template": text, "kwargs": {k: v for k, v in kw.items()}, "expected": exp}, case["site"])


# ---- exhaustive ----------------------------------------------------------
def shard_exhaustive(task):
    L, idx, of = task
    core.setup_repo()
    ev = core.Evidence()
    fails = {}
    i = 0
    for local in itertools.product(REP, repeat=L):
        for D in D_CHOICES:
            for P in P_CHOICES:
                i += 1
                if i % of != idx:
                    continue
                case = {"site": "expr", "expr": "v", "local": list(local), "D": D, "P": P, "BF": [], "value": VALUE0,
                        "ctx_filters": i % 2 == 0, "modblock": i % 3 == 0}
                try:
                    check_case(case, ev)
                except Failure as f:
                    fails.setdefault(f.key, f)
    return ev, list(fails.values())


# ---- random --------------------------------------------------------------
def strategies():
    from hypothesis import strategies as st

    lit_chars = st.sampled_from(list("ab |}{#'\"\\<>&é") + ["${", "%>", "\\n", "\x01", "\x01"])  # \x01 -> backslash + real newline
    def lit(s, q):
        body = s.replace("\\", "\\\\").replace("\n", "\\n")
        cont = "\\\n"  # a line continuation inside the literal (not part of its value)
        if q in ("'", '"'):
            body = body.replace(q, "\\" + q)
            return q + body.replace("\x01", cont) + q
        body = body.replace(q[0], "\\" + q[0])
        return q + body.replace("\x01", cont) + q
    strlit = st.builds(lit, st.lists(lit_chars, max_size=6).map("".join), st.sampled_from(["'", '"', "'''", '"""']))
    # triple-quoted literals holding their own quote character unescaped (an odd number of them), then } or |
    triple = st.sampled_from(["\'\'\'it\'s } fine\'\'\'", '"""5" | 6}"""', "\'\'\'a\' | b} c\'\'\'", '"""x"y}"""', "\'\'\'|\'}\'\'\'"])
    leaf = st.one_of(st.just("v"), st.just("v"), strlit, triple, st.just("d['k']"), st.just("d['a|b}']"), st.just('d["a|b}"]'))

    def ext(child):
        return st.one_of(
            child.map(lambda e: "(" + e + ")"),
            child.map(lambda e: "[" + e + "][0]"),
            child.map(lambda e: "(" + e + ",)[0]"),
            child.map(lambda e: "{'a|b}': " + e + "}['a|b}']"),
            child.map(lambda e: "{1: " + e + "}.get(1)"),
            child.map(lambda e: "ident(" + e + ")"),
            child.map(lambda e: "str(" + e + ")"),
            child.map(lambda e: "(" + e + " or 'z|}')"),
            child.map(lambda e: "((1 | 2) and " + e + ")"),
            child.map(lambda e: "[0 | 1, " + e + "][1]"),
            child.map(lambda e: "{0 | 1: " + e + "}[1]"),
            child.map(lambda e: "(ident(0 | 1) and " + e + ")"),
            child.map(lambda e: "(lambda: " + e + ")()"),
            child.map(lambda e: "(" + e + " if True else '}')"),
            st.tuples(child, child).map(lambda t: t[0] + " + " + t[1]),
            st.tuples(child, child).map(lambda t: "''.join([" + t[0] + ", " + t[1] + "])"),
            child.map(lambda e: "(\n  " + e + "  # comment | } ${ \n)"),
            child.map(lambda e: "[\n" + e + ",\n][0]"),
            child.map(lambda e: 'f"{' + e + '}"' if '"' not in e and "\\" not in e and "\n" not in e and "#" not in e and "{" not in e else "(" + e + ")"),
        )
    expr = st.recursive(leaf, ext, max_leaves=4)

    filt = st.sampled_from(["h", "x", "u", "trim", "entity", "str", "unicode", "decode.utf8", "decode.latin1", "n",
                            "fa", "fb", "fc", "mod.f", "u.f", "wrap('<', '>')", "wrap('}', '|')", "wrap(\"(\", ')')", "wrap('', '')",
                            "pad({'l': '[', 'r': ']'})", "pad({'l': '{'})", "pad({k: k.upper() for k in 'lr'})", "pad({'x', '!'})"])
    local = st.lists(filt, max_size=4)
    value = st.one_of(st.just(VALUE0), st.text(st.sampled_from(list(" <>&\"'aé|}%+/")), max_size=8))
    site = st.sampled_from(["expr", "expr", "expr", "def", "block", "anonblock", "text", "bufdef"])
    sp = st.sampled_from(["", " ", "  ", "\t"])
    return st.fixed_dictionaries({
        "site": site, "expr": expr, "local": local, "D": st.sampled_from(D_CHOICES), "P": st.sampled_from(P_CHOICES),
        "BF": st.sampled_from([[], ["fc"]]), "value": value, "ctx_filters": st.booleans(), "modblock": st.booleans(),
        "sp0": sp, "sp1": sp, "sp2": sp, "sp3": sp, "sep": st.sampled_from([",", ", ", " , "]),
        "strict": st.sampled_from([False, False, True]),
        "tc1": st.sampled_from([None, None, None, " # the value\n", "  # not } | nope\n ", "#\n"]),
        "tc2": st.sampled_from([None, None, None, " # escaped\n", "  # } | h\n "]),
    })


def _fix(case):
    """soundness adjustments of drawn cases"""
    case = dict(case)
    case["multiline"] = "\n" in case["expr"]
    D = case["D"]
    if case["site"] in ("def", "block", "anonblock", "text"):
        # n in filter= is not described by the statement
        case["local"] = [f for f in case["local"] if f != "n"]
        # attribute values are double-quoted: filter calls with double quotes cannot be written there
        case["local"] = [f for f in case["local"] if '"' not in f]
    if case["site"] == "text":
        # body is raw text; avoid a body that contains the closing tag or a quote-breaking construct
        if "</%text>" in case["expr"]:
            case["expr"] = "v"
    if case["site"] in ("def", "block", "anonblock", "bufdef") and ("</%" in case["expr"] or "<%" in case["expr"]):
        pass
    return case


def shard_random(task):
    seed, n = task
    core.setup_repo()
    ev = core.Evidence()

    def check(c):
        check_case(_fix(c), ev)

    fails, known = core.hyp_search(strategies(), check, ev, seed, n)
    return ev, fails


# ---- sections with nothing in them: the filters receive the empty string once -----------------------------------------
def check_empty_sections(ev, fails):
    from mako.template import Template

    shapes = {
        "text-selfclosed": '[<%%text%s/>]', "text-empty": '[<%%text%s></%%text>]', "block-empty": '[<%%block%s></%%block>]',
        "named-block-empty": '[<%%block name="eb"%s></%%block>]', "def-empty": '<%%def name="ed()"%s></%%def>[${ed() | n}]',
        "block-selfclosed": '[<%%block%s/>]',
    }
    k = 0
    for name, shape in sorted(shapes.items()):
        for fl in ([], ["fa"], ["fa", "fb"], ["trim", "fc"], ["h"]):
            for D in (None, ["fb"]):
                k += 1
                attr = ' filter="%s"' % ", ".join(fl) if fl else ""
                text = shape % attr
                exp = "[" + str(apply(fl, "")) + "]"
                case = {"part": "empty-section", "shape": name, "filters": fl, "D": D}
                try:
                    got = Template(text, uri="/c02e_%d.html" % k, imports=IMPORTS, default_filters=D).render_unicode()
                except Exception as e:  # noqa: BLE001
                    got = "%s: %s" % (type(e).__name__, str(e)[:120])
                if got != exp:
                    f = Failure(case, "template %r (default_filters=%r) rendered %r, the filters applied to the empty string give %r" % (text, D, got, exp),
                                "empty-section:" + name)
                    fails.setdefault(f.key, f)
                ev.case(key=["empty-section", name, fl, D], nontrivial=bool(fl), labels=("empty-section:" + name,))


# ---- values that are not strings: the first filter of the pipeline sees the value itself -----------------------------
def ty(v):
    return "%s:%s" % (type(v).__name__, v)


USER["ty"] = ty
IMPORTS.append("from vf.props.c02 import ty")


def check_typed_values(ev, fails):
    """default_filters=[] means no default filter at all (the first filter is handed an int as an int); None means ['str']"""
    import markupsafe
    from mako.lookup import TemplateLookup
    from mako.template import Template

    values = {"int": 5, "float": 2.5, "none": None, "markup": markupsafe.Markup("<b>"), "str": "<s>"}
    k = 0
    for D in (None, [], ["str"], ["ty"]):
        for P in ([], ["ty"], ["n", "ty"]):
            for local in ([], ["ty"], ["ty", "fa"], ["n", "ty"], ["h"]):
                for vname, v in sorted(values.items()):
                    for via in ("Template", "lookup"):
                        k += 1
                        Deff = ["str"] if D is None else D
                        pipe = ref_pipeline(local, Deff, P)
                        res = apply(pipe, v)
                        if not isinstance(res, str):
                            continue  # (what is written must be a string: without any filter that is the template author's business)
                        exp = "[" + str(res) + "]"
                        head = '<%%page expression_filter="%s"/>' % ", ".join(P) if P else ""
                        text = head + "[${v" + ((" | " + ", ".join(local)) if local else "") + "}]"
                        case = {"part": "typed-value", "D": D, "P": P, "local": local, "value": vname, "via": via}
                        try:
                            if via == "Template":
                                t = Template(text, uri="/c02t_%d.html" % k, default_filters=D, imports=IMPORTS)
                            else:
                                lk = TemplateLookup(default_filters=D, imports=IMPORTS)
                                lk.put_string("/c02t_%d.html" % k, text)
                                t = lk.get_template("/c02t_%d.html" % k)
                            got = t.render_unicode(v=v)
                        except Exception as e:  # noqa: BLE001
                            got = "%s: %s" % (type(e).__name__, str(e)[:100])
                        if got != exp:
                            f = Failure(case, "%s(default_filters=%r), template %r, v=%r: rendered %r, the pipeline %r applied to the value gives %r"
                                        % (via, D, text, v, got, pipe, exp), "typed-value:default_filters-%s" % ("none" if D is None else "-".join(D) or "empty"))
                            fails.setdefault(f.key, f)
                        ev.case(key=["typed-value", D, P, local, vname, via], nontrivial=D == [] or bool(P), labels=("typed-value",))


def run(ctx):
    efails = {}
    core.setup_repo()
    check_empty_sections(ctx.ev, efails)
    check_typed_values(ctx.ev, efails)
    for f in efails.values():
        ctx.fail(f)
    tasks = [(0, 0, 1), (1, 0, 1)] + [(2, i, 4) for i in range(4)]
    if not ctx.quick:
        tasks += [(3, i, 16) for i in range(16)]
    ctx.pmap(shard_exhaustive, tasks)
    n = ctx.pick(600, 5000)
    ctx.pmap(shard_random, [(ctx.shard_seed(i), n) for i in range(16)])
    ctx.ev.exhaustive = True
    ctx.ev.notes["exhaustive_domains"] = "local pipelines of length <=%d over %r x D x P" % (ctx.pick(2, 3), REP)


def replay(case):
    core.setup_repo()
    if case.get("part") == "typed-value":
        fails = {}
        check_typed_values(core.Evidence(), fails)
        return next((f for f in fails.values() if f.case["D"] == case["D"]), None)
    if case.get("part") == "empty-section":
        fails = {}
        check_empty_sections(core.Evidence(), fails)
        return next((f for f in fails.values() if f.case == case), None)
    try:
        check_case(case)
    except Failure as f:
        return f
    return None

"""C04 - names resolve through scopes, module, imports, context, builtins, UNDEFINED; reserved names; kwargs.

(i)  exhaustive matrix: binding-site subsets (size <=2 + selected triples) x read sites x strict_undefined.
(iv) reserved names x entry points (render, render_unicode, render_context, get_def().render) and x assignment forms
     x scopes -> NameConflictError (not for `loop` when enable_loop=False).
(v)  context.kwargs == render arguments at every scope; writes to the returned dict and assignments in one scope are
     invisible elsewhere; the caller's dict is unchanged.
Oracle: resolution function written from the statement (first applicable of: Python local/closure binding visible at
the read site, module level, import, context [+ page args and body assignments for defs called by name from the body],
builtin, UNDEFINED | NameError naming the variable).
"""
import builtins
import itertools

from vf import core
from vf.core import Failure

PID = "C04"
LEVEL = "exploration"
RULE = (
    "(i) case = (set of binding sites of one name among {context, page arg, body assignment, def argument, enclosing-def "
    "local, loop target, module-level, imported def, builtin, nowhere}, read site among {body, top-level def called by name, "
    "nested def, anonymous block, named block, call body, control line, tag attribute expression, filter argument}, "
    "strict_undefined); all subsets of size <=2 and selected triples are enumerated; pairs the statement does not determine "
    "(body/page/loop binding read from a named block) are skipped and counted as rejected. (iv) reserved name x entry point, "
    "reserved name x assignment form x scope x enable_loop. (v) kwargs probes at every scope. non-trivial = >=2 binding sites "
    "(precedence exercised) or a read site other than body; distinct by construction (each combination once)."
)
ASSUMPTIONS = [
    "a value is read after it is bound (read-before-assignment is not asserted)",
    "def parameters named like reserved words and module-level assignment of reserved names are outside the statement",
]

# ("nsother": a <%namespace import=..> of ANOTHER name - binds nothing relevant, but switches the generated lookups of
# every context name to the form that consults the imports first)
SITES = ["ctx", "page", "body", "defarg", "encl", "loop", "module", "import", "builtin", "nsother"]
READS = ["body", "topdef", "topdef-callbody", "nested", "anonblock", "namedblock", "callbody", "ctl", "attr", "attr-multi", "filter",
         "calldef-bodyarg"]
# ("calldef-bodyarg": read in a <%def> written inside a call whose body() takes an argument of the SAME name: the argument
# belongs to body() alone, the def resolves the name like the call body's surroundings do)
BODY_SCOPE_READS = {"body", "anonblock", "callbody", "ctl", "attr", "attr-multi", "filter", "calldef-bodyarg"}
_k = itertools.count()


def applicable(S, r):
    if r == "topdef-callbody":
        r = "topdef"  # the same def, called by name from inside the body of a call with content: resolves alike
    if "defarg" in S and r not in ("topdef", "nested"):
        return False
    if "encl" in S and r != "nested":
        return False
    return True


def resolve(S, r):
    """-> value string | "UNDEFINED" | None (statement does not determine)"""
    S = set(S)
    if r == "topdef-callbody":
        r = "topdef"
    # 1. Python local / closure bindings visible at the read site
    if r in BODY_SCOPE_READS:
        if "loop" in S:
            return "loop"  # bound last before the read (loop header follows the body assignment)
        if "body" in S:
            return "body"
        if "page" in S:
            return "ctx" if "ctx" in S else "page"  # a page argument receives the render argument of that name
    if r == "namedblock" and S & {"body", "page", "loop"}:
        return None
    if r == "nested" and "encl" in S:
        return "encl"
    if r in ("topdef", "nested") and "defarg" in S:
        return "arg"
    # 2. module level, 3. import
    if "module" in S:
        return "module"
    if "import" in S:
        return "import"
    # 4. context; defs called by name from the body also see page arguments and body assignments
    if r in ("topdef", "nested"):
        if "body" in S:
            return "body"
        if "page" in S:
            return "ctx" if "ctx" in S else "page"
    if "ctx" in S:
        return "ctx"
    if "builtin" in S:
        return "builtin"
    return "UNDEFINED"


def build(S, r):
    name = "max" if "builtin" in S else "v"
    RD = "${R(%s)}" % name
    head = ""
    if "page" in S:
        head += "<%%page args=\"%s='page'\"/>" % name
    if "module" in S:
        head += "<%%! %s = 'module' %%>" % name
    if "import" in S:
        head += '<%%namespace file="/c04lib_%s.html" import="%s"/>' % (name, name)
    if "nsother" in S:
        head += '<%namespace file="/c04lib_other.html" import="c04_other_def"/>'
    head += '<%def name="w()">${caller.body()}</%def><%def name="w2(a)">${a}</%def>'
    # a second module-level block after everything else: names of every <%! %> block are module-level, not only the last
    head += "<%! c04_other_module_name = 1 %>"
    body = ""
    if "body" in S:
        body += "<%% %s = 'body' %%>" % name
    args, callargs = ("", "")
    if "defarg" in S:
        args, callargs = (name, "'arg'")
    pre = post = ""
    if "loop" in S:
        pre, post = "\n%% for %s in ['loop']:\n" % name, "\n% endfor\n"
    if r == "body":
        read = RD
    elif r == "topdef":
        head += '<%%def name="d(%s)">%s</%%def>' % (args, RD)
        read = "${d(%s)}" % callargs
    elif r == "topdef-callbody":
        head += '<%%def name="d(%s)">%s</%%def>' % (args, RD)
        read = '<%%call expr="w()">${d(%s)}</%%call>' % callargs
    elif r == "nested":
        encl = "<%% %s = 'encl' %%>" % name if "encl" in S else ""
        head += '<%%def name="d(%s)">%s<%%def name="inner()">%s</%%def>${inner()}</%%def>' % (args, encl, RD)
        read = "${d(%s)}" % callargs
    elif r == "anonblock":
        read = "\n<%block>" + RD + "</%block>"
    elif r == "namedblock":
        read = '<%block name="nb">' + RD + "</%block>"
    elif r == "callbody":
        read = '<%call expr="w()">' + RD + "</%call>"
    elif r == "calldef-bodyarg":
        head += '<%def name="lay()">${caller.hd()}</%def>'
        read = '<%%call expr="lay()" args="%s"><%%def name="hd()">%s</%%def>unused body</%%call>' % (name, RD)
    elif r == "ctl":
        read = "\n%% for z in [R(%s)]:\n${z}\n%% endfor\n" % name
    elif r == "attr":
        read = '<%%self:w2 a="${R(%s)}"/>' % name
    elif r == "attr-multi":
        # an attribute made of several ${} pieces; the name under test is read by the FIRST piece
        read = '<%%include file="${PV(%s)}${DOT}html"/>${LAST()}' % name
    elif r == "filter":
        read = "${'x' | mk(R(%s))}" % name
    return head + body + pre + read + post, name


def helpers():
    from mako.runtime import Undefined

    def R(x):
        if isinstance(x, Undefined):
            return "UNDEFINED"
        if x is builtins.max:
            return "builtin"
        if callable(x):
            return x()
        return x

    def mk(val):
        return lambda s: str(val)

    cell = []

    def PV(x):
        cell.append(R(x))
        return "/c04inc"

    def LAST():
        return cell[-1] if cell else "NOT-EVALUATED"

    return {"R": R, "mk": mk, "PV": PV, "LAST": LAST, "DOT": "."}


def check_matrix(S, r, strict, ev=None):
    from mako.lookup import TemplateLookup

    case = {"part": "matrix", "S": list(S), "r": r, "strict": strict}
    exp = resolve(S, r)
    if exp is None:
        if ev is not None:
            ev.rejected += 1
        return
    src, name = build(S, r)
    lk = TemplateLookup(strict_undefined=strict)
    lk.put_string("/c04lib_%s.html" % name, '<%%def name="%s()">import</%%def>' % name)
    lk.put_string("/c04inc.html", "")
    lk.put_string("/c04lib_other.html", '<%def name="c04_other_def()">other</%def>')
    uri = "/c04_%d.html" % next(_k)
    ctx = helpers()
    if "ctx" in S:
        ctx[name] = "ctx"
    try:
        lk.put_string(uri, src)
        out = ("ok", lk.get_template(uri).render_unicode(**ctx).strip())
    except NameError as e:
        out = ("NameError", str(e))
    except Exception as e:
        out = ("exc", type(e).__name__, str(e)[:200])
    if exp == "UNDEFINED" and strict:
        if out[0] != "NameError" or name not in out[1]:
            raise Failure(case, "bindings %s read at %s under strict_undefined: expected NameError naming %r, got %r\n%s" % (sorted(S), r, name, out, src),
                          "strict:%s" % r)
    else:
        if out != ("ok", exp):
            raise Failure(case, "bindings %s read at %s (strict=%s): statement says %r, mako gives %r\n%s" % (sorted(S), r, strict, exp, out, src),
                          "resolution:%s:%s" % (r, "+".join(sorted(S)) or "nowhere"))
    if ev is not None:
        nt = len(S) >= 2 or r != "body"
        ev.evaluations += 1
        ev.labels["read:" + r] += 1
        ev.labels["winner:" + exp] += 1
        if nt:
            ev.distinct_extra += 1
        if len(S) == 2 and r in ("topdef", "callbody"):
            ev.sample({"bindings": sorted(S), "read": r, "strict": strict, "template": src, "expected": exp}, r)


UBL = {
    "body": "${{R({n})}}<% {n} = 'body' %>",
    "def": '<% {n} = "outer" %><%def name="d()">${{R({n})}}<% {n} = "inner" %></%def>${{d()}}',
    "nested": '<%def name="d()"><% {n} = "outer" %><%def name="e()">${{R({n})}}<% {n} = "inner" %></%def>${{e()}}</%def>${{d()}}',
    "block": "<% {n} = 'outer' %>\n<%block>${{R({n})}}<% {n} = 'inner' %></%block>",
    "callbody": '<%def name="w()">${{caller.body()}}</%def><% {n} = "outer" %><%call expr="w()">${{R({n})}}<% {n} = "inner" %></%call>',
}


def check_ubl(scope, with_ctx, strict, ev=None):
    """a name assigned anywhere in a scope is local to it: reading it before the assignment raises UnboundLocalError
    (Python local rules; documented in defs.rst, pinned by test_def.py::test_unbound_scope)"""
    from mako.template import Template

    case = {"part": "ubl", "scope": scope, "ctx": with_ctx, "strict": strict}
    src = UBL[scope].format(n="v")
    ctx = helpers()
    if with_ctx:
        ctx["v"] = "ctx"
    try:
        out = ("ok", Template(src, uri="/c04u_%d.html" % next(_k), strict_undefined=strict).render_unicode(**ctx))
    except UnboundLocalError:
        out = ("UnboundLocalError",)
    except Exception as e:
        out = ("exc", type(e).__name__, str(e)[:200])
    if out != ("UnboundLocalError",):
        raise Failure(case, "read before assignment in scope %s (ctx=%s strict=%s): expected UnboundLocalError, got %r\n%s" % (scope, with_ctx, strict, out, src),
                      "read-before-assignment:" + scope)
    if ev is not None:
        ev.evaluations += 1
        ev.distinct_extra += 1
        ev.labels["read-before-assignment"] += 1


def matrix_cases():
    subsets = [()]
    subsets += [(a,) for a in SITES]
    subsets += list(itertools.combinations(SITES, 2))
    subsets += [("ctx", "page", "body"), ("ctx", "module", "import"), ("ctx", "body", "module"), ("ctx", "import", "builtin"),
                ("page", "body", "loop"), ("ctx", "defarg", "module"), ("ctx", "encl", "defarg"), ("body", "import", "module"),
                ("ctx", "loop", "import"), ("ctx", "page", "module"),
                ("nsother", "ctx", "builtin"), ("nsother", "import", "ctx"), ("nsother", "page", "body")]
    for S in subsets:
        for r in READS:
            if applicable(S, r):
                for strict in (False, True):
                    yield S, r, strict


# ---- (iv) reserved names --------------------------------------------------
RESERVED = ["context", "UNDEFINED", "STOP_RENDERING", "loop"]
ASSIGN = {
    "=": "<% {n} = 1 %>",
    "for": "\n% for {n} in [1]:\nx\n% endfor\n",
    "import-as": "<% import os as {n} %>",
    "with-as": "\n% with rec() as {n}:\nx\n% endwith\n",
    "except-as": "\n% try:\nx\n% except Exception as {n}:\ny\n% endtry\n",
    "aug": "<% {n} += 1 %>",
    "for-py": "<%\nfor {n} in [1]:\n    pass\n%>",
    "tuple": "<% a, {n} = 1, 2 %>",
}
SCOPES = {
    "body": "{a}",
    "def": '<%def name="d()">{a}</%def>',
    "nested": '<%def name="d()"><%def name="e()">{a}</%def></%def>',
    "block": "\n<%block>{a}</%block>",
    "callbody": '<%def name="w()">${{caller.body()}}</%def><%call expr="w()">{a}</%call>',
}


def check_reserved_assign(name, form, scope, enable_loop, ev=None):
    from mako import exceptions as mexc
    from mako.template import Template

    src = SCOPES[scope].format(a=ASSIGN[form].format(n=name))
    case = {"part": "reserved-assign", "name": name, "form": form, "scope": scope, "enable_loop": enable_loop}
    expect_err = not (name == "loop" and not enable_loop)
    try:
        Template(src, uri="/c04r_%d.html" % next(_k), enable_loop=enable_loop)
        got = None
    except mexc.NameConflictError:
        got = "NameConflictError"
    except Exception as e:
        got = type(e).__name__
    if expect_err and got != "NameConflictError":
        raise Failure(case, "assigning %s via %s in %s: expected NameConflictError, got %r\n%s" % (name, form, scope, got, src),
                      "reserved-assign:%s" % form)
    if not expect_err and got is not None:
        raise Failure(case, "assigning loop with enable_loop=False via %s in %s raised %s\n%s" % (form, scope, got, src), "reserved-assign:loop-disabled")
    if ev is not None:
        ev.evaluations += 1
        ev.distinct_extra += 1
        ev.labels["reserved-assign"] += 1


def check_reserved_entry(name, entry, enable_loop, ev=None):
    from mako import exceptions as mexc
    from mako.runtime import Context
    from mako.template import Template
    from mako.util import FastEncodingBuffer

    t = Template('<%def name="d()">x</%def>y', uri="/c04e_%d.html" % next(_k), enable_loop=enable_loop)
    case = {"part": "reserved-entry", "name": name, "entry": entry, "enable_loop": enable_loop}
    expect_err = not (name == "loop" and not enable_loop)
    kw = {name: 1}
    try:
        if entry == "render":
            t.render(**kw)
        elif entry == "render_unicode":
            t.render_unicode(**kw)
        elif entry == "render_context":
            t.render_context(Context(FastEncodingBuffer(), **kw))
        elif entry == "get_def.render":
            t.get_def("d").render(**kw)
        elif entry == "get_def.render_context":
            t.get_def("d").render_context(Context(FastEncodingBuffer(), **kw))
        got = None
    except mexc.NameConflictError:
        got = "NameConflictError"
    except Exception as e:
        got = type(e).__name__ + ":" + str(e)[:100]
    if expect_err and got != "NameConflictError":
        raise Failure(case, "passing %s to %s: expected NameConflictError, got %r" % (name, entry, got), "reserved-entry:%s" % entry)
    if not expect_err and got is not None:
        raise Failure(case, "passing loop with enable_loop=False to %s raised %s" % (entry, got), "reserved-entry:loop-disabled")
    if ev is not None:
        ev.evaluations += 1
        ev.distinct_extra += 1
        ev.labels["reserved-entry"] += 1


# ---- (v) kwargs / isolation -----------------------------------------------
KW_TEMPLATE = (
    '<%def name="w()">${caller.body()}</%def>'
    '<%def name="d()">D${K(context.kwargs)}<% x = "changed-in-def" %><% context.kwargs["zz"] = 1 %>'
    '<%def name="e()">E${K(context.kwargs)}</%def>${e()}</%def>'
    'B${K(context.kwargs)}<% context.kwargs["zz"] = 1 %><% x = "body" %>${d()}X${x}G${context.get("x", "nox")}'
    '\n<%block>K${K(context.kwargs)}<% x = "changed-in-block" %></%block>X${x}'
    '<%call expr="w()">C${K(context.kwargs)}</%call>'
    '<%block name="nb">N${K(context.kwargs)}</%block>Z${K(context.kwargs)}'
)


def check_kwargs(kw, ev=None):
    from mako.template import Template

    case = {"part": "kwargs", "kw": kw}
    t = Template(KW_TEMPLATE, uri="/c04k_%d.html" % next(_k))
    given = dict(kw)
    snap = dict(given)

    def K(d):
        return "{%s}" % ",".join("%s=%s" % (k, d[k]) for k in sorted(d) if k != "K")

    args = dict(given, K=K)
    out = t.render_unicode(**args)
    ks = K(snap)
    gx = given.get("x", "nox")
    exp = "B%sD%sE%sXbodyG%s\nK%sXbodyC%sN%sZ%s" % (ks, ks, ks, gx, ks, ks, ks, ks)
    if out != exp:
        raise Failure(case, "kwargs/isolation probe rendered %r, expected %r" % (out, exp), "kwargs")
    if given != snap:
        raise Failure(case, "the dict given to render changed: %r -> %r" % (snap, given), "kwargs:caller-dict")
    if ev is not None:
        ev.case(key=case, nontrivial=len(kw) >= 1, labels=("kwargs",))


# ---- (iii) statement forms: a context-only name read in one specific syntactic position, compared with native exec
STATEMENT_FORMS = {
    "for-else": "for _i in []:\n    pass\nelse:\n    out = V",
    "for-body": "for _i in [1]:\n    out = V",
    "for-iter": "for _i in [V]:\n    out = _i",
    "while-else": "while False:\n    pass\nelse:\n    out = V",
    "while-cond": "_n = 0\nwhile _n < 1 and V:\n    _n += 1\nout = V",
    "try-else": "try:\n    pass\nexcept Exception:\n    pass\nelse:\n    out = V",
    "try-finally": "try:\n    pass\nfinally:\n    out = V",
    "try-except": "try:\n    raise KeyError(1)\nexcept KeyError:\n    out = V",
    "except-type": "try:\n    out = V\nexcept (KeyError, type(V)):\n    pass",
    "with-item": "with CM(V) as _w:\n    out = _w",
    "with-body": "with CM(1):\n    out = V",
    "if-test": "out = 'n'\nif V:\n    out = 'y'",
    "elif-test": "out = 'n'\nif False:\n    pass\nelif V:\n    out = 'y'",
    "else-body": "if False:\n    pass\nelse:\n    out = V",
    "ifexp": "out = V if True else 0",
    "ifexp-else": "out = 0 if False else V",
    "boolop": "out = False or V",
    "compare": "out = (V == V)",
    "subscript": "out = {'k': 1}.get(V, V)",
    "slice": "out = 'abcdefgh'[len(V) % 3:len(V)]",
    "call-kw": "out = dict(a=V)['a']",
    "call-star": "out = (lambda *a: a[0])(*[V])",
    "call-dstar": "out = (lambda **k: k['a'])(**{'a': V})",
    "lambda-body": "out = (lambda: V)()",
    "lambda-default": "out = (lambda a=V: a)()",
    "listcomp-iter": "out = [z for z in [V]][0]",
    "listcomp-elt": "out = [V for z in [1]][0]",
    "listcomp-if": "out = [z for z in [1] if V]",
    "dictcomp": "out = {z: V for z in [1]}[1]",
    "setcomp": "out = sorted({V for z in [1]})[0]",
    "genexp": "out = next(V for z in [1])",
    "nested-comp": "out = [[V for a in [1]] for b in [2]][0][0]",
    "fstring": "out = f'<{V}>'",
    "fstring-spec": "out = f'{V!r:>8}'",
    "def-default-same-name": "def _f(V=V):\n    return V\nout = _f()",
    "def-kwonly-default-same-name": "def _f(*, V=V):\n    return V\nout = _f()",
    "lambda-default-same-name": "out = (lambda V=V: V)()",
    "nested-default-outer-param": "def _g(_p):\n    def _h(_p=V):\n        return _p\n    return _h()\nout = _g(1)",
    "fn-lambda-then-binding": "def _f():\n    _k = lambda z: z\n    V = 'local'\n    return _k(V)\nout = _f() + V",
    "fn-nested-def-then-for": "def _f():\n    def _g():\n        return 1\n    for V in ['x']:\n        pass\n    return V * _g()\nout = _f() + V",
    "fn-lambda-then-import": "def _f():\n    _k = (lambda: 0)()\n    import os.path as V\n    return V.sep\nout = _f() + V",
    # comprehensions inside function / lambda / class bodies: their targets are theirs, wherever they are read
    "fn-comp-if-own-target": "def _f(_s):\n    return [_n for _n in _s if _n != V]\nout = _f(['a', V])",
    "lambda-comp-if-own-target": "_f = lambda _s: {_n for _n in _s if _n and len(_n) > 1}\nout = sorted(_f(['', 'ab', V]))",
    "fn-dictcomp-if-own-target": "def _f(_s):\n    return {_k: _v for _k, _v in _s if _k is not None and _v}\nout = _f([(1, V), (None, 2), (3, 0)])",
    "fn-genexp-if-own-target": "def _f(_s):\n    return sum(1 for _n in _s if _n == V)\nout = _f([V, 'x', V])",
    "class-comp-if-own-target": "class _C:\n    a = [_n for _n in ['p', 'qq'] if len(_n) > 1]\nout = _C.a + [V]",
    "fn-nested-comp-if": "def _f(_s):\n    return [[_m for _m in _n if _m != _n[0]] for _n in _s if _n]\nout = _f(['', V + 'zz'])",
    "def-body": "def _f():\n    return V\nout = _f()",
    "def-default": "def _f(a=V):\n    return a\nout = _f()",
    "def-kwonly-default": "def _f(*, a=V):\n    return a\nout = _f()",
    "nested-def": "def _f():\n    def _g():\n        return V\n    return _g()\nout = _f()",
    "class-body": "class _C:\n    a = V\nout = _C.a",
    "class-attr-shadow": "class _C:\n    V = 'attr'\nout = _C.V + V",
    "class-method-shadow": "class _C:\n    def V(self):\n        return 'm'\nout = _C().V() + V",
    "class-in-def-shadow": "def _f():\n    class _C:\n        V = 'a'\n    return _C.V + V\nout = _f()",
    "class-base": "class _B:\n    pass\nclass _C(_B, metaclass=type(type(V))):\n    a = 1\nout = V",
    "decorator": "def _d(f):\n    return lambda: V\n@_d\ndef _f():\n    pass\nout = _f()",
    "augassign": "out = 'x'\nout += V",
    "tuple-unpack": "out, _o = V, 1",
    "starred": "out = [*[V]][0]",
    "dict-unpack": "out = {**{'a': V}}['a']",
    "walrus": "out = (_w := V)",
    "assert": "assert V, V\nout = V",
    "del": "_t = [V]\nout = _t[0]\ndel _t",
    "return-in-def": "def _f():\n    if V:\n        return V\nout = _f()",
    "global-shadow": "def _f(V):\n    return V\nout = _f('param') + V",
    "comp-shadow": "out = [V for V in ['inner']][0] + V",
    "lambda-shadow": "out = (lambda V: V)('param') + V",
    "import-as": "import os.path as _p\nout = V + _p.sep",
    "attribute": "out = V.upper().lower()",
    "chained-compare": "out = ('a' < V < 'z')",
    "conditional-import": "if V:\n    import json as _j\nout = _j.dumps(V)",
    "match-free": "out = [V, V][1]",
}


class CM:
    def __init__(self, v):
        self.v = v

    def __enter__(self):
        return self.v

    def __exit__(self, *a):
        return False


def check_statement_form(name, scope, strict, ev=None):
    """the block is run natively in a function whose free names come from a namespace holding V; through the template
    V is only in the render context: same final value of `out`, and under strict_undefined without V a NameError naming V"""
    from mako.template import Template

    code = STATEMENT_FORMS[name].replace("V", "ctxv")
    case = {"part": "form", "name": name, "scope": scope, "strict": strict}
    ns = {"ctxv": "value", "CM": CM}
    exec(compile("def __f():\n" + "".join("    " + l + "\n" for l in code.split("\n")) + "    return out\n", "<native>", "exec"), ns)
    exp = repr(ns["__f"]())
    block = "<%\n" + code + "\n%>${repr(out)}"
    if scope == "body":
        src = block
    elif scope == "def":
        src = '<%def name="d()">' + block + "</%def>${d()}"
    else:
        src = '<%def name="d()"><%def name="e()">' + block + "</%def>${e()}</%def>${d()}"
    tag = "\n--- template ---\n" + src
    try:
        out = ("ok", Template(src, uri="/c04f_%d.html" % next(_k), strict_undefined=strict).render_unicode(ctxv="value", CM=CM))
    except Exception as e:
        out = ("exc", type(e).__name__, str(e)[:200])
    if out != ("ok", exp):
        raise Failure(case, "statement form %s in %s (strict=%s): native exec gives %s, template gives %r" % (name, scope, strict, exp, out) + tag,
                      "statement-form:" + name)
    if strict:
        try:
            out2 = ("ok", Template(src, uri="/c04f_%d.html" % next(_k), strict_undefined=True).render_unicode(CM=CM))
        except NameError as e:
            out2 = ("NameError", str(e))
        except Exception as e:
            out2 = ("exc", type(e).__name__, str(e)[:200])
        if out2[0] != "NameError" or "ctxv" not in out2[1]:
            raise Failure(case, "statement form %s in %s under strict_undefined without the name: expected NameError naming it, got %r" % (name, scope, out2) + tag,
                          "statement-form-strict:" + name)
    if ev is not None:
        ev.evaluations += 1
        ev.distinct_extra += 1
        ev.labels["statement-form"] += 1


FALSY_SITES = {
    "body": "${R2(v)}",
    "def": '<%def name="d()">${R2(v)}</%def>${d()}',
    "nested": '<%def name="d()"><%def name="e()">${R2(v)}</%def>${e()}</%def>${d()}',
    "block": "\n<%block>${R2(v)}</%block>",
    "pyblock": "<% out = R2(v) %>${out}",
    "control": "\n% if v is None or not v or v:\n${R2(v)}\n% endif\n",
}


def check_falsy(value, name, site, strict, ev=None):
    """a context variable is present whatever its value: None, 0, '', False, () are values like any other (also under
    strict_undefined), and a context variable named like a builtin wins over the builtin"""
    from mako.template import Template

    case = {"part": "falsy", "value": repr(value), "name": name, "site": site, "strict": strict}
    src = FALSY_SITES[site].replace("v", name) if name != "v" else FALSY_SITES[site]
    src = src.replace("R2(%s)" % name, "R2(%s)" % name)
    ctx = {"R2": lambda x: "<%r>" % (x,), name: value}
    try:
        out = ("ok", Template(src, uri="/c04z_%d.html" % next(_k), strict_undefined=strict).render_unicode(**ctx).strip())
    except Exception as e:
        out = ("exc", type(e).__name__, str(e)[:200])
    if out != ("ok", "<%r>" % (value,)):
        raise Failure(case, "context variable %s=%r read at %s (strict=%s): expected '<%r>', got %r\n%s" % (name, value, site, strict, value, out, src),
                      "falsy-context-value:%s" % ("builtin-name" if name != "v" else "plain"))
    if ev is not None:
        ev.evaluations += 1
        ev.distinct_extra += 1
        ev.labels["falsy-context-value"] += 1


def shard_matrix(task):
    idx, of = task
    core.setup_repo()
    ev = core.Evidence()
    fails = {}
    for i, (S, r, strict) in enumerate(matrix_cases()):
        if i % of != idx:
            continue
        try:
            check_matrix(S, r, strict, ev)
        except Failure as f:
            fails.setdefault(f.key, f)
    return ev, list(fails.values())


def shard_rest(task):
    seed, n = task
    core.setup_repo()
    ev = core.Evidence()
    fails = {}
    for value in (None, 0, "", False, (), 0.0):
        for name in ("v", "id", "type"):
            for site in sorted(FALSY_SITES):
                for strict in (False, True):
                    try:
                        check_falsy(value, name, site, strict, ev)
                    except Failure as f:
                        fails.setdefault(f.key, f)
    for name in STATEMENT_FORMS:
        for scope in ("body", "def", "nested"):
            for strict in (False, True):
                try:
                    check_statement_form(name, scope, strict, ev)
                except Failure as f:
                    if classify(f):
                        ev.excluded_known[classify(f)] += 1
                    fails.setdefault(f.key, f)
    for scope in UBL:
        for with_ctx in (False, True):
            for strict in (False, True):
                try:
                    check_ubl(scope, with_ctx, strict, ev)
                except Failure as f:
                    fails.setdefault(f.key, f)
    for name in RESERVED:
        for el in (True, False):
            for form in ASSIGN:
                for scope in SCOPES:
                    try:
                        check_reserved_assign(name, form, scope, el, ev)
                    except Failure as f:
                        fails.setdefault(f.key, f)
            for entry in ("render", "render_unicode", "render_context", "get_def.render", "get_def.render_context"):
                try:
                    check_reserved_entry(name, entry, el, ev)
                except Failure as f:
                    fails.setdefault(f.key, f)
    from hypothesis import strategies as st

    kws = st.dictionaries(st.sampled_from(["a", "b", "x", "zz", "self_", "q"]), st.sampled_from(["1", "v", "ctx"]), max_size=4)
    f2, _ = core.hyp_search(kws, lambda kw: check_kwargs(kw, ev), ev, seed, n)
    return ev, list(fails.values()) + f2


def run(ctx):
    ctx.pmap(shard_matrix, [(i, 8) for i in range(8)])
    ctx.pmap(shard_rest, [(ctx.shard_seed(0), ctx.pick(60, 400))])
    ctx.ev.exhaustive = True
    ctx.ev.notes["exhaustive_domains"] = "binding subsets (size<=2 + 10 triples) x 9 read sites x strict; reserved names x forms x scopes x entry points"


def classify(f):
    if f.case.get("part") == "form" and f.case.get("name") == "comp-shadow" and "NameError" in f.detail and "ctxv" in f.detail:
        return "C04-comprehension-variable-shadows-context-name"
    return None


def replay(case):
    core.setup_repo()
    try:
        p = case["part"]
        if p == "matrix":
            check_matrix(tuple(case["S"]), case["r"], case["strict"])
        elif p == "form":
            check_statement_form(case["name"], case["scope"], case["strict"])
        elif p == "falsy":
            check_falsy(eval(case["value"]), case["name"], case["site"], case["strict"])
        elif p == "ubl":
            check_ubl(case["scope"], case["ctx"], case["strict"])
        elif p == "reserved-assign":
            check_reserved_assign(case["name"], case["form"], case["scope"], case["enable_loop"])
        elif p == "reserved-entry":
            check_reserved_entry(case["name"], case["entry"], case["enable_loop"])
        else:
            check_kwargs(case["kw"])
    except Failure as f:
        return f
    return None

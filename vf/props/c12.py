"""C12 - runtime tracebacks and compile warnings map to template lines.

Subjects : an innermost template (benign multi-line prefix material + ONE planted raising construct at a known line) and a
           stack shape that puts 1..4 templates on the traceback (single, include, inherit, namespace def, def in same
           template, inherit -> namespace def -> include); x construction paths (put_string lookup, files, files +
           module_directory fresh, files + module_directory re-loaded by a second lookup).
Faults   : raising constructs enumerated per subject: ${boom()}, multi-line ${}, statement on line k of <% %>, function
           defined in <%! %> raising on its line k, control-line condition, tag attribute expression, filter function,
           inside a def called from the body.  Separately: one warning-triggering construct (invalid escape in an
           expression / <% %> line / <%! %> line, `is` with a literal, warnings.warn in module code) x filter actions.
Oracle   : expected (template file-or-uri, line) for the innermost template frame and for the calling construct of every
           outer template known by construction; frames of ordinary modules equal traceback.extract_tb; text / HTML error
           templates and format_exceptions name the innermost frame; warnings: exactly one record at (template, line).
"""
import itertools
import os
import re
import traceback
import warnings

from vf import core
from vf.core import Failure

PID = "C12"
LEVEL = "fault_enumeration"
RULE = (
    "subject = drawn prefix material (0-7 units of 15 kinds) + stack shape (6 kinds) + path (4 kinds); faults = each of 9 "
    "raising constructs planted once per subject (enumerated) and each of 5 warning constructs x 5 filter actions. "
    "non-trivial = >=2 templates on the stack, or the raise point is preceded by a Python block / def / multi-line construct "
    "(lines emitted without their own source mapping); distinct by (shape, path, fault, prefix)."
)
ASSUMPTIONS = [
    "frames of generated helper stubs (def-call wrappers, namespace callables) are template frames whose line the statement "
    "does not fix: the expected (file, line) pairs must appear in order as a subsequence of the template frames",
    "NameErrors of hoisted strict_undefined lookups are not a candidate raise point",
    "warnings are recorded with warnings.catch_warnings(record=True) as the repository's own tests do; onceregistry is cleared per case",
]
_k = itertools.count()


class Boom(Exception):
    pass


def boom(*a):
    raise Boom("planted")


def badfilter(s):
    raise Boom("planted-filter")


class G:
    def __init__(self, data):
        self.data = data
        self.pos = 0

    def _b(self):
        if self.pos < len(self.data):
            b = self.data[self.pos]
            self.pos += 1
            return b
        return 0

    def pick(self, seq):
        seq = list(seq)
        return seq[self._b() % len(seq)]

    def int(self, a, b):
        return a + self._b() % (b - a + 1)


UNITS = [
    ("text", "plain text\n"), ("crlf", "dos line\r\n"), ("blank", "\n"), ("multitext", "one\ntwo\nthree\n"),
    ("continuation", "joined \\\nline\n"), ("comment", "## a comment\n"), ("doc", "<%doc>\nmulti\nline\n</%doc>\n"),
    ("expr", "${'e'}\n"), ("multiexpr", "${[1,\n 2,\n 3][0]}\n"), ("block", "<%\n    q1 = 1\n    q2 = 2\n%>\n"),
    ("control", "% if True:\n  inner\n% endif\n"), ("def", '<%def name="p{N}()">\n  body\n</%def>\n'),
    ("texttag", "<%text>\n% raw ${x}\n</%text>\n"), ("loop", "% for i{N} in range(2):\n${i{N}}\n% endfor\n"),
    ("calldef", '<%def name="c{N}()">\nx\n</%def>\n${c{N}()}\n'), ("modblock", "<%!\n    m{N} = 1\n\n    m{N}b = 2\n%>\n"),
    ("formfeed", "page\x0cbreak\n"), ("unicode-linesep", "a\u2028b\x85c\x0bd\n"),
    # enough constructs for a generated module of more than 100 lines
    ("bulk", "".join("${'e%d'} and ${%d}\n" % (i, i) for i in range(40))),
]
PY_BEARING = {"block", "def", "multiexpr", "control", "loop", "calldef", "modblock"}

RAISERS = ["expr", "expr-multiline", "block-line", "module-func", "control-cond", "attr-expr", "filter", "in-def", "block-oneline",
           "for-iterable-loop", "for-iterable", "while-cond", "def-call-arg", "module-func-not-last", "def-filter-blank",
           "elif-cond", "except-expr", "else-body", "ns-second-tag"]
WHOLE_TEMPLATE_RAISERS = {"ns-second-tag"}  # constructs that belong to the template, not to the place they are written in
WHOLE_TEMPLATE_SHAPES = {"single", "include", "include-deep", "chain"}


def raiser(kind, k):
    """-> (text, rel line of the raise [0-based from construct start], extra expected frames [(rel line)] before it)"""
    if kind == "expr":
        return "a ${boom()} b\n", 0, []
    if kind == "expr-multiline":
        return "${[1,\n" + " 2,\n" * k + " boom()]}\n", 0, []  # construct-begin line
    if kind == "block-line":
        return "<%\n" + "    z = 1\n" * k + "    boom()\n    y = 2\n%>\n", 1 + k, []
    if kind == "block-oneline":
        return "x <% boom() %> y\n", 0, []
    if kind == "module-func":
        # the function is defined in a module block placed at the construct; it is called one line after the block
        return "<%!\n    def helper9():\n" + "        z = 1\n" * k + "        boom()\n%>\n${helper9()}\n", 2 + k, [4 + k]
    if kind == "module-func-not-last":
        # several <%! %> blocks; the raising function lives in the first one
        return ("<%!\n    def helper8():\n" + "        z = 1\n" * k + "        boom()\n%>\nbetween\n<%!\n    y8 = 2\n%>\n<%!\n    y9 = 3\n%>\n${helper8()}\n",
                2 + k, [11 + k])
    if kind == "control-cond":
        return "% if boom():\nx\n% endif\n", 0, []
    # control lines that continue a compound statement carry frames of their own
    if kind == "elif-cond":
        return "% if False:\nx\n" + "y\n" * k + "% elif boom():\nz\n% endif\n", 2 + k, []
    if kind == "except-expr":
        return "% try:\n${boom()}\n" + "y\n" * k + "% except boom():\nz\n% endtry\n", 2 + k, []
    if kind == "else-body":
        return "% if False:\nx\n% else:\n" + "y\n" * k + "${boom()}\n% endif\n", 3 + k, []
    if kind == "ns-second-tag":
        # the second of two <%namespace> tags fails when the template's namespaces are set up (on the first use of one)
        return ('<%namespace name="nq1" module="os.path"/>\n' + "y\n" * k + "<%namespace name=\"nq2\" file=\"${context['boom']()}\"/>\n"
                + "${nq1.basename('a/b')}\n", 1 + k, [])
    if kind == "for-iterable-loop":
        return "% for i9 in boom():\n${loop.index}\n% endfor\n", 0, []
    if kind == "for-iterable":
        return "% for i9 in boom():\n${i9}\n% endfor\n", 0, []
    if kind == "while-cond":
        return "% while boom():\nx\n% endwhile\n", 0, []
    if kind == "def-call-arg":
        return '<%def name="ra9(a)">\nx\n</%def>\n' + "text\n" * k + "${ra9(boom())}\n", 3 + k, []
    if kind == "attr-expr":
        return '<%include file="${boom()}"/>\n', 0, []
    if kind == "filter":
        return "${'x' | badfilter}\n", 0, []
    if kind == "def-filter-blank":
        # the filter of a def raises when the def finishes; the last construct of its body is a text run that begins on a
        # BLANK line: the frame is a template frame at that (empty) line, not a frame of the generated module
        return ('<%def name="rf9()" filter="badfilter">\n% if True:\nx\n' + "y\n" * k + "% endif\n\ntail text\n</%def>\n${rf9()}\n",
                4 + k, [7 + k])
    if kind == "in-def":
        return '<%def name="rd9()">\n' + "text\n" * k + "${boom()}\n</%def>\n${rd9()}\n", 1 + k, [3 + k]
    raise AssertionError(kind)


def build(data):
    g = G(data)
    prefix = []
    for i in range(g.int(0, 7)):
        kind, txt = g.pick(UNITS)
        prefix.append([kind, txt.replace("{N}", str(i))])
    return {"prefix": prefix, "shape": g.pick(["single", "include", "inherit", "nsdef", "chain", "single", "include-deep", "ccall-body"]),
            "path": g.pick(["put_string", "files", "moddir", "moddir-reload", "moddir-relocated", "moddir-edited", "lookup-files"]), "k": g.int(0, 2), "prefail": g.pick([0, 0, 1, 2]),
            "outer_pad": g.int(0, 4), "nodf": g.int(0, 3) == 3}


def make_set(subject, rkind):
    """-> (templates {uri: text}, entry uri, expected [(uri, line)] outer->inner)"""
    pre = "".join(t for _, t in subject["prefix"])
    rtext, rline, extra = raiser(rkind, subject["k"])
    inner = pre + rtext + "tail\n"
    base_line = pre.count("\n") + 1
    inner_frames = [base_line + e for e in extra] + [base_line + rline]
    if rkind in ("module-func", "module-func-not-last"):
        inner_frames = [base_line + extra[0], base_line + rline]
    pad = "pad\n" * subject["outer_pad"]
    shape = subject["shape"]
    T = {}
    if shape == "single":
        T["/inner.html"] = inner
        return T, "/inner.html", [("/inner.html", l) for l in inner_frames]
    if shape == "include":
        T["/sub/inner.html"] = inner
        T["/entry.html"] = pad + 'x <%include file="/sub/inner.html"/>\n'
        return T, "/entry.html", [("/entry.html", subject["outer_pad"] + 1)] + [("/sub/inner.html", l) for l in inner_frames]
    if shape == "include-deep":
        T["/sub/inner.html"] = inner
        T["/sub/mid.html"] = "m1\n" + pad + '<%include file="inner.html"/>\n'
        T["/entry.html"] = pad + "e\n" + '<%include file="sub/mid.html"/>\n'
        return T, "/entry.html", [("/entry.html", subject["outer_pad"] + 2), ("/sub/mid.html", subject["outer_pad"] + 2)] + [
            ("/sub/inner.html", l) for l in inner_frames]
    if shape == "inherit":
        T["/base.html"] = pad + "b ${next.body()} c\n"
        T["/inner.html"] = '<%inherit file="/base.html"/>\n' + inner
        return T, "/inner.html", [("/base.html", subject["outer_pad"] + 1)] + [("/inner.html", l + 1) for l in inner_frames]
    if shape == "nsdef":
        T["/lib.html"] = '<%def name="libdef()">\n' + inner + "</%def>\n"
        T["/entry.html"] = '<%namespace name="lib" file="/lib.html"/>\n' + pad + "${lib.libdef()}\n"
        return T, "/entry.html", [("/entry.html", subject["outer_pad"] + 2)] + [("/lib.html", l + 1) for l in inner_frames]
    if shape == "ccall-body":
        # entry -> lib def (called with content) -> entry's call body: template frames interleave A, B, A
        T["/lib.html"] = '<%def name="wrap()">\nw1\n' + pad + "${caller.body()}\n</%def>\n"
        head = '<%namespace name="lib" file="/lib.html"/>\n' + pad + "<%lib:wrap>\n"
        T["/entry.html"] = head + inner + "</%lib:wrap>\n"
        off = head.count("\n")
        return T, "/entry.html", [("/entry.html", off), ("/lib.html", subject["outer_pad"] + 3)] + [("/entry.html", l + off) for l in inner_frames]
    if shape == "chain":
        T["/sub/inc.html"] = inner
        T["/sub/lib.html"] = '<%def name="libdef()">\nl1\n' + pad + '<%include file="inc.html"/>\n</%def>\n'
        T["/base.html"] = "b1\n${next.body()}\n"
        T["/entry.html"] = '<%inherit file="/base.html"/>\n<%namespace name="lib" file="/sub/lib.html"/>\n' + pad + "e\n${lib.libdef()}\n"
        return T, "/entry.html", [("/base.html", 2), ("/entry.html", subject["outer_pad"] + 4), ("/sub/lib.html", subject["outer_pad"] + 3)] + [
            ("/sub/inc.html", l) for l in inner_frames]
    raise AssertionError(shape)


XKW = {}  # extra Template / TemplateLookup arguments of the case being checked (default_filters=[] for some subjects)


def make_lookup(T, path, d, mod=None, age=0, **kw):
    from mako.lookup import TemplateLookup

    for k_, v_ in XKW.items():
        kw.setdefault(k_, v_)

    kw.setdefault("imports", ["from vf.props.c12 import boom, badfilter"])
    if path == "put_string":
        lk = TemplateLookup(**kw)
        for u, s in T.items():
            lk.put_string(u, s)
        return lk, {u: u for u in T}
    root = os.path.join(d, "root")
    names = {}
    for u, s in T.items():
        p = os.path.join(root, u.lstrip("/"))
        os.makedirs(os.path.dirname(p), exist_ok=True)
        with open(p, "wb") as fh:
            fh.write(s.encode("utf-8"))
        if age:
            st_ = os.stat(p)
            os.utime(p, (st_.st_atime - age, st_.st_mtime - age))
        names[u] = p
    if path in ("files", "lookup-files"):
        return TemplateLookup(directories=[root], **kw), names
    mod = mod or os.path.join(d, "mod")
    lk = TemplateLookup(directories=[root], module_directory=mod, **kw)
    return lk, names


def check_traceback(case, ev=None):
    from mako import exceptions as mexc

    subject, rkind = case["subject"], case["fault"]
    XKW.clear()
    if subject.get("nodf"):
        XKW["default_filters"] = []  # no filter at all on plain expressions: another code path writes them
    if rkind == "module-func" and subject["shape"] in ("nsdef",):
        # a <%! %> block inside a def body belongs to the module level all the same; fine, but the def is nested: keep
        pass
    k = next(_k)
    T, entry, expected = make_set(subject, rkind)
    # unique URIs per case: module names are derived from URIs and registered process-wide
    ren = {u: "/c12_%d%s" % (k, u) for u in T}
    T2 = {}
    for u, s in T.items():
        for old, new in ren.items():
            s = s.replace('"%s"' % old, '"%s"' % new)
        T2[ren[u]] = s
    expected = [(ren[u], l) for u, l in expected]
    entry = ren[entry]
    ctx = {"boom": boom, "badfilter": badfilter}
    shown = "\n".join("--- %s ---\n%s" % kv for kv in T2.items())
    with core.TempDir() as d:
        if subject["path"] == "moddir-relocated":
            # the template tree was moved while the module directory was kept: up-to-date module files generated from
            # other files are found under the same URIs and are regenerated on the _template_filename mismatch
            os.makedirs(os.path.join(d, "A"))
            lkA, _ = make_lookup(T2, "moddir", os.path.join(d, "A"), mod=os.path.join(d, "mod"))
            try:
                lkA.get_template(entry).render_unicode(**ctx)
            except Boom:
                pass
            lk, names = make_lookup(T2, "moddir", d, age=100)
        elif subject["path"] == "moddir-edited":
            # an earlier version of every template (two more lines at the top) was loaded through the module directory in
            # this process, raised and had its traceback formatted; then the files were edited
            lk0, _ = make_lookup({u: "old\nold\n" + s_ for u, s_ in T2.items()}, "moddir", d, age=100)
            try:
                lk0.get_template(entry).render_unicode(**ctx)
            except Exception as e0:  # noqa: BLE001 - whatever the old version raises, format it
                try:
                    mexc.RichTraceback(error=e0, traceback=e0.__traceback__)
                    mexc.text_error_template().render_unicode(error=e0, traceback=e0.__traceback__)
                except Exception:  # noqa: BLE001
                    pass
            lk, names = make_lookup(T2, "moddir", d, age=-100)
        else:
            lk, names = make_lookup(T2, subject["path"], d)
        if subject["path"] == "moddir-reload":
            try:
                lk.get_template(entry).render_unicode(**ctx)
            except Boom:
                pass
            lk, names = make_lookup(T2, "moddir", d)  # a second lookup finds the module files already written
        try:
            lk.get_template(entry).render_unicode(**ctx)
        except Boom as e:
            tb = e.__traceback__
            try:
                rt = mexc.RichTraceback(error=e, traceback=tb)
            except Exception as e2:  # noqa: BLE001
                raise Failure(case, "RichTraceback(error=, traceback=) of the planted %s raised %s: %s\n%s" % (rkind, type(e2).__name__, e2, shown),
                              "richtraceback-raised:" + type(e2).__name__)
            raw = traceback.extract_tb(tb)
            try:
                txt = mexc.text_error_template().render_unicode(error=e, traceback=tb)
            except Exception as e2:
                txt = "ERROR-TEMPLATE-FAILED %r" % e2
            htm = None
            if case.get("html"):
                try:
                    htm = mexc.html_error_template().render_unicode(error=e, traceback=tb)
                except Exception as e2:
                    htm = "ERROR-TEMPLATE-FAILED %r" % e2
        except Exception as e:
            raise Failure(case, "planted %s raised %s instead of Boom: %s\n%s" % (rkind, type(e).__name__, str(e)[:200], shown), "wrong-exception:" + rkind)
        else:
            raise Failure(case, "planted %s did not raise\n%s" % (rkind, shown), "no-exception:" + rkind)
        fe = None
        if case.get("fmt"):
            lk2, _ = make_lookup({u.replace("/c12_", "/c12f_"): s.replace("/c12_", "/c12f_") for u, s in T2.items()}, "put_string", d, format_exceptions=True)
            try:
                fe = lk2.get_template(entry.replace("/c12_", "/c12f_")).render_unicode(**ctx)
            except Exception as e:
                raise Failure(case, "format_exceptions=True but render raised %r\n%s" % (e, shown), "format-exceptions-raised")
    want = [(names[u], l) for u, l in expected]
    srcs = {names[u]: T2[u] for u in T2}
    tframes = [(r[4], r[5], r[7]) for r in rt.records if r[4] is not None]
    tag = "\nexpected template frames (outer->inner): %r\nobserved: %r\n%s" % (want, [(f, l) for f, l, _ in tframes], shown)
    # every template frame carries one of the stack's own files and that file's source
    for f, l, src in tframes:
        if f not in srcs:
            raise Failure(case, "a template frame is attributed to %r, which is none of the templates on the stack" % (f,) + tag, "frame-foreign-file:" + subject["path"])
        if src != srcs[f]:
            raise Failure(case, "template frame of %r carries another template's source (%r...)" % (f, (src or "")[:50]) + tag, "frame-wrong-source")
    # expected frames appear in order
    it = iter([(f, l) for f, l, _ in tframes])
    for w in want:
        for got in it:
            if got == w:
                break
        else:
            which = "innermost" if w == want[-1] else "outer"
            raise Failure(case, "%s template frame %r is missing from the traceback (in order)" % (which, w) + tag,
                          "%s-frame:%s:%s" % (which, rkind if which == "innermost" else subject["shape"], subject["path"] if which != "innermost" else ""))
    # the innermost template frame is the last template frame
    if (tframes[-1][0], tframes[-1][1]) != want[-1]:
        raise Failure(case, "the last template frame is %r, expected %r" % (tframes[-1][:2], want[-1]) + tag, "innermost-not-last:" + rkind)
    # ordinary frames unchanged
    for r, rw in zip(rt.records, raw):
        if r[4] is None and (r[0], r[1], r[2]) != (rw.filename, rw.lineno, rw.name):
            raise Failure(case, "python frame changed: %r vs %r" % (r[:3], rw) + tag, "python-frame-changed")
    # the source line shown for the innermost template frame is that physical line of its template (lines end at "\n" only)
    last = [r for r in rt.records if r[4] is not None][-1]
    phys = srcs[want[-1][0]].split("\n")[want[-1][1] - 1]
    if last[6] != phys:
        raise Failure(case, "innermost template frame shows the line text %r, line %d of the template is %r" % (last[6], want[-1][1], phys) + tag,
                      "frame-line-text")
    if rt.lineno != want[-1][1] or rt.source != srcs[want[-1][0]]:
        raise Failure(case, "RichTraceback.lineno/source = %r/%r..., expected line %d of %s" % (rt.lineno, (rt.source or "")[:40], want[-1][1], want[-1][0]) + tag,
                      "richtraceback-lineno")
    needle = 'File "%s", line %d' % want[-1]
    if needle not in txt:
        raise Failure(case, "text error template lacks %r: %s" % (needle, txt[-400:]) + tag, "text-template")
    for outp, name in ((htm, "html-template"), (fe, "format-exceptions")):
        if outp is None:
            continue
        import html as _html

        plain = _html.unescape(re.sub(r"<[^>]+>", "", outp))
        fname = want[-1][0] if name == "html-template" else expected[-1][0].replace("/c12_", "/c12f_")
        if "%s, line %d" % (fname, want[-1][1]) not in plain and "%s, line %d:" % (fname, want[-1][1]) not in plain:
            raise Failure(case, "%s does not show '%s, line %d': %r" % (name, fname, want[-1][1], plain[:600]) + tag, name)
    if ev is not None:
        kinds = {kk for kk, _ in subject["prefix"]}
        nt = len({u for u, _ in expected}) >= 2 or bool(kinds & PY_BEARING)
        ev.case(key=[subject, rkind], nontrivial=nt, labels=("tb:" + rkind, "shape:" + subject["shape"], "path:" + subject["path"]))
        if nt and len(shown) < 900:
            ev.sample({"templates": T2, "fault": rkind, "path": subject["path"], "expected_frames": expected}, subject["shape"])


# ---- warnings --------------------------------------------------------------
WARNERS = ["expr-escape", "block-escape", "module-escape", "is-literal", "module-warn", "expr-literal", "block-literal", "elif-escape",
           "ns-second-attr-escape", "module-foreign-unknown"]


def warner(kind, k, tag):
    """-> (text, rel line, category name, message regex)"""
    if kind == "expr-escape":
        return 'a ${"\\%s"} b\n' % tag, 0, r"invalid escape sequence"
    if kind == "block-escape":
        return "<%\n" + "    z = 1\n" * k + '    x = "\\%s"\n%%>\n' % tag, 1 + k, r"invalid escape sequence"
    if kind == "module-escape":
        return "<%!\n" + "    z = 1\n" * k + '    x = "\\%s"\n%%>\n' % tag, 1 + k, r"invalid escape sequence"
    if kind == "expr-literal":  # (a parser warning that is not about escapes)
        return "a ${1if cs else 2} b\n", 0, r"invalid decimal literal"
    if kind == "block-literal":
        return "<%\n" + "    z = 1\n" * k + "    x = [0x1for q in (1,)]\n%>\n", 1 + k, r"invalid hexadecimal literal"
    if kind == "ns-second-attr-escape":
        return ('<%namespace name="nw1" module="os.path"/>\n' + "y\n" * k + '<%%namespace name="nw2" file="${\'\\%s\' and \'/nowhere.html\'}"/>\n' % tag,
                1 + k, r"invalid escape sequence")
    if kind == "module-foreign-unknown":
        # module-level code relays a warning of some other parser ("<unknown>" is also the name mako gives the expressions
        # it parses on their own): it is not one of those, and is shown as it was raised
        return ("<%!\n    import warnings\n    warnings.warn_explicit('planted-foreign-" + tag + "', UserWarning, '<unknown>', 7)\n%>\n", 2, r"planted-foreign-")
    if kind == "elif-escape":
        return '% if cs == "a":\nx\n' + "y\n" * k + '%% elif cs == "\\%s":\nz\n%% endif\n' % tag, 2 + k, r"invalid escape sequence"
    if kind == "is-literal":
        return "% if cs is 1:\nx\n% endif\n", 0, r'"is" with'
    if kind == "module-warn":
        return "<%!\n    import warnings\n" + "    z = 1\n" * k + "    warnings.warn('planted-%s')\n%%>\n" % tag, 2 + k, r"planted-"
    raise AssertionError(kind)


def check_warning(case, ev=None):
    from mako import exceptions as mexc
    from mako.lookup import TemplateLookup
    from mako.template import Template

    subject, wkind, action = case["subject"], case["fault"], case["action"]
    XKW.clear()
    if subject.get("nodf"):
        XKW["default_filters"] = []
    k = next(_k)
    tagc = "dqpjzwyik"[k % 9]
    pre = "".join(t for _, t in subject["prefix"])
    wtext, wline, pat = warner(wkind, subject["k"], tagc)
    src = pre + wtext + "tail\n"
    eline = pre.count("\n") + 1 + wline
    uri = "/c12w_%d.html" % k
    path = subject["path"]
    if subject.get("prefail") and path == "put_string" and k % 2:
        uri = "c12w_%d" % k  # a URI made of word characters only: it is its own module id
    with core.TempDir() as d:
        fn = os.path.join(d, "w%d.mako" % k)
        with open(fn, "wb") as fh:
            fh.write(src.encode("utf-8"))
        if path == "put_string":
            efile = uri
            go = lambda: Template(src, uri=uri, **XKW)
        elif path == "files":
            efile = fn
            go = lambda: Template(filename=fn, **XKW)
        elif path == "lookup-files":
            # compiled in memory by a lookup: the URI differs from the file name, the warning names the file
            efile = fn
            go = lambda: TemplateLookup(directories=[d], **XKW).get_template("w%d.mako" % k)
        else:
            efile = fn
            go = lambda: Template(filename=fn, module_directory=os.path.join(d, "mod"), **XKW)
            if path == "moddir-edited":
                # an older version (two more lines at the top) was compiled into the module directory by this process
                with open(fn, "wb") as fh:
                    fh.write(("old\nold\n" + src).encode("utf-8"))
                st_ = os.stat(fn)
                os.utime(fn, (st_.st_atime - 100, st_.st_mtime - 100))
                with warnings.catch_warnings(record=True):
                    warnings.simplefilter("ignore")
                    try:
                        go()
                    except Exception:
                        pass
                with open(fn, "wb") as fh:
                    fh.write(src.encode("utf-8"))
                os.utime(fn, (st_.st_atime + 100, st_.st_mtime + 100))
            if path == "moddir-relocated":
                # an up-to-date module file generated from ANOTHER file served under this uri is in place
                fn_old = os.path.join(d, "old_w%d.mako" % k)
                with open(fn_old, "wb") as fh:
                    fh.write(src.encode("utf-8"))
                st_ = os.stat(fn)
                os.utime(fn, (st_.st_atime - 100, st_.st_mtime - 100))
                go = lambda: Template(filename=fn, module_directory=os.path.join(d, "mod"), uri=uri, **XKW)
                with warnings.catch_warnings(record=True):
                    warnings.simplefilter("ignore")
                    try:
                        Template(filename=fn_old, module_directory=os.path.join(d, "mod"), uri=uri, **XKW)
                    except Exception:
                        pass
            if path == "moddir-reload":
                # the module file already exists and is up to date (a restarted application): load it once unobserved
                with warnings.catch_warnings(record=True):
                    warnings.simplefilter("ignore")
                    try:
                        go()
                    except Exception:
                        pass
        warnings.onceregistry.clear()
        err = None
        with warnings.catch_warnings(record=True) as rec:
            warnings.simplefilter(action)
            if subject.get("prefail") and path in ("put_string", "files", "lookup-files"):
                # in the same process, just before: an earlier version of this template whose module-level code raises (so it
                # is never constructed), or that does not compile; then it is repaired.  What the failed construction left
                # behind must not touch the warnings of the good one.
                broken = ['<%!\n    raise ValueError("module code of the broken version")\n%>\nbody\n', "line1\n${'unterminated\n"][subject["prefail"] % 2]
                with open(fn, "wb") as fh:
                    fh.write(broken.encode("utf-8"))
                try:
                    if path == "put_string":
                        Template(broken, uri=uri, **XKW)
                    else:
                        go()
                except Exception:  # noqa: BLE001 - the broken version fails, that is its purpose
                    pass
                with open(fn, "wb") as fh:
                    fh.write(src.encode("utf-8"))
            try:
                go()
            except (mexc.SyntaxException, mexc.CompileException) as e:
                err = e
            except Warning as e:
                err = e
            except SyntaxError as e:
                err = e
    mine = [(w.filename, w.lineno, str(w.message)) for w in rec if re.search(pat, str(w.message))]
    tag = "\n--- %s (action=%s, path=%s, expected line %d) ---\n%s\nrecorded: %r" % (efile, action, path, eline, src, [(w.filename, w.lineno, str(w.message)) for w in rec])
    if action == "error":
        if wkind in ("module-warn", "module-foreign-unknown"):
            if not isinstance(err, Warning):
                raise Failure(case, "under the error filter warnings.warn in module code should raise the warning; got %r" % (err,) + tag, "warn:error-action")
        else:
            if not isinstance(err, mexc.SyntaxException):
                raise Failure(case, "under the error filter the compile warning should raise SyntaxException; got %r" % (err,) + tag, "warn:error-action")
            if err.lineno != eline:
                raise Failure(case, "SyntaxException from the warning reports line %r, expected %d" % (err.lineno, eline) + tag, "warn:error-line")
        if mine:
            raise Failure(case, "warning both raised and shown" + tag, "warn:error-and-shown")
    else:
        if err is not None:
            raise Failure(case, "compile raised %r" % (err,) + tag, "warn:raised")
        if len(mine) != 1:
            raise Failure(case, "expected exactly one warning record, got %d" % len(mine) + tag, "warn:count:%s:%s" % (wkind, action))
        if wkind == "module-foreign-unknown":
            efile, eline = "<unknown>", 7
        if (mine[0][0], mine[0][1]) != (efile, eline):
            raise Failure(case, "warning shown at %r, expected (%r, %d)" % (mine[0][:2], efile, eline) + tag, "warn:location:%s:%s" % (wkind, path))
    if ev is not None:
        kinds = {kk for kk, _ in subject["prefix"]}
        ev.case(key=[subject["prefix"], subject["k"], path, wkind, action], nontrivial=bool(kinds & PY_BEARING), labels=("warn:" + wkind, "action:" + action, "path:" + path))


def run_subject(subject, ev, fails):
    n = ev.evaluations
    for i, rkind in enumerate(RAISERS):
        if rkind in WHOLE_TEMPLATE_RAISERS and subject["shape"] not in WHOLE_TEMPLATE_SHAPES:
            continue
        case = {"part": "tb", "subject": subject, "fault": rkind, "html": (n + i) % 6 == 0, "fmt": (n + i) % 5 == 0}
        try:
            check_traceback(case, ev)
        except Failure as f:
            fails.setdefault(f.key, f)
    for i, wkind in enumerate(WARNERS):
        action = ["always", "default", "once", "module", "error"][(n + i) % 5]
        if action == "error" and (wkind == "is-literal" or subject["path"] in ("moddir-reload", "moddir-relocated", "moddir-edited")):
            # this warning comes from the code generator of CPython, i.e. only when the whole module is compiled; what an
            # error filter does then is not covered by the statement (nothing is "shown")
            action = "always"
        case = {"part": "warn", "subject": subject, "fault": wkind, "action": action}
        try:
            check_warning(case, ev)
        except Failure as f:
            fails.setdefault(f.key, f)


def shard(task):
    seed, n = task
    core.setup_repo()
    ev = core.Evidence()
    fails = {}
    from hypothesis import strategies as st

    core.hyp_search(st.binary(min_size=40, max_size=40).map(build), lambda s: run_subject(s, ev, fails), ev, seed, n, shrink=False)
    return ev, [_minimise(f) for f in fails.values()]


def _minimise(f):
    import copy

    case = copy.deepcopy(f.case)
    key = f.key

    def fails(c):
        try:
            replay_raise(c)
        except Failure as g:
            return g if g.key == key else None
        return None

    best = f
    changed = True
    while changed:
        changed = False
        for i in range(len(case["subject"]["prefix"])):
            c = copy.deepcopy(case)
            del c["subject"]["prefix"][i]
            g = fails(c)
            if g:
                case, best, changed = c, g, True
                break
        for field in ("k", "outer_pad"):
            if case["subject"][field]:
                c = copy.deepcopy(case)
                c["subject"][field] = 0
                g = fails(c)
                if g:
                    case, best, changed = c, g, True
    return best


def replay_raise(case):
    if case["part"] == "tb":
        check_traceback(case)
    else:
        check_warning(case)


def run(ctx):
    n = ctx.pick(40, 1500)
    ctx.pmap(shard, [(ctx.shard_seed(i), n) for i in range(16)])


def replay(case):
    core.setup_repo()
    try:
        replay_raise(case)
    except Failure as f:
        return f
    return None

"""C06 - inheritance chains dispatch self/next/parent/local correctly; named blocks render once.

Domain : chains of 1..5 templates in one lookup; each level declares a random subset of defs d1..d3, named blocks
         b1..b4 (some nested), module attributes a1,a2 and a body of markers and calls self.X() / next.X() / parent.X()
         / local.X(), self.attr.a / next.attr.a, next.body(**kw) / self.body(), <%page args>; static and dynamic
         inherit targets; negative cases (duplicate block, block/def clash, named block inside def / call).
Oracle : chain model written from the statement (index 0 = most derived): self.X = first level from 0 declaring X,
         parent.X = first level >= i+1, next.X = first level >= i-1, local.X = level i; a named block tag at level i
         renders there iff no level > i declares that name, and then runs self.<name>; body(**kw) binds to the
         target's <%page> signature.
"""
import itertools

from vf import core
from vf.core import Failure

PID = "C06"
LEVEL = "exploration"
RULE = (
    "case = a chain of 1..5 generated templates (put_string lookup) + inherit style (static / ${ctx var} / ${.. or None}); "
    "members (defs, named blocks incl. nested, module attributes) declared and overridden at arbitrary levels; bodies, defs "
    "and blocks call self/next/parent/local members that the model says resolve, next.body(x=..)/self.body(); plus "
    "generated negative cases that must raise CompileException. non-trivial = chain length >=3 with a member overridden at "
    "a non-adjacent level, or a nested block overridden without its enclosing block; distinct by case fingerprint."
)
ASSUMPTIONS = [
    "block and def names never clash across the chain except in the dedicated negative cases",
    "only calls the chain model resolves are generated (an unresolvable member is an AttributeError in mako; not asserted)",
    "at most one anonymous block per line (two on one line share an internal name: observed limitation)",
]

DEFS = ["d1", "d2", "d3"]
BLOCKS = ["b1", "b2", "b3", "b4"]
ATTRS = ["a1", "a2"]
_uri = itertools.count()


class G:
    def __init__(self, data):
        self.data = data
        self.pos = 0

    def _b(self):
        if self.pos < len(self.data):
            b = self.data[self.pos]
            self.pos += 1
            return b
        return 0

    def pick(self, seq):
        seq = list(seq)
        return seq[self._b() % len(seq)]

    def chance(self, p):
        return (self._b() % 100) >= 100 - p

    def int(self, a, b):
        return a + self._b() % (b - a + 1)


DIRS = ["", "a/", "b/"]


def build(data, pfx="", maxn=5, allow_include=True):
    """-> case dict: {"levels":[level...], "pfx":..}; level = {"defs":{name:items}, "attrs":{..}, "body":items, "page":bool,
    "dir": one of DIRS, "inherit": "static"|"rel"|"dyn"|"dynrel"|"dynnone"|None}; an item ["include", subcase, m] renders
    another, independent chain through <%include>"""
    g = G(data)
    n = g.int(1, maxn)
    # declare members per level first so that calls can be generated against the model
    levels = []
    for i in range(n):
        lv = {"defs": {}, "attrs": {}, "body": [], "blocks": {}, "page": g.chance(40), "inherit": None,
              "dir": g.pick(["", "", "a/", "b/"]) if i else "", "pagekw": g.chance(35),
              # where the <%! %> block of module attributes is written: at the top level, or inside a def / block body
              # ("module-level blocks can be declared anywhere")
              "attrs_in": g.pick(["top", "top", "def", "block"])}
        for d in DEFS:
            if g.chance(45):
                lv["defs"][d] = None
        for a in ATTRS:
            if g.chance(40):
                lv["attrs"][a] = "L%d.%s" % (i, a) if g.chance(75) else g.pick([None, "", 0, False])
        levels.append(lv)
    for i in range(n - 1):
        levels[i]["inherit"] = g.pick(["static", "rel", "dyn", "static", "rel", "dynrel", "dyntmpl"])
    # a parent lives in the directory of its child or below it (string lookups do not resolve ".." segments)
    for i in range(1, n):
        levels[i]["dir"] = levels[i - 1]["dir"] + levels[i]["dir"]
    if n >= 2 and g.chance(8):
        # a dynamic target that evaluates to None cuts the chain at that level
        cut = g.int(0, n - 2)
        levels[cut]["inherit"] = "dynnone"
        del levels[cut + 1:]
        n = len(levels)
    # block placement: each level places some blocks in its body (possibly nested)
    for i in range(n):
        avail = [b for b in BLOCKS if g.chance(45)]
        levels[i]["_place"] = avail
    case = {"levels": levels, "pfx": pfx}
    decl = lambda i, name: name in levels[i]["defs"] or name in levels[i]["_place"]

    def first(lo, name):
        for j in range(max(lo, 0), n):
            if decl(j, name):
                return j
        return None

    def calls(i, exclude=(), depth=0):
        """call items valid from level i"""
        out = []
        names = [d for d in DEFS if d not in exclude]
        for name in names:
            if first(0, name) is not None:
                out.append(["call", "self", name])
            if i + 1 < n and first(i + 1, name) is not None:
                out.append(["call", "parent", name])
            if i >= 1 and first(i - 1, name) is not None:
                out.append(["call", "next", name])
            if decl(i, name):
                out.append(["call", "local", name])
        for a in ATTRS:
            def firsta(lo):
                for j in range(max(lo, 0), n):
                    if a in levels[j]["attrs"]:
                        return j
                return None
            if firsta(0) is not None:
                out.append(["attr", "self", a])
            if i + 1 < n and firsta(i + 1) is not None:
                out.append(["attr", "parent", a])
            if i >= 1 and firsta(i - 1) is not None:
                out.append(["attr", "next", a])
        return out

    cnt = itertools.count(1)

    def items(i, kind, name=None, depth=0):
        """body items for a member at level i; defs call only lower-numbered defs (no recursion)"""
        out = [["text", "(%s%d.%s:" % ("L", i, name or "body")]]
        k = g.int(0, 3)
        excl = ()
        if kind == "def":
            excl = [d for d in DEFS if d >= name]
        elif kind == "block":
            excl = ()
        for _ in range(k):
            cs = calls(i, exclude=excl)
            if cs and g.chance(70):
                out.append(g.pick(cs))
            else:
                out.append(["text", "t%d" % next(cnt)])
        # super call of the same member
        if kind in ("def", "block") and i + 1 < n and first(i + 1, name) is not None and g.chance(50):
            out.append(["call", "parent", name])
        out.append(["text", ")"])
        return out

    for i in range(n):
        lv = levels[i]
        for d in sorted(lv["defs"]):
            lv["defs"][d] = items(i, "def", d)
        body = [["text", "[L%d:" % i]]
        place = list(lv["_place"])
        # nest: with some chance put the next block inside the previous one
        def mkblock(names):
            nm = names.pop(0)
            its = items(i, "block", nm)
            if names and g.chance(40):
                its.insert(g.int(1, len(its) - 1), mkblock(names))
            return ["block", nm, its]
        while place:
            body.append(mkblock(place))
            if g.chance(50):
                body.append(["text", "t%d" % next(cnt)])
        for _ in range(g.int(0, 3)):
            cs = calls(i)
            if cs:
                body.append(g.pick(cs))
        if g.chance(20):
            body.append(["anonblock", [["text", "(anon%d)" % next(cnt)]]])
        lv["body"] = body
    # body chaining
    for i in range(n - 1, 0, -1):
        lv = levels[i]
        mode = g.pick(["next", "next", "next", "none", "self" if i == n - 1 else "next"])
        if mode == "next":
            kw = {}
            if levels[i - 1]["page"] and g.chance(60):
                kw = {"x": "v%d" % i}
            lv["body"].insert(g.int(1, len(lv["body"])), ["body", "next", kw])
        elif mode == "self":
            lv["body"].insert(g.int(1, len(lv["body"])), ["body", "self", {}])
            for j in range(0, i):
                levels[j]["body"] = [it for it in levels[j]["body"] if it[0] != "body"]
            break
        else:
            break
    for lv in levels:
        lv["body"].append(["text", "]"])
        del lv["_place"]
    if allow_include and g.chance(30):
        # another chain rendered through <%include>, preferably from a level that has a parent of its own; it uses the
        # same member names as this chain and must not see this chain's self / parent / next / local
        sub = build(bytes(data[g.pos:]) + bytes(data[:g.pos]), pfx=pfx + "s", maxn=3, allow_include=False)
        i = g.int(0, max(n - 2, 0))
        body = levels[i]["body"]
        blocks = [it for it in body if it[0] == "block"]
        if blocks and g.chance(40):
            its = blocks[0][2]
            its.insert(g.int(1, len(its) - 1), ["include", sub, 0])
        else:
            body.insert(g.int(1, len(body) - 1), ["include", sub, 0])
    return case


# ---- emission -------------------------------------------------------------
def emit_items(items):
    out = []
    for it in items:
        k = it[0]
        if k == "text":
            out.append(it[1])
        elif k == "call":
            out.append("${%s.%s()}" % (it[1], it[2]))
        elif k == "attr":
            out.append("${%s.attr.%s}" % (it[1], it[2]))
        elif k == "body":
            out.append("${%s.body(%s)}" % (it[1], ", ".join("%s=%r" % kv for kv in sorted(it[2].items()))))
        elif k == "block":
            out.append('<%%block name="%s">%s</%%block>' % (it[1], emit_items(it[2])))
        elif k == "anonblock":
            out.append("\n<%block>" + emit_items(it[1]) + "</%block>\n")
        elif k == "include":
            out.append('<%%include file="%s"/>' % _inc_uris[id(it[1])])
        elif k == "defblock":  # negative: named block inside a def
            out.append('<%%def name="bad()"><%%block name="%s">x</%%block></%%def>' % it[1])
        elif k == "defblockwrapped":  # negative: named block inside a def, below an anonymous block
            out.append('<%%def name="bad()">\n<%%block>a<%%block name="%s">x</%%block></%%block></%%def>' % it[1])
        elif k == "callblock":
            out.append('<%%call expr="d1()"><%%block name="%s">x</%%block></%%call>' % it[1])
    return "".join(out)


_inc_uris = {}  # id(subcase) -> URI of its most derived template, for the emission in progress


def rel_uri(uris, i):
    import posixpath

    return posixpath.relpath(uris[i + 1], posixpath.dirname(uris[i]))


def case_uris(case, base):
    n = len(case["levels"])
    return ["%s/%st%d.html" % (base, case["levels"][i].get("dir", ""), i) for i in range(n)] + [base + "/none.html"]


def sub_cases(case):
    """-> [(subcase, m)] of the include items of this chain"""
    out = []

    def walk(items):
        for it in items:
            if it[0] == "include":
                out.append((it[1], it[2]))
            elif it[0] == "block":
                walk(it[2])
            elif it[0] == "anonblock":
                walk(it[1])

    for lv in case["levels"]:
        walk(lv["body"])
        for its in lv["defs"].values():
            walk(its or [])
    return out


def emit_level(case, i, uris):
    lv = case["levels"][i]
    src = []
    inh = lv.get("inherit")
    pfx = case.get("pfx", "")
    if inh == "static":
        src.append('<%%inherit file="%s"/>' % uris[i + 1])
    elif inh == "rel":
        src.append('<%%inherit file="%s"/>' % rel_uri(uris, i))
    elif inh in ("dyn", "dynrel"):
        src.append('<%%inherit file="${context[\'%sdyn%d\']}"/>' % (pfx, i))
    elif inh == "dyntmpl":
        # the expression names its parent through `template`: the template the tag is written in
        # (normalised: a template reached through a relative reference carries the joined, not the normalised, URI)
        src.append('<%%inherit file="${context[\'%sparents\'][__import__(\'posixpath\').normpath(template.uri)]}"/>' % pfx)
    elif inh == "dynnone":
        src.append('<%inherit file="${context.get(\'dynnone\') or None}"/>')
    if lv["page"]:
        # (optionally with a catch-all of its own: named blocks are handed the extra page arguments whatever it is called)
        src.append("<%%page args=\"x='dx'%s\"/>" % (", **pkw" if lv.get("pagekw") else ""))
    modblock = ""
    if lv["attrs"]:
        modblock = "<%!\n" + "".join("    %s = %r\n" % kv for kv in sorted(lv["attrs"].items())) + "%>"
    where = lv.get("attrs_in", "top")
    if modblock and (where == "top" or (where == "def" and not lv["defs"])):
        src.append(modblock)
        modblock = ""
    for k, d in enumerate(sorted(lv["defs"])):
        inner = emit_items(lv["defs"][d])
        if modblock and where == "def" and k == 0:
            inner, modblock = modblock + inner, ""
        src.append('<%%def name="%s()">%s</%%def>' % (d, inner))
    body = emit_items(lv["body"])
    if modblock:
        # inside an anonymous block at the very end of the body (it writes nothing)
        body += "<%block>" + modblock + "</%block>"
    if lv["page"]:
        body = body.replace("[L%d:" % i, "[L%d:x=${x}:" % i, 1)
    src.append(body)
    return "".join(src)


# ---- chain model ----------------------------------------------------------
class Model:
    def __init__(self, case):
        self.levels = case["levels"]
        self.n = len(self.levels)
        self.blocks = []  # per level: name -> items
        for lv in self.levels:
            d = {}
            self._collect(lv["body"], d)
            for its in lv["defs"].values():
                self._collect(its, d)
            self.blocks.append(d)
        self.out = []
        self.steps = 0

    def _collect(self, items, d):
        for it in items:
            if it[0] == "block":
                d[it[1]] = it[2]
                self._collect(it[2], d)

    def member(self, j, name):
        lv = self.levels[j]
        if name in lv["defs"]:
            return lv["defs"][name]
        return self.blocks[j].get(name)

    def first(self, lo, name):
        for j in range(max(lo, 0), self.n):
            if self.member(j, name) is not None:
                return j
        return None

    def firsta(self, lo, name):
        for j in range(max(lo, 0), self.n):
            if name in self.levels[j]["attrs"]:
                return j
        return None

    def start(self, via, i):
        return {"self": 0, "parent": i + 1, "next": i - 1, "local": i}[via]

    def run(self, items, i, xval=None):
        self.steps += 1
        if self.steps > 5000:
            raise RuntimeError("model step limit")
        for it in items:
            k = it[0]
            if k == "text":
                self.out.append(it[1])
            elif k == "call":
                j = self.first(self.start(it[1], i), it[2])
                self.run(self.member(j, it[2]), j)
            elif k == "attr":
                j = self.firsta(self.start(it[1], i), it[2])
                self.out.append(str(self.levels[j]["attrs"][it[2]]))
            elif k == "body":
                j = self.start(it[1], i)
                self.body(j, it[2].get("x"))
            elif k == "block":
                if self.first(i + 1, it[1]) is None:
                    j = self.first(0, it[1])
                    self.run(self.member(j, it[1]), j)
            elif k == "anonblock":
                self.out.append("\n")
                self.run(it[1], i)
                self.out.append("\n")
            elif k == "include":
                self.out.append(Model(it[1]).render())  # a chain of its own: nothing of the includer's chain leaks in

    def body(self, j, x=None):
        lv = self.levels[j]
        items = lv["body"]
        if lv["page"]:
            head = "[L%d:" % j
            assert items[0] == ["text", head]
            self.out.append("[L%d:x=%s:" % (j, x if x is not None else "dx"))
            self.run(items[1:], j)
        else:
            self.run(items, j)

    def render(self):
        self.body(self.n - 1)
        return "".join(self.out)


def features(case):
    n = len(case["levels"])
    m = Model(case)
    nonadj = False
    for name in DEFS + BLOCKS:
        lv = [j for j in range(n) if m.member(j, name) is not None]
        if len(lv) >= 2 and any(b - a >= 2 for a, b in zip(lv, lv[1:])):
            nonadj = True
    nested_override = False
    for j in range(n):
        for name, its in m.blocks[j].items():
            inner = [it[1] for it in its if it[0] == "block"]
            for inn in inner:
                for k in range(0, j):
                    if inn in m.blocks[k] and name not in m.blocks[k]:
                        nested_override = True
    return {"n": n, "nonadj": nonadj, "nested_override": nested_override,
            "dyn": any(lv.get("inherit") in ("dyn", "dynrel", "dynnone", "dyntmpl") for lv in case["levels"]),
            "rel": any(lv.get("inherit") in ("rel", "dynrel") and case["levels"][j].get("dir") != case["levels"][j + 1].get("dir")
                       for j, lv in enumerate(case["levels"][:-1])),
            "include": bool(sub_cases(case))}


def check_case(case, ev=None):
    from mako import exceptions as mexc
    from mako.lookup import TemplateLookup

    n = len(case["levels"])
    k = next(_uri)
    lookup = TemplateLookup()
    neg = case.get("negative")
    ctx = {"dynnone": None}
    plan = []  # (uri, source) of every template of the chain and of the chains it includes

    def lay(c, base):
        us = case_uris(c, base)
        for m, (sub, _) in enumerate(sub_cases(c)):
            _inc_uris[id(sub)] = lay(sub, "%s/inc%d" % (base, m))[0]
        lv = c["levels"]
        for i in range(len(lv)):
            plan.append((us[i], emit_level(c, i, us)))
            if i >= 1:
                # same file name in the other directories: a relative inherit resolved against the wrong template lands here
                for dname in sorted({l.get("dir", "") for l in lv} | {""}):
                    if dname != lv[i].get("dir", ""):
                        plan.append(("%s/%st%d.html" % (base, dname, i), "DECOY(%s%d)" % (dname, i)))
        for i in range(len(lv) - 1):
            ctx["%sdyn%d" % (c.get("pfx", ""), i)] = rel_uri(us, i) if lv[i].get("inherit") == "dynrel" else us[i + 1]
        ctx["%sparents" % c.get("pfx", "")] = {us[i]: us[i + 1] for i in range(len(lv) - 1)}
        return us

    _inc_uris.clear()
    uris = lay(case, "/c06_%d" % k)
    srcs = [src for u, src in plan if u in uris[:n]]
    try:
        for i, (u, src) in enumerate(plan):
            lookup.put_string(u, src)
    except mexc.CompileException as e:
        if neg:
            if ev is not None:
                ev.case(key=case, nontrivial=False, labels=("negative:" + neg,))
            return
        raise Failure(case, "template %s does not compile: %s\n%s" % (plan[i][0], e, plan[i][1]), "compile")
    shown = "\n".join("--- %s ---\n%s" % (u, src) for u, src in plan if not src.startswith("DECOY("))
    if neg:
        try:
            lookup.get_template(uris[0]).render_unicode(**ctx)
        except mexc.CompileException:
            if ev is not None:
                ev.case(key=case, nontrivial=False, labels=("negative:" + neg,))
            return
        except Exception as e:
            raise Failure(case, "negative case %s raised %s instead of CompileException\n%s" % (neg, type(e).__name__, shown), "negative:wrong-exception:" + neg)
        raise Failure(case, "negative case %s compiled and rendered\n%s" % (neg, shown), "negative:accepted:" + neg)
    exp = Model(case).render()
    try:
        out = lookup.get_template(uris[0]).render_unicode(**ctx)
    except Exception as e:
        raise Failure(case, "model renders %r but mako raised %s: %s\n%s" % (exp, type(e).__name__, str(e)[:200], shown), "raised:" + type(e).__name__)
    if out != exp:
        raise Failure(case, "mako rendered %r, chain model %r\n%s" % (out, exp, shown), "output-differs")
    # one Template object, another parent: a level that names its parent by an expression is rendered again with a
    # different base-most template (declaring every member name), then once more with the original one
    dyn_levels = [j for j, lv in enumerate(case["levels"][:-1]) if lv.get("inherit") in ("dyn", "dynrel")]
    if dyn_levels:
        import copy
        import posixpath

        j = dyn_levels[0]
        lv = case["levels"]
        altbase = {"defs": {d: [["text", "(ALT.%s)" % d]] for d in DEFS}, "attrs": {a: "ALT.%s" % a for a in ATTRS},
                   "body": [["text", "[ALT:"]] + [["block", b, [["text", "(ALT.%s)" % b]]] for b in BLOCKS] + [["body", "next", {}], ["text", "]"]],
                   "page": False, "inherit": None, "dir": lv[j + 1].get("dir", "")}
        alt = copy.deepcopy(case)
        alt["levels"] = alt["levels"][:j + 1] + [altbase]
        alt_uri = "%s/%salt%d.html" % ("/c06_%d" % k, altbase["dir"], j)
        lookup.put_string(alt_uri, emit_level(alt, j + 1, uris[:j + 1] + [alt_uri, uris[-1]]))
        ctx2 = dict(ctx)
        key = "%sdyn%d" % (case.get("pfx", ""), j)
        ctx2[key] = posixpath.relpath(alt_uri, posixpath.dirname(uris[j])) if lv[j]["inherit"] == "dynrel" else alt_uri
        exp2 = Model(alt).render()
        for which, c_, e_ in (("another parent", ctx2, exp2), ("the first parent again", ctx, exp)):
            try:
                out2 = lookup.get_template(uris[0]).render_unicode(**c_)
            except Exception as e:
                raise Failure(case, "re-rendered with %s (level %d inherits ${..}): model %r, mako raised %s: %s\n%s"
                              % (which, j, e_, type(e).__name__, str(e)[:200], shown), "dynamic-parent-rerender:raised")
            if out2 != e_:
                raise Failure(case, "re-rendered with %s (level %d inherits ${..} = %r): mako %r, chain model %r\n%s"
                              % (which, j, c_[key], out2, e_, shown), "dynamic-parent-rerender")
    if ev is not None:
        f = features(case)
        nt = (f["n"] >= 3 and f["nonadj"]) or f["nested_override"]
        ev.case(key=case, nontrivial=nt, labels=["n:%d" % f["n"]] + [x for x in ("nonadj", "nested_override", "dyn", "rel", "include") if f[x]])
        if nt and len(shown) < 1200:
            ev.sample({"templates": srcs, "expected": exp}, "chain")


def negatives(case, g):
    """derive a negative case from a positive one"""
    import copy

    c = copy.deepcopy(case)
    lv = c["levels"][0]
    kind = g.pick(["dup-block", "block-def-clash", "block-in-def", "block-in-call", "block-in-def-wrapped"])
    if kind == "dup-block":
        lv["body"].insert(1, ["block", "zz", [["text", "1"]]])
        lv["body"].insert(1, ["block", "zz", [["text", "2"]]])
    elif kind == "block-def-clash":
        lv["defs"]["d1"] = [["text", "x"]]
        lv["body"].insert(1, ["block", "d1", [["text", "1"]]])
    elif kind == "block-in-def":
        lv["body"].insert(1, ["defblock", "zq"])
    elif kind == "block-in-def-wrapped":
        lv["body"].insert(1, ["defblockwrapped", "zq"])
    else:
        lv["defs"]["d1"] = [["text", "x"]]
        lv["body"].insert(1, ["callblock", "zq"])
    c["negative"] = kind
    return c


def strategy():
    from hypothesis import strategies as st

    return st.binary(min_size=400, max_size=400).map(build)


def shard(task):
    seed, n = task
    core.setup_repo()
    ev = core.Evidence()

    def check(case):
        check_case(case, ev)
        if core.fp(case) % 10 == 0:
            check_case(negatives(case, G(bytes([core.fp(case) % 251] * 8))), ev)

    fails, known = core.hyp_search(strategy(), check, ev, seed, n, shrink=True, shrink_budget=15.0)
    return ev, fails


def run(ctx):
    n = ctx.pick(800, 6000)
    ctx.pmap(shard, [(ctx.shard_seed(i), n) for i in range(16)])


def replay(case):
    core.setup_repo()
    try:
        check_case(case)
    except Failure as f:
        return f
    return None

"""C19 - embedded Python keeps its meaning through analysis and re-emission.

Part 1 (expr)   expressions from vf.gen.pygram re-emitted by mako (ExpressionGenerator / FunctionDecl /
                ArgumentList, the entry points codegen uses) must parse to the same AST as written, and the
                value observed through a rendered template (def / block / page argument default, filter-call
                argument) must equal native eval(src, env).
Part 2 (block)  statement blocks in <% %>: symtable gives the names the block reads without binding; under
                strict_undefined with exactly those names in the context no NameError, with one removed a
                NameError naming it; final values equal native exec.
Part 3 (margin) blocks with nasty string literals / continuations at margins 0..12 of spaces and tabs in
                <% %> and <%! %>: values equal what CPython computes for the block as written.

Every root cause already confirmed on the unchanged tree has a FINDINGS entry: a dedicated probe list that
exercises exactly that construct (reported on every run under its own key), and a generator flag that keeps the
construct out of the main ("behind the finding") campaign while the probes fail.  A probe list that passes
(the defect was fixed) re-enables the construct in the main campaign automatically.
"""
import ast
import itertools
import os
import re
import symtable
import warnings

from vf import core
from vf.core import Failure
from vf.gen import pygram

PID = "C19"
LEVEL = "exploration"
RULE = (
    "(1) typed random CPython ast expressions (depth<=5, printed by ast.unparse) with an environment of values for "
    "their free names, placed as top-level/nested def default, keyword-only default, block arg default, page arg "
    "default and filter-call argument (expression, def, text filters); non-trivial = the AST contains a construct whose "
    "printing needs care (IfExp/Lambda as operand or callee, **, unary under **, comparison chain, mixed "
    "binary/boolean operators, starred/double-starred arguments or displays, f-string, walrus, slices with step or "
    "tuple slices, multi-clause comprehensions, lambda with non-plain parameters); distinct by (source text, position). "
    "(2) typed random statement blocks (assignment forms, augmented assignment, for/while/if/try/with, imports, del, "
    "functions with every parameter kind, nested functions, lambdas, comprehensions); non-trivial = a parameter kind "
    "other than plain positional, or a comprehension/lambda inside a function, or a nested function; distinct by source. "
    "(3) text-level blocks of assignments of single/triple-quoted literals with quotes # backslashes newlines, backslash "
    "and bracket continuations, nested if/for/def bodies, at margins 0..12 of spaces/tabs/both in <% %> and <%! %>; "
    "non-trivial = a multi-line string or continuation at margin>0; distinct by (block text, margin, tag)."
)
ASSUMPTIONS = [
    "CPython's parser, ast.unparse, symtable and eval/exec are the trusted reference",
    "free names of a default of a top-level def / named block / <%page> are evaluated at module level (defs are exported "
    "module functions), so their environment is supplied by a <%! %> block; nested defs and filter arguments take it from "
    "the render context",
    "part 3 reference = CPython executing the block exactly as written under 'if 1:' (string-literal content lines keep "
    "whatever indentation they were written with); when content lines carry no margin this equals exec of the "
    "textwrap.dedent-ed block",
    "removing a name the block reads must give NameError under strict_undefined even if the reading statement is not "
    "reached (docs: 'any non-present variables raise an immediate NameError')",
    "classes, decorators, annotations, global, await/yield, match, Ellipsis, inf/nan are not generated",
    "expressions whose f-strings reuse the enclosing quote character inside a replacement field (Python 3.12-only syntax) "
    "are checked for re-emission but not placed in templates: finding the end of ${...} around them is the lexer's concern",
    "test_ast.py::test_locate_identifiers_9 pins that a comprehension variable at the top level of a block counts as "
    "assigned by the block (Python 2 semantics): a block that also reads a free variable of that name is not generated; "
    "inside functions nothing is pinned and CPython's scoping is demanded",
]

# ---------------------------------------------------------------------------------------------------------
# findings already confirmed on the unchanged tree: id -> generator flags it switches off, probes
# ---------------------------------------------------------------------------------------------------------
E = {"ia": 3, "ib": 5, "ic": -2, "sa": "x'y", "sb": "q", "la": [4, 5, 6], "lb": [7, 8, 9], "da": {"a": 1, "b": 2},
     "ba": True, "ga": "@Echo", "ma": ["@Mat", 1], "mb": ["@Mat", 2], "x": 4, "n": 6, "h": 8, "u": 9}

SQ3, DQ3 = "'" * 3, '"' * 3

FINDINGS = {
    # ---- ExpressionGenerator / SourceGenerator (mako/_ast_util.py) --------------------------------------
    "C19-binop-symbols-missing": dict(flags=["pow", "matmul"], expr=[
        "ia ** 2", "2 ** ib", "-ia ** 2", "(-ia) ** 2", "ma @ mb"]),
    "C19-ifexp-unparenthesised": dict(flags=["ifexp_tight"], expr=[
        "(1 if ba else 2) + 3", "(ia if ba else ib) * 2", "(la if ba else lb)[0]", "(sa if ba else sb).upper()",
        "(ia if ba else ib) if ib else ic", "[c1 for c1 in (la if ba else lb)]", "-(ia if ba else ib)",
        "(fid if ba else fadd)(3)", "(1 if ba else 2) < 3", "[*(la if ba else lb), 0]"]),
    "C19-lambda-unparenthesised": dict(flags=["lambda_tight"], expr=[
        "(lambda: 1)()", "(lambda p1: p1 + 1)(ia)", "fcall((lambda: 1) or fid)",
        "fcall((lambda: 1) if ba else (lambda: 2))", "(lambda: 1).__name__"]),
    "C19-lambda-signature": dict(flags=["lambda_kwonly", "lambda_posonly"], expr=[
        "fcall(lambda *, p1=1: 7)", "fcall(lambda *r1, p1: 7, p1=3)", "fcall(lambda p1, /, p2=2: p2, 1)",
        "fcall(lambda p1, *r1, p2=4, **k1: p1, 1, 2, a=3)"]),
    "C19-fstring": dict(flags=["fstring"], expr=["f'{ia}'", "f'a{sa!r}b'", "f'{ia:>{ib}}'", "f'{ia:04d}'"]),
    "C19-walrus": dict(flags=["walrus"], expr=["(w1 := ia)", "[(w1 := ia), 2]"]),
    "C19-dict-unpack": dict(flags=["dict_unpack"], expr=["{**da}", "{'a': 1, **da}", "{**da, 'z': ia}"]),
    "C19-call-double-star": dict(flags=["call_dstar"], expr=["fpick(**da)", "dict(**da)", "fpick(1, ka=2, **da)"]),
    "C19-attr-on-int-literal": dict(flags=["attr_on_int"], expr=["(1).real", "(7).bit_length()", "(10).imag"]),
    "C19-tuple-slice": dict(flags=["tuple_slice"], expr=["ga[1:2, 3]", "ga[::2, ia]", "ga[ia, 1:]"]),
    # ---- re-margining (mako/pygen.py) ------------------------------------------------------------------
    "C19-adjust-whitespace-literal-scan": dict(
        flags=["m_hash_then_triple", "m_phantom_triple", "m_escaped_quote_run"],
        margin=[("v1 = '#' + " + DQ3 + "a\n~b" + DQ3 + "\nv2 = 1", ["v1", "v2"], ["    ", "\t"], ["<%!"], ["margined"]),
                ("v1 = '" + DQ3 + "'\nv2 = 1", ["v1", "v2"], ["    ", " \t  "], ["<%!"], ["raw"]),
                ("v1 = " + DQ3 + "a\\" + DQ3 + "b" + DQ3 + "\nv2 = 1", ["v1", "v2"], ["  "], ["<%!"], ["raw"])]),
    "C19-printer-triple-quote-count": dict(
        flags=["m_mixed_triple_line", "m_phantom_triple", "m_escaped_quote_run"],
        margin=[("v1 = " + SQ3 + "a" + DQ3 + "b" + SQ3 + "\nv2 = 1", ["v1", "v2"], [""], ["<%"], ["raw"]),
                ("v1 = " + SQ3 + "a" + DQ3 + "\n~b" + SQ3 + "\nv2 = 1", ["v1", "v2"], [""], ["<%"], ["raw"]),
                ("v1 = '" + DQ3 + "'\nv2 = 1", ["v1", "v2"], [""], ["<%"], ["raw"])]),
    "C19-expandtabs-alters-literals": dict(
        flags=["m_raw_tab"],
        margin=[("v1 = 'a\tb'", ["v1"], ["", "  "], ["<%", "<%!"], ["raw"]),
                ("if True:\n    v1 = " + DQ3 + "x\ty" + DQ3, ["v1"], ["", "\t"], ["<%"], ["raw"])]),
    # ---- which names are fetched from the context (mako/pyparser.py FindIdentifiers, parsetree, codegen) -------
    "C19-function-params": dict(
        flags=["fn_param_kinds"], expr_positions=["filter-arg", "filter-kwarg"],
        expr=["fcall(lambda *r1: r1, 1)", "fcall(lambda **k1: k1, a=1)"],
        block=["def g1(*r1):\n    return r1\nv1 = g1(1, 2)", "def g1(p1, *, p2=3):\n    return p1 + p2\nv1 = g1(1)",
               "def g1(**k1):\n    return k1\nv1 = g1(a=1)", "def g1(p1, /, p2):\n    return p1 - p2\nv1 = g1(5, 3)",
               "v1 = (lambda *r1, p2=1, **k1: (r1, p2, k1))(7)"]),
    "C19-function-default-names": dict(
        flags=["fn_default_free"], expr_positions=["filter-arg", "filter-kwarg"],
        expr=["fcall(lambda p1=ia: p1)", "fcall(lambda p1=ib + 1, *r1: p1)",
              # the x=x idiom: the default is read in the enclosing scope, before the parameter of that name exists
              "fcall(lambda ia=ia: ia)", "fcall(lambda *, ib=ib + 1: ib)"],
        block=["def g1(p1=ia):\n    return p1\nv1 = g1()", "v1 = (lambda p1=ia + 1: p1)()",
               "def g1(ia=ia):\n    return ia\nv1 = g1()", "def g1(p1, *, ib=ib):\n    return p1 + ib\nv1 = g1(1)",
               "v1 = (lambda sa=sa: sa)()", "def g1(p1):\n    def g2(p1=ia, ia=ib):\n        return p1 + ia\n    return g2()\nv1 = g1(0)"]),
    "C19-comprehension-in-function-names": dict(
        flags=["fn_comp_free"], expr_positions=["filter-arg", "filter-kwarg"],
        expr=["fcall(lambda: [ia for c1 in (1, 2)])", "fcall(lambda: [c1 for c1 in (1, 2) if ba])",
              "fcall(lambda: {sa: ib for c1 in (1,)})"],
        block=["def g1():\n    return [fid(c1) for c1 in la]\nv1 = g1()",
               "def g1():\n    return [c1 for c1 in la if c1 > ia]\nv1 = g1()",
               "def g1():\n    return {sa: ib for c1 in la}\nv1 = g1()"]),
    "C19-function-local-bound-later": dict(
        flags=["fn_late_local"],
        block=["def g1():\n    def g2():\n        return v2\n    v2 = 5\n    return g2()\nv1 = g1()",
               # the binding that makes the name local may sit in any statement of the function body
               "def g1():\n    def g2():\n        return v2\n    try:\n        v3 = la[99]\n    except Exception:\n        v2 = 7\n    return g2()\nv1 = g1()",
               "def g1():\n    def g2():\n        return v2\n    for v2 in la:\n        pass\n    return g2()\nv1 = g1()",
               "def g1():\n    def g2():\n        return os.sep\n    import os\n    return g2()\nv1 = g1()",
               "def g1():\n    def g2():\n        return str(v2)\n    try:\n        raise ValueError(1)\n    except ValueError as v2:\n        return g2()\nv1 = g1()",
               "def g1():\n    v3 = []\n    for i1 in la:\n        if v3:\n            v3.append(v2)\n        try:\n            v3.append(i1 // 0)\n"
               "        except ZeroDivisionError:\n            v2 = i1\n            v3.append(0)\n    return v3\nv1 = g1()",
               "def g1():\n    def g2():\n        return v2 + len(os.sep)\n    try:\n        raise ValueError(1)\n    except ValueError:\n"
               "        for v2 in la:\n            pass\n        import os\n    return g2()\nv1 = g1()",
               "def g1():\n    def g2():\n        return g3()\n    def g3():\n        return 4\n    return g2()\nv1 = g1()",
               "def g1():\n    def g2():\n        return v2 + v3[0]\n    v2, *v3 = la\n    return g2()\nv1 = g1()",
               "def g1():\n    def g2():\n        return v2\n    if ia > 10 ** 9:\n        pass\n    else:\n        v2 = 3\n    return g2()\nv1 = g1()",
               "def g1():\n    def g2():\n        return v2\n    try:\n        pass\n    finally:\n        v2 = 9\n    return g2()\nv1 = g1()",
               "def g1():\n    def g2():\n        return v2\n    while True:\n        v2 = 1\n        break\n    return g2()\nv1 = g1()"]),
    "C19-comprehension-var-leaks": dict(
        flags=["comp_var_reuse"],
        block=["def g1():\n    v3 = [ia for ia in la]\n    return ia\nv1 = g1()",
               "def g1():\n    v3 = {ib: 1 for ib in la}\n    return ib + 1\nv1 = g1()"]),
    "C19-strict-lookup-shadowed-keyerror": dict(
        flags=["keyerror_name"],
        block=["try:\n    v1 = da['zz']\nexcept KeyError:\n    v1 = ia", "v1 = ia\nv2 = KeyError"]),
    "C19-comprehension-var-in-args": dict(
        flags=["comp_strict"], expr_positions=["filter-arg", "def-filter-arg", "text-filter-arg"],
        expr=["[c1 for c1 in (1, 2)]", "sum(c1 for c1 in la)", "{c1: c2 for c1, c2 in da.items()}"]),
    "C19-filter-arg-escape-name": dict(flags=["escape_names"], expr_positions=["filter-arg", "filter-kwarg"],
                                       expr=["x + 1", "fid(n)", "[h, u]"]),
    "C19-default-before-lookup": dict(flags=["default_hoist"], expr_positions=["def-default", "nested-def-default", "block-arg"],
                                      expr=["len(str(abs(ord('a'))))", "sorted(list(range(3)))", "min(max(1, 2), sum([3]))"]),
    "C19-kwonly-default-names": dict(flags=["pos:nested-kwonly-default"], expr_positions=["nested-kwonly-default"],
                                     expr=["ia + 1", "fid(sa)"]),
}
FEATURE_TO_ID = {fl: fid_ for fid_, f in FINDINGS.items() for fl in f["flags"]}

MAKO_RESERVED = pygram.FORBIDDEN


class Unsupported(Exception):
    """the case cannot be written in this position (quoting) - counted as rejected"""


# ---------------------------------------------------------------------------------------------------------
# part 1: expressions
# ---------------------------------------------------------------------------------------------------------
_uri_counter = itertools.count()


def _uri(tag):
    return "/c19_%d_%s_%d.html" % (os.getpid(), tag, next(_uri_counter))


def _dump(tree):
    return ast.dump(tree, annotate_fields=True, include_attributes=False)


def native_eval(src, envspec):
    env = pygram.build_env(envspec)
    try:
        v = eval(compile(src, "<native>", "eval"), env)
        return ("ok", pygram.canon(v))
    except Exception as e:  # noqa: BLE001 - the exception type is the observation
        return ("exc", type(e).__name__)


def regen_checks(src):
    """Re-emit `src` through the three entry points codegen uses; raise Failure-like tuples.

    -> list of (route, kind, detail) problems; empty when every route reproduces the AST of src."""
    from mako import ast as mast
    from mako import pyparser

    kw = {"source": "", "lineno": 0, "pos": 0, "filename": ""}
    problems = []
    want = _dump(ast.parse(src, mode="eval"))

    def cmp(route, text, ref_src, mode):
        try:
            got = _dump(ast.parse(text, mode=mode))
        except SyntaxError as e:
            problems.append((route, "regen-unparsable", "re-emitted %r is not valid Python (%s)" % (text, e.msg)))
            return
        ref = want if ref_src is None else _dump(ast.parse(ref_src, mode=mode))
        if got != ref:
            problems.append((route, "regen-ast-differs", "re-emitted %r has a different AST" % (text,)))

    # (a) ExpressionGenerator over the parsed text, as test_ast.py uses it
    try:
        text = pyparser.ExpressionGenerator(pyparser.parse(src, "exec", **kw)).value()
    except Exception as e:  # noqa: BLE001
        problems.append(("ExpressionGenerator", "regen-raised:" + type(e).__name__, "%s: %s" % (type(e).__name__, e)))
    else:
        cmp("ExpressionGenerator", text, None, "eval")
    # (a') the same expression again after its "sibling" was re-emitted in this process: the expression the hand-written
    # generator's text for src actually denotes (conditional expressions, lambdas and operands written without the
    # parentheses they need).  Both must come out right in this order too: re-emission has no memory.
    try:
        from mako import _ast_util

        g = _ast_util.SourceGenerator(" " * 4)
        g.visit(pyparser.parse(src, "exec", **kw))
        legacy = "".join(g.result)
        sib = ast.parse(legacy, mode="eval")
    except Exception:  # noqa: BLE001 - no sibling (the hand-written generator cannot print src, or prints invalid text)
        sib = None
    if sib is not None and _dump(sib) != want:
        sib_src = ast.unparse(sib)
        try:
            t1 = pyparser.ExpressionGenerator(pyparser.parse(sib_src, "exec", **kw)).value()
            t2 = pyparser.ExpressionGenerator(pyparser.parse(src, "exec", **kw)).value()
        except Exception as e:  # noqa: BLE001
            problems.append(("ExpressionGenerator-after-sibling", "regen-raised:" + type(e).__name__, "%s: %s" % (type(e).__name__, e)))
        else:
            cmp("ExpressionGenerator-sibling %r" % sib_src, t1, sib_src, "eval")
            cmp("ExpressionGenerator-after-sibling %r" % sib_src, t2, None, "eval")
    # (b) FunctionDecl.get_argument_expressions: positional and keyword-only defaults
    # (keyword-only parameters with and without defaults in every order: the defaults stay with their parameters)
    for decl in ("def f(a=%s, b=1, *r, k=%s, j=2, **w):pass" % (src, src),
                 "def f(x, *r, k=%s, m, j=2, n, **w):pass" % src,
                 "def f(*r, m, k=%s, n):pass" % src,  # (a bare * instead of *r: known finding, see check_signatures)
                 "def f(x, y=0, *r, m, n, k=%s):pass" % src):
        try:
            parts = mast.FunctionDecl(decl, **kw).get_argument_expressions()
        except Exception as e:  # noqa: BLE001
            problems.append(("FunctionDecl", "regen-raised:" + type(e).__name__, "%s: %s" % (type(e).__name__, e)))
        else:
            cmp("FunctionDecl", "def f(%s):pass" % ",".join(parts), decl, "exec")
    # (c) ArgumentList (filter calls): positional and keyword argument of a call
    call = "fecho(%s, kw=%s)" % (src, src)
    try:
        args = mast.ArgumentList(call, **kw).args
    except Exception as e:  # noqa: BLE001
        problems.append(("ArgumentList", "regen-raised:" + type(e).__name__, "%s: %s" % (type(e).__name__, e)))
    else:
        if len(args) != 1:
            problems.append(("ArgumentList", "regen-arg-count", "ArgumentList(%r).args = %r" % (call, args)))
        else:
            cmp("ArgumentList", args[0], call, "eval")
    return problems


def _free(table, top):
    out = set()
    for sym in table.get_symbols():
        if top:
            if sym.is_referenced() and not sym.is_assigned() and not sym.is_imported() and not sym.is_parameter():
                out.add(sym.get_name())
        elif sym.is_global():
            out.add(sym.get_name())
    for ch in table.get_children():
        out |= _free(ch, False)
    return out


def free_names_expr(src):
    """names an expression reads without binding them (CPython's own scope analysis)"""
    return _free(symtable.symtable(src, "<expr>", "eval"), True)


def free_names_block(block):
    """names the block reads without binding when it is the body of a function"""
    code = "def __f():\n" + "".join("    " + ln + "\n" for ln in block.split("\n"))
    top = symtable.symtable(code, "<block>", "exec")
    return _free(top.get_children()[0], False)


BUILTIN_NAMES = set(dir(__import__("builtins")))


def hoisted_names(position, src, envspec):
    """names of src that the generated render function fetches from the context (render-time lookups)"""
    free = free_names_expr(src)
    if position in MODULE_ENV:
        return free - set(envspec) - set(pygram.HELPERS)
    return free


def _quote_attr(text):
    if '"' not in text:
        return '"%s"' % text
    if "'" not in text:
        return "'%s'" % text
    raise Unsupported("both quote kinds in an attribute value")


def _module_env_block(names):
    lines = ["<%!", "from vf.gen.pygram import CUR as e_"]
    for nm in sorted(names):
        lines.append("%s = e_[%r]" % (nm, nm))
    lines.append("%>")
    return "\n".join(lines) + "\n"


POSITIONS = ["def-default", "def-kwonly-default", "nested-def-default", "nested-kwonly-default", "block-arg", "page-arg",
             "filter-arg", "filter-kwarg", "def-filter-arg", "text-filter-arg"]
MODULE_ENV = {"def-default", "def-kwonly-default", "block-arg", "page-arg"}


def reuses_quote_inside_fstring(src):
    """True if an f-string of src contains, in a replacement field, a literal delimited by the quote character of an
    enclosing f-string (legal since Python 3.12 only, printed that way by ast.unparse when it runs out of quote kinds)."""
    import io
    import tokenize

    if "f'" not in src and 'f"' not in src:
        return False
    stack = []
    for tok in tokenize.generate_tokens(io.StringIO(src + "\n").readline):
        name = tokenize.tok_name[tok.type]
        if name in ("FSTRING_START", "STRING"):
            q = tok.string.lstrip("rRbBuUfF")[:1]
            if q in stack:
                return True
            if name == "STRING" and any(qq in tok.string for qq in stack):
                return True  # the enclosing quote character inside a nested literal: equally 3.12-only
            if name == "FSTRING_START":
                stack.append(q)
        elif name == "FSTRING_END":
            stack.pop()
    return False


def template_for(position, src, names):
    """-> (template text, 'module' | 'context')"""
    if "$" in src or "%>" in src or "</%" in src:
        raise Unsupported("characters with a template-level meaning")
    if reuses_quote_inside_fstring(src):
        # delimiting ${...} / attribute values around such text is the lexer's business (C01), not re-emission
        raise Unsupported("Python 3.12-only quote reuse inside an f-string")
    if position == "def-default":
        return _module_env_block(names) + "<%%def name=%s>${rec_(a)}</%%def>${f()}" % _quote_attr("f(a=%s)" % src)
    if position == "def-kwonly-default":
        return _module_env_block(names) + "<%%def name=%s>${rec_(a)}</%%def>${f()}" % _quote_attr("f(*r, a=%s)" % src)
    if position == "nested-def-default":
        return '<%%def name="o()"><%%def name=%s>${rec_(a)}</%%def>${f()}</%%def>${o()}' % _quote_attr("f(a=%s)" % src)
    if position == "nested-kwonly-default":
        return '<%%def name="o()"><%%def name=%s>${rec_(a)}</%%def>${f()}</%%def>${o()}' % _quote_attr("f(*r, a=%s)" % src)
    if position == "block-arg":
        # a named block with args is always called by the body with the page argument of the same name; its own
        # default is used when it is called through the namespace: the last observation is the default
        return (_module_env_block(names) + '<%%page args="a=None"/><%%block name="b" args=%s>${rec_(a)}</%%block>${self.b()}'
                % _quote_attr("a=%s" % src))
    if position == "page-arg":
        return _module_env_block(names) + "<%%page args=%s/>${rec_(a)}" % _quote_attr("a=%s" % src)
    if position == "filter-arg":
        return "${0 | fecho(%s)}" % src
    if position == "filter-kwarg":
        return "${0 | fecho(kw=%s)}" % src
    if position == "def-filter-arg":
        return '<%%def name="f()" filter=%s>t</%%def>${f()}' % _quote_attr("fecho(%s)" % src)
    if position == "text-filter-arg":
        return "<%%text filter=%s>t</%%text>" % _quote_attr("fecho(%s)" % src)
    raise AssertionError(position)


def render_position(position, src, envspec, strict=True):
    """Evaluate src through a template -> ('ok', canon) | ('exc', type name, message)"""
    from mako.template import Template

    text = template_for(position, src, set(envspec) | (set(pygram.HELPERS) & free_names_expr(src)))
    box = []

    def rec_(v):
        box.append(v)
        return ""

    def fecho(*a, **k):
        box.append(a[0] if a else k["kw"])
        return lambda v: ""

    env = pygram.build_env(envspec)
    ctx = {"rec_": rec_, "fecho": fecho}
    if position in MODULE_ENV:
        pygram.CUR.clear()
        pygram.CUR.update(env)
    else:
        ctx.update(env)
    try:
        t = Template(text, uri=_uri("e"), strict_undefined=strict)
        t.render_unicode(**ctx)
    except Exception as e:  # noqa: BLE001
        return ("exc", type(e).__name__, str(e)[:200]), text
    finally:
        pygram.CUR.clear()
    if len(box) != (2 if position == "block-arg" else 1):
        return ("exc", "<no value observed>", "rec_/fecho called %d times" % len(box)), text
    return ("ok", pygram.canon(box[-1])), text


def check_expr(src, envspec, positions, direct=True, finding=None, strict=True):
    """Oracle of part 1.  Raises Failure.  `finding` forces the key (probes)."""
    case = {"part": "expr", "src": src, "env": envspec, "positions": list(positions), "direct": direct, "strict": strict}
    if finding:
        case["finding"] = finding

    def fail(kind, detail):
        raise Failure(case, "expression %r: %s" % (src, detail), finding or ("p1:" + kind))

    if direct:
        for route, kind, detail in regen_checks(src):
            fail(kind, "%s %s" % (route, detail))
    if positions:
        want = native_eval(src, envspec)
        for pos in positions:
            got, text = render_position(pos, src, envspec, strict)
            if got[:2] != want[:2]:
                fail("value:" + ("raised:" + got[1] if got[0] == "exc" else "differs"),
                     "as %s (strict_undefined=%s): native eval gives %r, template %r gives %r" % (pos, strict, want, text, got))


def expr_labels(src):
    tree = ast.parse(src, mode="eval")
    feats = pygram.features(tree)
    kinds = pygram.node_kinds(tree)
    return feats, kinds


def applicable_positions(positions, src):
    out = []
    for p in positions:
        try:
            template_for(p, src, ())
            out.append(p)
        except Unsupported:
            pass
    return out


# ---- probes -------------------------------------------------------------------------------------------
def run_probes(part):
    """-> (disabled flags, [Failure per failing finding], {id: failing probe count})"""
    disabled = set()
    fails = []
    counts = {}
    for fid_, f in FINDINGS.items():
        probes = f.get(part, [])
        if not probes:
            continue
        bad = []
        for probe in probes:
            try:
                if part == "expr":
                    names = {n.id for n in ast.walk(ast.parse(probe)) if isinstance(n, ast.Name)}
                    spec = {k: v for k, v in E.items() if k in names}
                    pos = f.get("expr_positions") or applicable_positions(
                        [p for p in POSITIONS if p != "nested-kwonly-default"], probe)
                    check_expr(probe, spec, pos, direct="expr_positions" not in f, finding=fid_)
                else:
                    PROBE_RUNNERS[part](probe, fid_)
            except Failure as e:
                bad.append(e)
        if bad:
            disabled.update(f["flags"])
            counts[fid_] = len(bad)
            first = bad[0]
            first.detail = "[%d of %d probes of this construct fail] %s" % (len(bad), len(probes), first.detail)
            fails.append(first)
    return disabled, fails, counts


PROBE_RUNNERS = {}


# ---- shards -------------------------------------------------------------------------------------------
def expr_strategy(flags):
    from hypothesis import strategies as st

    pos_ok = [p for p in POSITIONS if ("pos:" + p) not in FLAG_OFF_POSITIONS or ("pos:" + p) in flags]
    return st.tuples(pygram.expressions(flags=flags), st.integers(0, 3),
                     st.lists(st.sampled_from(pos_ok), min_size=2, max_size=3, unique=True), st.booleans())


FLAG_OFF_POSITIONS = {"pos:nested-kwonly-default", "default_hoist", "comp_strict"}
STUB_POSITIONS = {"def-default", "def-kwonly-default", "block-arg", "nested-def-default", "nested-kwonly-default"}


def shard_expr(task):
    seed, n, flags, known_ids, every, emit = task
    core.setup_repo()
    warnings.simplefilter("ignore")
    ev = core.Evidence()
    flags = frozenset(flags)

    def check(c):
        _hang_guard()
        case, sel, positions, strict = c
        src = case.src
        feats, kinds = expr_labels(src)
        render = sel % every == 0
        pos = applicable_positions(positions, src) if render else []
        if render and len(pos) < len(positions):
            ev.rejected += len(positions) - len(pos)
        if "default_hoist" not in flags:
            # a default that reads a name fetched from the context at render time is the separate finding
            # C19-default-before-lookup: keep those (position, expression) pairs out of this campaign
            keep = [p for p in pos if p not in STUB_POSITIONS or not hoisted_names(p, src, case.envspec)]
            ev.excluded_known["C19-default-before-lookup"] += len(pos) - len(keep)
            pos = keep
        has_comp = bool(kinds & {"ListComp", "SetComp", "DictComp", "GeneratorExp"})
        if has_comp and strict and pos and "comp_strict" not in flags:
            # comprehension variables are demanded from the context (finding C19-comprehension-var-in-args): harmless
            # without strict_undefined, so the values are still compared there
            strict = False
            ev.excluded_known["C19-comprehension-var-in-args"] += 1
        if "escape_names" in feats and "escape_names" not in flags:
            raise AssertionError("generator produced a disabled construct")
        labels = ["n:" + k for k in sorted(kinds)] + ["f:" + f for f in sorted(feats)] + ["pos:" + p for p in pos]
        nt = bool(feats & pygram.PRECEDENCE_FEATURES)
        if pos:
            labels.append("rendered:strict" if strict else "rendered:non-strict")
        ev.case(key=(src, pos), nontrivial=nt, labels=labels)
        if nt and pos and 30 < len(src) < 160 and emit and not ev.samples:
            ev.sample({"part": "expr", "src": src, "env": case.envspec, "positions": pos, "strict": strict}, "expr%d" % (seed % 2))
        try:
            check_expr(src, case.envspec, pos, strict=strict)
        except Failure as f:
            if has_comp and strict and pos:
                f.info["kid0"] = "C19-comprehension-var-in-args"
            hit = sorted(FEATURE_TO_ID[x] for x in feats if x in FEATURE_TO_ID)
            for p in pos:
                if "pos:" + p in FEATURE_TO_ID:
                    hit.append(FEATURE_TO_ID["pos:" + p])
                if p in STUB_POSITIONS and hoisted_names(p, src, case.envspec):
                    hit.append("C19-default-before-lookup")
            if f.info.get("kid0"):
                hit.append(f.info["kid0"])
            if pos:
                # findings about which names are fetched from the context only show when rendered
                if feats & {"lambda_vararg", "lambda_kwarg", "lambda_kwonly", "lambda_posonly"}:
                    hit.append("C19-function-params")
                if "param_default" in feats:
                    hit.append("C19-function-default-names")
                if has_comp and "Lambda" in kinds:
                    hit.append("C19-comprehension-in-function-names")
            f.info["kid"] = next((h for h in hit if h in known_ids), None)
            raise

    fails, found = core.hyp_search(expr_strategy(flags), check, ev, seed, n, classify=lambda f: f.info.get("kid"),
                                   known={k: 1 for k in known_ids})
    return ev, fails


def tasks_expr(ctx, off_stmt, failing):
    disabled, fails, counts = run_probes("expr")
    for f in fails:
        ctx.fail(f)
    for k, v in counts.items():
        ctx.ev.excluded_known[k] += v
    disabled = set(disabled) | set(off_stmt)
    ctx.ev.notes["expr_flags_off"] = sorted(disabled)
    flags = sorted((set(pygram.ALL_FLAGS) | FLAG_OFF_POSITIONS) - set(disabled))
    n = ctx.pick(400, 9000)
    every = ctx.pick(2, 5)
    # behind-the-findings campaign: the constructs with failing probes are not generated
    tasks = [("expr", (ctx.shard_seed(i, "expr"), n, flags, [], every, i < 2)) for i in range(16)]
    # full-grammar campaign: failures on a case containing a construct with failing probes are counted, not reported
    if disabled:
        allf = sorted(set(pygram.ALL_FLAGS) | FLAG_OFF_POSITIONS)
        tasks += [("expr", (ctx.shard_seed(i, "exprfull"), ctx.pick(80, 1500), allf, sorted(failing), every, False)) for i in range(16)]
    return tasks


# ---------------------------------------------------------------------------------------------------------
# part 2: statement blocks - which names are taken from the context, and final values
# ---------------------------------------------------------------------------------------------------------
def native_block(block, outs, env):
    code = "def __f():\n" + "".join("    " + ln + "\n" for ln in block.split("\n"))
    code += "    return (%s)\n" % "".join(o + ", " for o in outs)
    g = dict(env)
    try:
        exec(compile(code, "<native block>", "exec"), g)
        return ("ok", pygram.canon(g["__f"]()))
    except Exception as e:  # noqa: BLE001
        return ("exc", type(e).__name__)


def render_block(t, outs_box, ctx):
    del outs_box[:]
    try:
        t.render_unicode(**ctx)
    except Exception as e:  # noqa: BLE001
        return ("exc", type(e).__name__, str(e)[:200])
    if len(outs_box) != 1:
        return ("exc", "<no value observed>", "rec_ called %d times" % len(outs_box))
    return ("ok", pygram.canon(outs_box[0]))


def check_block(block, envspec, outs, finding=None, max_removed=4):
    """Oracle of part 2.  Raises Failure."""
    import re
    from mako.template import Template

    case = {"part": "block", "src": block, "env": envspec, "outs": list(outs)}
    if finding:
        case["finding"] = finding

    def fail(kind, detail):
        raise Failure(case, "block\n%s\n-- %s" % (block, detail), finding or ("p2:" + kind))

    free = free_names_block(block)
    need = sorted(free - BUILTIN_NAMES)
    env0 = pygram.build_env(envspec)
    missing = [nm for nm in need if nm not in env0]
    if missing:
        raise core.HarnessError("generated block reads %r for which the environment has no value:\n%s" % (missing, block))
    text = "<%%\n%s\n%%>${rec_((%s))}" % (block, "".join(o + ", " for o in outs))
    box = []

    def rec_(v):
        box.append(v)
        return ""

    try:
        t = Template(text, uri=_uri("b"), strict_undefined=True)
    except Exception as e:  # noqa: BLE001
        fail("compile-raised:" + type(e).__name__, "Template() raised %s: %s" % (type(e).__name__, str(e)[:300]))
    want = native_block(block, outs, {k: v for k, v in pygram.build_env(envspec).items() if k in need})
    env = pygram.build_env(envspec)
    got = render_block(t, box, dict({k: env[k] for k in need}, rec_=rec_))
    if got[0] == "exc" and got[1] == "NameError" and want[:2] != ("exc", "NameError"):
        fail("nameerror-with-all-free-names",
             "CPython says the block reads without binding exactly %r; rendered under strict_undefined with exactly those "
             "names: %r (native result %r)" % (need, got, want))
    if got[:2] != want[:2]:
        fail("value:" + ("raised:" + got[1] if got[0] == "exc" else "differs"),
             "with context %r: native exec gives %r, template gives %r" % (need, want, got))
    for nm in need[:max_removed]:
        env = pygram.build_env(envspec)
        got = render_block(t, box, dict({k: env[k] for k in need if k != nm}, rec_=rec_))
        if not (got[0] == "exc" and got[1] == "NameError" and re.search(r"(?<![A-Za-z0-9_])%s(?![A-Za-z0-9_])" % re.escape(nm), got[2])):
            fail("missing-name-not-reported",
                 "the block reads %r; rendered under strict_undefined without it: expected NameError naming it, got %r" % (nm, got))
    return need


def minimize_block(f):
    """Statement-level reduction of a failing block (same failure key); hypothesis shrinking is too slow here."""
    case = f.case
    best = f
    changed = True
    rounds = 0
    while changed and rounds < 6:
        changed = False
        rounds += 1
        tree = ast.parse(best.case["src"])
        paths = []

        def visit(body, path):
            for i, st_ in enumerate(body):
                paths.append(path + [i])
                for fld in ("body", "orelse", "finalbody"):
                    sub = getattr(st_, fld, None)
                    if isinstance(sub, list) and sub and isinstance(sub[0], ast.stmt):
                        visit(sub, path + [i, fld])
                for h in getattr(st_, "handlers", []):
                    visit(h.body, path + [i, "handlers", st_.handlers.index(h)])
        visit(tree.body, [])
        for path in sorted(paths, key=len):
            t2 = ast.parse(best.case["src"])
            body = t2.body
            ok = True
            try:
                cur = body
                for step in path[:-1]:
                    if isinstance(step, int):
                        cur = cur[step]
                    elif step == "handlers":
                        cur = cur.handlers
                    else:
                        cur = getattr(cur, step)
                    if isinstance(cur, ast.ExceptHandler):
                        cur = cur.body
                if not isinstance(cur, list) or path[-1] >= len(cur):
                    continue
                del cur[path[-1]]
                if not cur:
                    cur.append(ast.Pass())
                src2 = ast.unparse(ast.fix_missing_locations(t2))
                stored = {n.id for n in ast.walk(t2) if isinstance(n, ast.Name) and isinstance(n.ctx, ast.Store)}
            except Exception:  # noqa: BLE001
                ok = False
            if not ok or src2 == best.case["src"]:
                continue
            outs2 = [o for o in best.case["outs"] if o in stored]
            try:
                check_block(src2, case["env"], outs2, finding=case.get("finding"))
            except Failure as f2:
                if f2.key == f.key:
                    best = f2
                    changed = True
                    break
            except Exception:  # noqa: BLE001 - an invalid reduction (e.g. environment no longer sufficient)
                continue
    best.info.update(f.info)
    return best


def _probe_block(probe, fid_):
    names = {n.id for n in ast.walk(ast.parse(probe)) if isinstance(n, ast.Name)}
    spec = {k: v for k, v in E.items() if k in names}
    outs = sorted({n.id for n in ast.parse(probe).body if False} | {t.id for st_ in ast.parse(probe).body if isinstance(st_, ast.Assign)
                                                                    for t in st_.targets if isinstance(t, ast.Name)})
    check_block(probe, spec, outs, finding=fid_)


PROBE_RUNNERS["block"] = _probe_block

PARAM_FEATS = {"def_kwonly", "def_posonly", "def_vararg", "def_kwarg", "lambda_kwonly", "lambda_posonly", "lambda_vararg",
               "lambda_kwarg"}


def block_labels(src):
    tree = ast.parse(src)
    feats = pygram.features(tree)
    kinds = pygram.node_kinds(tree)
    in_fn = set()
    for fn in ast.walk(tree):
        if isinstance(fn, (ast.FunctionDef, ast.Lambda)):
            for sub in ast.walk(fn):
                if sub is fn:
                    continue
                if isinstance(sub, (ast.ListComp, ast.SetComp, ast.DictComp, ast.GeneratorExp)):
                    in_fn.add("comp_in_fn")
                if isinstance(sub, ast.Lambda):
                    in_fn.add("lambda_in_fn")
                if isinstance(sub, ast.FunctionDef):
                    in_fn.add("nested_fn")
    return feats, kinds, in_fn


def _hang_guard(seconds=120):
    """generated code is built to terminate; if it does not, that is a harness error (exit 2), never a verdict"""
    import signal

    def boom(*a):
        signal.alarm(2)  # an exception raised inside a gc / destructor callback is swallowed: keep trying
        raise core.HarnessError("a generated case ran for more than %d s" % seconds)

    signal.signal(signal.SIGALRM, boom)
    signal.alarm(seconds)


def _hang_guard_off():
    import signal

    signal.alarm(0)


def shard_block(task):
    seed, n, flags, known_ids, emit = task
    core.setup_repo()
    warnings.simplefilter("ignore")
    ev = core.Evidence()
    flags = frozenset(flags)

    def check(c):
        _hang_guard()
        if reuses_quote_inside_fstring(c.src):
            ev.rejected += 1  # finding the end of <% %> around Python 3.12-only quote reuse is the lexer's concern
            return
        feats, kinds, in_fn = block_labels(c.src)
        nt = bool(feats & PARAM_FEATS) or bool(in_fn)
        labels = ["s:" + k for k in sorted(kinds) if k in STMT_KINDS] + ["par:" + f for f in sorted(feats & PARAM_FEATS)] + \
                 ["b:" + f for f in sorted(in_fn)] + ["b:" + f for f in c.feats if not f.startswith("par:")]
        ev.case(key=c.src, nontrivial=nt, labels=labels)
        if nt and 3 < c.src.count("\n") < 14 and emit and not ev.samples:
            ev.sample({"part": "block", "src": c.src, "env": c.envspec, "outs": c.outs}, "block%d" % (seed % 2))
        try:
            need = check_block(c.src, c.envspec, c.outs)
            ev.label("b:free-names=%d" % min(len(need), 6))
        except Failure as f:
            hit = []  # most specific construct first
            if "late_local" in c.feats:
                hit.append("C19-function-local-bound-later")
            if "KeyError" in c.src:
                hit.append("C19-strict-lookup-shadowed-keyerror")
            if "ir" in c.envspec:
                hit.append("C19-comprehension-var-leaks")
            if "comp_in_fn" in in_fn:
                hit.append("C19-comprehension-in-function-names")
            if "param_default" in feats:
                hit.append("C19-function-default-names")
            if feats & PARAM_FEATS:
                hit.append("C19-function-params")
            f.info["kid"] = next((h for h in hit if h in known_ids), None)
            if f.info["kid"] is None:
                f = minimize_block(f)
            raise f

    fails, found = core.hyp_search(pygram.blocks(flags=flags), check, ev, seed, n, classify=lambda f: f.info.get("kid"),
                                   known={k: 1 for k in known_ids}, shrink=False)
    return ev, fails


STMT_KINDS = {"Assign", "AugAssign", "For", "While", "If", "Try", "With", "Import", "ImportFrom", "FunctionDef", "Lambda",
              "Delete", "Nonlocal", "Return", "Break", "Continue", "ListComp", "SetComp", "DictComp", "GeneratorExp",
              "NamedExpr", "Expr", "Pass"}


def tasks_block(ctx, off_expr, failing):
    disabled, fails, counts = run_probes("block")
    for f in fails:
        ctx.fail(f)
    for k, v in counts.items():
        ctx.ev.excluded_known[k] += v
    # the same generator flags are switched off by failing expression-side probes of these findings
    off = set(disabled) | (set(off_expr) & set(pygram.STMT_FLAGS))
    ctx.ev.notes["block_flags_off"] = sorted(off)
    flags = sorted(set(pygram.ALL_FLAGS) - off - {"escape_names"})
    n = ctx.pick(120, 1900)
    tasks = [("block", (ctx.shard_seed(i, "block"), n, flags, [], i < 2)) for i in range(16)]
    if off:
        tasks += [("block", (ctx.shard_seed(i, "blockfull"), ctx.pick(24, 300), sorted(pygram.ALL_FLAGS - {"escape_names"}),
                             sorted(failing), False)) for i in range(16)]
    return tasks, off


# ---------------------------------------------------------------------------------------------------------
# part 3: re-margining of <% %> / <%! %> blocks
# ---------------------------------------------------------------------------------------------------------
MARGIN_FLAGS = ["m_hash_then_triple", "m_phantom_triple", "m_mixed_triple_line", "m_raw_tab", "m_escaped_quote_run"]
PLAIN_ATOMS = ["a", "b", "Z", " ", "  ", "#", "# ", "0", ":", "é", "=", "(", "]", ","]
ESC_ATOMS = ["\\\\", "\\n", "\\t", "\\x41"]
TQ = {"'": "'" * 3, '"': '"' * 3}


class MarginGen:
    """Text-level builder of a block: lines are [kind, level, text] with kind code | cont | str | blank."""

    def __init__(self, draw, flags):
        from hypothesis import strategies as st

        self.st = st
        self.draw = draw
        self.flags = flags
        self.lines = []
        self.counter = 0
        self.feats = set()

    def n(self, k):
        return self.draw(self.st.integers(0, k - 1))

    def chance(self, pct):
        return self.n(100) >= 100 - pct

    def pick(self, seq):
        return seq[self.n(len(seq))]

    def on(self, f):
        return f in self.flags

    def var(self, stem="v"):
        self.counter += 1
        return "%s%d" % (stem, self.counter)

    # -- literals -----------------------------------------------------------------------------------------
    def content(self, quote, triple, raw, hash_ok=True):
        """-> physical-line fragments of the literal body (more than one only for multi-line literals)"""
        other = '"' if quote == "'" else "'"
        frags = [""]
        for _ in range(self.n(7)):
            k = self.n(12)
            if k <= 3:
                atom = self.pick(PLAIN_ATOMS)
                if "#" in atom and not hash_ok:
                    atom = "h"
                frags[-1] += atom
            elif k == 4:
                if frags[-1].endswith(other * 2):
                    frags[-1] += "-"   # never three in a row by accident: that is the separate construct below
                frags[-1] += other
            elif k == 5:
                frags[-1] += ("\\" + self.pick(["d", "w", " "])) if raw else self.pick(ESC_ATOMS)
            elif k == 6:
                if not raw and not frags[-1].endswith("\\"):
                    frags[-1] += "\\" + quote
                    if not (triple and self.on("m_escaped_quote_run")):
                        frags[-1] += "-"
            elif k == 7 and triple:
                if not frags[-1].endswith(quote) and not frags[-1].endswith("\\"):
                    frags[-1] += quote + "-"   # a lone quote of the same kind inside a triple-quoted literal
            elif k == 8:
                if (not triple and self.on("m_phantom_triple")) or (triple and self.on("m_mixed_triple_line")):
                    frags[-1] += other * 3 + "-"      # three quotes of the other kind
                    self.feats.add("other-triple-inside-" + ("triple" if triple else "single"))
            elif k == 9 and self.on("m_raw_tab"):
                frags[-1] += "\t"
                self.feats.add("raw-tab-in-literal")
            elif k >= 10 and triple:
                frags.append(self.pick(["", " ", "    ", "  # ", "        ", "x"]))
                self.feats.add("multiline-string")
            elif k >= 10 and not raw and self.chance(40):
                # backslash-newline inside a single-quoted literal: the next physical line is content
                if not frags[-1].endswith("\\"):
                    frags[-1] += "\\"
                    frags.append(self.pick(["", "  ", "      ", "y"]))
                    self.feats.add("backslash-newline-in-string")
        last = frags[-1]
        if last.endswith(quote) or last.endswith("\\"):
            frags[-1] += "."
        return frags

    def literal(self, hash_ok=True):
        quote = self.pick(["'", '"'])
        triple = self.chance(40)
        raw = self.chance(15)
        frags = list(self.content(quote, triple, raw, hash_ok))
        q = TQ[quote] if triple else quote
        frags[0] = ("r" if raw else "") + q + frags[0]
        frags[-1] = frags[-1] + q
        self.feats.add(("triple" if triple else "single") + "-quoted")
        return frags, triple

    def expr(self):
        """-> physical lines of an expression: [(kind, text)], the first goes on the statement line"""
        k = self.n(10)
        if k <= 3:
            fr, _ = self.literal()
            return [("code", fr[0])] + [("str", f) for f in fr[1:]]
        if k == 4:
            # two literals on one statement; the first is kept free of '#' unless that construct is enabled
            b, btriple = self.literal()
            a, _ = self.literal(hash_ok=self.on("m_hash_then_triple") or not (btriple and len(b) > 1))
            out = [("code", a[0])] + [("str", f) for f in a[1:]]
            kind, last = out[-1]
            out[-1] = (kind, last + " + " + b[0])
            out += [("str", f) for f in b[1:]]
            self.feats.add("two-literals")
            return out
        if k == 5:
            self.feats.add("backslash-continuation")
            if self.chance(50):
                return [("code", "1 + \\"), ("cont", "2")]
            return [("code", "'a' \\"), ("cont", "'b' + \\"), ("cont", "'c'")]
        if k == 6 or k == 7:
            self.feats.add("bracket-continuation")
            op, cl = self.pick([("[", "]"), ("(", ")"), ("{", "}")])
            out = [("code", op)]
            for i in range(1 + self.n(3)):
                fr, _ = self.literal()
                out.append(("cont", fr[0]))
                out += [("str", f) for f in fr[1:]]
                kind, last = out[-1]
                out[-1] = (kind, last + ",")
            out.append(("cont", cl))
            return out
        if k == 8:
            self.feats.add("implicit-concat")
            a, _ = self.literal()
            b, _ = self.literal()
            out = [("code", "(" + a[0])] + [("str", f) for f in a[1:]]
            out.append(("cont", b[0]))
            out += [("str", f) for f in b[1:]]
            kind, last = out[-1]
            out[-1] = (kind, last + ")")
            return out
        if self.chance(60):
            # a triple-quoted f-string over several lines with a nested f-string that starts on a later line: every
            # line after the first is string content whatever tokens begin and end inside it
            q = self.pick(['"' * 3, "'" * 3])
            iq = "'" if q[0] == '"' else '"'
            ws = lambda: self.pick(["", "  ", "    ", "      ", "\t" if self.on("m_raw_tab") else " "])
            body = [ws() + self.pick(["first {1 + 1}", "plain", "{3:>4}|", "# not a comment {2}"]) for _ in range(self.n(3))]
            body.insert(self.n(len(body) + 1), ws() + "{f" + iq + "{2:>3}=x" + iq + "} third")
            body.append(ws() + "last" + q)
            self.feats.add("multiline-fstring-nested")
            return [("code", "f" + q + "begin")] + [("str", b) for b in body]
        return [("code", str(self.n(100)))]

    def assign(self, level):
        v = self.var()
        ex = self.expr()
        for i, (kind, text) in enumerate(ex):
            if i == 0:
                self.lines.append(["code", level, "%s = %s" % (v, text)])
            else:
                self.lines.append([kind, level, text])
        if len(ex) == 1 and self.chance(12):
            self.lines[-1][2] += "  # note " + self.pick(["1", "it", "x = y", "C:\\tmp\\", "ends \\"])  # (a backslash ending a comment continues nothing)
        return v

    def stmts(self, level, n, depth):
        out = []
        for _ in range(n):
            k = self.n(12)
            if self.chance(10):
                self.lines.append(["code", level, "# " + self.pick(["c", "plain comment", "x: y", "dir\\"])])
            if self.chance(8):
                self.lines.append(["blank", 0, self.pick(["", "", "  "])])
            if k <= 6 or depth <= 0:
                out.append(self.assign(level))
            elif k == 7:
                self.lines.append(["code", level, "if True:"])
                out += self.stmts(level + 1, 1 + self.n(2), depth - 1)
                if self.chance(40):
                    self.lines.append(["code", level, "else:"])
                    self.lines.append(["code", level + 1, "pass"])
                self.feats.add("nested-if")
            elif k == 8:
                self.lines.append(["code", level, "for %s in range(2):" % self.var("i")])
                out += self.stmts(level + 1, 1 + self.n(2), depth - 1)
                self.feats.add("nested-for")
            elif k == 9:
                f = self.var("f")
                self.lines.append(["code", level, "def %s():" % f])
                inner = self.stmts(level + 1, 1 + self.n(2), depth - 1)
                self.lines.append(["code", level + 1, "return (%s)" % "".join(x + ", " for x in inner)])
                v = self.var()
                self.lines.append(["code", level, "%s = %s()" % (v, f)])
                out.append(v)
                self.feats.add("nested-def")
            elif k == 10:
                self.lines.append(["code", level, "try:"])
                out += self.stmts(level + 1, 1, depth - 1)
                self.lines.append(["code", level, "except Exception:"])
                self.lines.append(["code", level + 1, "pass"])
                self.feats.add("nested-try")
            else:
                out.append(self.assign(level))
        return out


def render_lines(lines, margin, unit, strmode, contmode):
    out = []
    for kind, level, text in lines:
        if kind == "code":
            out.append(margin + unit * level + text)
        elif kind == "cont":
            if contmode == "flush":
                out.append(text)
            elif contmode == "deep":
                out.append(margin + unit * level + "        " + text)
            else:
                out.append(margin + unit * level + text)
        elif kind == "str":
            out.append((margin if strmode == "margined" else "") + text)
        else:
            out.append(text)
    return "\n".join(out)


def margin_strategy(flags):
    from hypothesis import strategies as st

    flags = frozenset(flags)

    @st.composite
    def build(draw):
        g = MarginGen(draw, flags)
        vars_ = g.stmts(0, 1 + g.n(5), 2)
        mk = g.pick(["spaces", "tabs", "mixed", "spaces", "none"])
        if mk == "none":
            margin = ""
        elif mk == "spaces":
            margin = " " * (1 + g.n(12))
        elif mk == "tabs":
            margin = "\t" * (1 + g.n(3))
        else:
            margin = "".join(g.pick([" ", "\t", "  "]) for _ in range(1 + g.n(4)))[:12]
            if " " not in margin or "\t" not in margin:
                margin = " \t" + margin[:10]
        unit = g.pick(["    ", "    ", "  ", "\t"])
        strmode = g.pick(["margined", "raw"])
        contmode = g.pick(["aligned", "flush", "deep"])
        tag = g.pick(["<%", "<%!", "<%"])
        closing = g.pick(["\n%>", "\n" + margin + "%>", "\n" + margin + "\n%>"])
        text = render_lines(g.lines, margin, unit, strmode, contmode)
        return {"part": "margin", "block": text, "margin": margin, "tag": tag, "closing": closing, "vars": vars_,
                "meta": {"margin_kind": mk, "strmode": strmode, "contmode": contmode, "unit": unit, "feats": sorted(g.feats)}}

    return build()


def margin_reference(case):
    src = case["block"]
    if case["margin"]:
        src = "if 1:\n" + src
    g = {}
    exec(compile(src + "\n", "<block as written>", "exec"), g)
    return ("ok", pygram.canon(tuple(g[v] for v in case["vars"])))


def check_margin(case, finding=None):
    from mako.template import Template

    case = {k: case[k] for k in ("part", "block", "margin", "tag", "closing", "vars")}
    if finding:
        case["finding"] = finding

    def fail(kind, detail):
        raise Failure(case, "block %r at margin %r in %s: %s" % (case["block"], case["margin"], case["tag"], detail),
                      finding or ("p3:" + kind))

    want = margin_reference(case)
    text = "%s\n%s%s${rec_((%s))}" % (case["tag"], case["block"], case["closing"], "".join(v + ", " for v in case["vars"]))
    box = []

    def rec_(v):
        box.append(v)
        return ""

    try:
        t = Template(text, uri=_uri("m"), strict_undefined=True)
        t.render_unicode(rec_=rec_)
    except Exception as e:  # noqa: BLE001
        fail("raised:" + type(e).__name__, "CPython computes %r; the template raised %s: %s" % (want, type(e).__name__, str(e)[:200]))
    got = ("ok", pygram.canon(box[0])) if len(box) == 1 else ("exc", "rec_ called %d times" % len(box))
    if got != want:
        fail("value-differs", "CPython computes %r for the block as written, the template %r" % (want, got))


def margin_features(block):
    """constructs with a finding of their own, recognised on the block text with CPython's tokenizer"""
    import io
    import tokenize

    feats = set()
    try:
        toks = list(tokenize.generate_tokens(io.StringIO(block + "\n").readline))
    except Exception:  # noqa: BLE001
        return feats
    strings = [tk for tk in toks if tk.type == tokenize.STRING]
    for tk in strings:
        body = tk.string.lstrip("rRbBuUfF")
        triple = body[:3] in (TQ["'"], TQ['"'])
        q = body[:3] if triple else body[:1]
        inner = body[len(q):-len(q)]
        other3 = TQ['"'] if q[0] == "'" else TQ["'"]
        if "\t" in inner:
            feats.add("m_raw_tab")
        if other3 in inner:
            feats.add("m_mixed_triple_line" if triple else "m_phantom_triple")
        if triple and "\\" + q[0] + q[0] in inner:
            feats.add("m_escaped_quote_run")
        # a '#' inside a one-line literal followed, on the same physical line, by the opener of a multi-line literal
        if tk.start[0] == tk.end[0] and "#" in inner:
            for other in strings:
                if other.start[0] == tk.end[0] and other.start > tk.start and other.end[0] > other.start[0]:
                    feats.add("m_hash_then_triple")
    return feats


def shard_margin(task):
    seed, n, flags, known_ids, emit = task
    core.setup_repo()
    warnings.simplefilter("ignore")
    ev = core.Evidence()

    def check(case):
        _hang_guard()
        try:
            margin_reference(case)
        except SyntaxError:
            ev.rejected += 1
            return
        meta = case["meta"]
        nt = bool(case["margin"]) and bool(set(meta["feats"]) & {"multiline-string", "backslash-newline-in-string",
                                                                   "backslash-continuation", "bracket-continuation",
                                                                   "implicit-concat"})
        labels = ["mar:" + meta["margin_kind"], "mar:len=%d" % len(case["margin"]), "tag:" + case["tag"], "str:" + meta["strmode"],
                  "cont:" + meta["contmode"]] + ["m:" + f for f in meta["feats"]]
        ev.case(key=(case["block"], case["tag"], case["closing"]), nontrivial=nt, labels=labels)
        if nt and len(case["block"]) < 300 and emit and not ev.samples:
            ev.sample({k: case[k] for k in ("part", "block", "margin", "tag", "closing", "vars")}, "margin%d" % (seed % 2))
        try:
            check_margin(case)
        except Failure as f:
            hit = [MARGIN_FEATURE_TO_ID[x] for x in sorted(margin_features(case["block"])) if x in MARGIN_FEATURE_TO_ID]
            f.info["kid"] = next((h for h in hit if h in known_ids), None)
            raise

    fails, found = core.hyp_search(margin_strategy(flags), check, ev, seed, n, classify=lambda f: f.info.get("kid"),
                                   known={k: 1 for k in known_ids})
    return ev, fails


def _probe_margin(probe, fid_):
    """probe = (block with '~' marking literal-content lines, variables, margins, tags, string-line modes)"""
    block, vars_, margins, tags, strmodes = probe
    for margin in margins:
        for tag in tags:
            for strmode in strmodes:
                lines = []
                for ln in block.split("\n"):
                    kind = "str" if ln.startswith("~") else "code"
                    lines.append([kind, 0, ln[1:] if kind == "str" else ln])
                text = render_lines(lines, margin, "    ", strmode, "aligned")
                check_margin({"part": "margin", "block": text, "margin": margin, "tag": tag, "closing": "\n%>", "vars": vars_},
                             finding=fid_)


PROBE_RUNNERS["margin"] = _probe_margin
MARGIN_FEATURE_TO_ID = {fl: fid_ for fid_, f in FINDINGS.items() for fl in f["flags"] if fl.startswith("m_")}


def tasks_margin(ctx, failing):
    disabled, fails, counts = run_probes("margin")
    for f in fails:
        ctx.fail(f)
    for k, v in counts.items():
        ctx.ev.excluded_known[k] += v
    ctx.ev.notes["margin_flags_off"] = sorted(disabled)
    flags = sorted(set(MARGIN_FLAGS) - set(disabled))
    n = ctx.pick(160, 1900)
    tasks = [("margin", (ctx.shard_seed(i, "margin"), n, flags, [], i < 2)) for i in range(16)]
    if disabled:
        tasks += [("margin", (ctx.shard_seed(i, "marginfull"), ctx.pick(32, 300), list(MARGIN_FLAGS), sorted(failing), False))
                  for i in range(16)]
    return tasks


def shard_any(task):
    kind, args = task
    try:
        return {"expr": shard_expr, "block": shard_block, "margin": shard_margin}[kind](args)
    finally:
        _hang_guard_off()  # the guard is re-armed per case; never leave it armed for the next shard of this worker


# ---------------------------------------------------------------------------------------------------------
# ---- signatures written in tags: <%def name="f(...)">, nested defs, body args of calls ------------------------------------
KEY_BARE_STAR = "C19-bare-star-dropped"
SIGNATURES = [
    # (signature, [call argument texts])
    ("a, b=2", ["1", "1, 3", "b=5, a=4", "", "1, 2, 3"]),
    ("a, *r, k=1, m, j=2", ["0, 9, m=5", "0, m=5, k=7", "0", "0, 1, 2, m=3, j=4"]),
    ("x, y=0, *r, m, n=3, **w", ["1, m=2", "1, 2, 3, m=4, z=5", "1, n=2"]),
    ("*r, a=1, b, c=3", ["b=7", "1, 2, b=7, c=8", "a=0"]),
    ("a, /, b", ["1, 2", "1, b=2", "a=1, b=2"]),
    ("a, b=5, /, c=6, *r, k", ["1, k=2", "1, 2, 3, 4, k=5", "1, b=2, k=3"]),
    ("a, /", ["1", "a=1"]),
    ("a, *, m", ["1, m=2", "1, 2"]),
    ("*, m, k=1", ["m=2", "2"]),
    ("*, k=1, m", ["m=2", "k=3, m=4"]),
    ("a, b=2, *, c, d=4, **w", ["1, c=3", "1, 2, 3", "1, c=3, e=5"]),
]


def _sig_names(sig):
    fn = ast.parse("def f(%s): pass" % sig).body[0]
    a = fn.args
    out = [x.arg for x in a.posonlyargs + a.args]
    if a.vararg:
        out.append(a.vararg.arg)
    out += [x.arg for x in a.kwonlyargs]
    if a.kwarg:
        out.append(a.kwarg.arg)
    return out


def check_signatures(ev, fails):
    """a def written in a tag binds its arguments as the Python function with that signature does (same values or TypeError)"""
    from mako.template import Template

    k = 0
    for sig, calls in SIGNATURES:
        names = _sig_names(sig)
        show = "|".join("%s=${repr(sorted(%s.items()) if isinstance(%s, dict) else %s)}" % (n, n, n, n) for n in names)
        ns = {}
        exec("def f(%s):\n    return '|'.join('%%s=%%r' %% (n, sorted(v.items()) if isinstance(v, dict) else v) for n, v in (%s))"
             % (sig, ", ".join("(%r, %s)" % (n, n) for n in names) + ","), ns)
        for call in calls:
            try:
                want = ("ok", eval("f(%s)" % call, ns))
            except TypeError:
                want = ("TypeError",)
            sites = {
                "top-level def": '<%%def name="f(%s)">%s</%%def>${f(%s)}' % (sig, show, call),
                "nested def": '<%%def name="o()"><%%def name="f(%s)">%s</%%def>${f(%s)}</%%def>${o()}' % (sig, show, call),
                "call body args": '<%%def name="w()">${caller.body(%s)}</%%def><%%call expr="w()" args="%s">%s</%%call>' % (call, sig, show),
            }
            for site, src in sorted(sites.items()):
                k += 1
                try:
                    got = ("ok", Template(src, uri="/c19sig_%d.html" % k).render_unicode())
                except TypeError:
                    got = ("TypeError",)
                except Exception as e:  # noqa: BLE001 - the type is the observation
                    got = (type(e).__name__, str(e)[:100])
                case = {"part": "signature", "sig": sig, "call": call, "site": site}
                if got != want:
                    # the known finding is exactly "the bare * is removed": what the signature without it would do
                    bare = False
                    if re.search(r"(^|,)\s*\*\s*,", sig):
                        sig2 = re.sub(r"(^|,)\s*\*\s*,", r"\1", sig)
                        ns2 = {}
                        try:
                            exec("def f(%s):\n    return '|'.join('%%s=%%r' %% (n, sorted(v.items()) if isinstance(v, dict) else v) for n, v in (%s))"
                                 % (sig2, ", ".join("(%r, %s)" % (n, n) for n in names) + ","), ns2)
                            try:
                                alt = ("ok", eval("f(%s)" % call, ns2))
                            except TypeError:
                                alt = ("TypeError",)
                            bare = got == alt
                        except SyntaxError:
                            bare = got[0] == "SyntaxError"
                    key = KEY_BARE_STAR if bare else "signature-binding"
                    f = Failure(case, "%s with signature (%s) called as f(%s): the Python function gives %r, the template %r\n%s"
                                % (site, sig, call, want, got, src), key)
                    fails.setdefault((key, sig) if not bare else key, f)
                ev.case(key=["signature", sig, call, site], nontrivial="*" in sig or "/" in sig, labels=("signature:" + site,))


# ---- entries of a filter list that are expressions, not names: applied as written ------------------------------------------
FILTER_ENTRIES = ["(fa or fb)", "(off or fb)", "(on and fa)", "(on and fa or fb)", "(fa if on else fb)", "(fb if off else fa)",
                  "(lambda s: s + '!')", "[fa, fb][1]", "flags['k']", "(fa)", "mk('x')", "(mk)('y')", "(on and flags)['k']",
                  "(not off and fa)", "(fa if on else mk('z'))", "(lambda s, *, up=True: s.upper() if up else s)"]


def check_filter_entries(ev, fails):
    from mako.template import Template

    def ns():
        return {"fa": lambda s: "a(%s)" % s, "fb": lambda s: "b[%s]" % s, "flags": {"k": lambda s: "k<%s>" % s},
                "mk": lambda x: (lambda s: x + s), "on": True, "off": 0}

    k = 0
    for e in FILTER_ENTRIES:
        want = eval(e, ns())("v")
        sites = {
            "expression": "${'v' | n, %s}" % e,
            "expression-after-other": "${'v' | n, %s, fb}" % e,
            "def-filter": '<%%def name="d()" filter="%s">v</%%def>${d()}' % e.replace('"', "'"),
            "text-filter": '<%%text filter="%s">v</%%text>' % e.replace('"', "'"),
        }
        for site, src in sorted(sites.items()):
            k += 1
            exp = ns()["fb"](want) if site == "expression-after-other" else want
            try:
                got = Template(src, uri="/c19fe_%d.html" % k).render_unicode(**ns())
            except Exception as ex:  # noqa: BLE001
                got = "%s: %s" % (type(ex).__name__, str(ex)[:100])
            if got != exp:
                f = Failure({"part": "filter-entry", "entry": e, "site": site},
                            "filter entry %s (%s): the callable the expression evaluates to gives %r, the template %r\n%s" % (e, site, exp, got, src),
                            "filter-entry-expression")
                fails.setdefault(f.key, f)
            ev.case(key=["filter-entry", e, site], nontrivial=True, labels=("filter-entry:" + site,))


def run(ctx):
    core.setup_repo()
    warnings.simplefilter("ignore")
    sfails = {}
    check_signatures(ctx.ev, sfails)
    check_filter_entries(ctx.ev, sfails)
    for f_ in sfails.values():
        ctx.fail(f_)
    part = getattr(ctx, "part", None)
    tasks = []
    # the probe lists are cheap: run them all first so that every campaign knows which findings are open
    probes = {p: run_probes(p) for p in ("expr", "block", "margin")}
    failing = set()
    for p in probes:
        failing |= set(probes[p][2])
    off_stmt = set()
    if part in (None, "block"):
        tb, off_stmt = tasks_block(ctx, probes["expr"][0], failing)
        tasks += tb
    if part in (None, "expr"):
        tasks += tasks_expr(ctx, off_stmt, failing)
    if part in (None, "margin"):
        tasks += tasks_margin(ctx, failing)
    # one pool for all shards, the slow kinds first
    order = {"block": 0, "expr": 1, "margin": 2}
    tasks.sort(key=lambda t: (order[t[0]], -t[1][1]))
    ctx.pmap(shard_any, tasks)
    ctx.ev.notes["labels_all"] = dict(ctx.ev.labels)
    ctx.ev.notes["findings_with_failing_probes"] = sorted(failing)


def classify(f):
    if f.key == KEY_BARE_STAR:
        return KEY_BARE_STAR
    return f.key if f.key in FINDINGS else None


def replay(case):
    core.setup_repo()
    warnings.simplefilter("ignore")
    try:
        if case["part"] == "expr":
            check_expr(case["src"], case["env"], case["positions"], direct=case.get("direct", True),
                       finding=case.get("finding"), strict=case.get("strict", True))
        elif case["part"] == "block":
            check_block(case["src"], case["env"], case["outs"], finding=case.get("finding"))
        elif case["part"] == "margin":
            check_margin(case, finding=case.get("finding"))
        elif case["part"] == "filter-entry":
            fails = {}
            check_filter_entries(core.Evidence(), fails)
            return next((f for f in fails.values()), None)
        elif case["part"] == "signature":
            fails = {}
            check_signatures(core.Evidence(), fails)
            return next((f for f in fails.values() if f.case == case), None)
    except Failure as f:
        return f
    return None

"""C19 - embedded Python keeps its meaning through analysis and re-emission.

Part 1 (expr)   expressions from vf.gen.pygram re-emitted by mako (ExpressionGenerator / FunctionDecl /
                ArgumentList, the entry points codegen uses) must parse to the same AST as written, and the
                value observed through a rendered template (def / block / page argument default, filter-call
                argument) must equal native eval(src, env).
Part 2 (block)  statement blocks in <% %>: symtable gives the names the block reads without binding; under
                strict_undefined with exactly those names in the context no NameError, with one removed a
                NameError naming it; final values equal native exec.
Part 3 (margin) blocks with nasty string literals / continuations at margins 0..12 of spaces and tabs in
                <% %> and <%! %>: values equal what CPython computes for the block as written.

Every root cause already confirmed on the unchanged tree has a FINDINGS entry: a dedicated probe list that
exercises exactly that construct (reported on every run under its own key), and a generator flag that keeps the
construct out of the main ("behind the finding") campaign while the probes fail.  A probe list that passes
(the defect was fixed) re-enables the construct in the main campaign automatically.
"""
import ast
import itertools
import os
import symtable
import warnings

from vf import core
from vf.core import Failure
from vf.gen import pygram

PID = "C19"
LEVEL = "exploration"
RULE = (
    "(1) typed random CPython ast expressions (depth<=5, printed by ast.unparse) with an environment of values for "
    "their free names, placed as top-level/nested def default, keyword-only default, block arg default, page arg "
    "default and filter-call argument (expression, def, text filters); non-trivial = the AST contains a construct whose "
    "printing needs care (IfExp/Lambda as operand or callee, **, unary under **, comparison chain, mixed "
    "binary/boolean operators, starred/double-starred arguments or displays, f-string, walrus, slices with step or "
    "tuple slices, multi-clause comprehensions, lambda with non-plain parameters); distinct by (source text, position). "
    "(2) typed random statement blocks (assignment forms, augmented assignment, for/while/if/try/with, imports, del, "
    "functions with every parameter kind, nested functions, lambdas, comprehensions); non-trivial = a parameter kind "
    "other than plain positional, or a comprehension/lambda inside a function, or a nested function; distinct by source. "
    "(3) text-level blocks of assignments of single/triple-quoted literals with quotes # backslashes newlines, backslash "
    "and bracket continuations, nested if/for/def bodies, at margins 0..12 of spaces/tabs/both in <% %> and <%! %>; "
    "non-trivial = a multi-line string or continuation at margin>0; distinct by (block text, margin, tag)."
)
ASSUMPTIONS = [
    "CPython's parser, ast.unparse, symtable and eval/exec are the trusted reference",
    "free names of a default of a top-level def / named block / <%page> are evaluated at module level (defs are exported "
    "module functions), so their environment is supplied by a <%! %> block; nested defs and filter arguments take it from "
    "the render context",
    "part 3 reference = CPython executing the block exactly as written under 'if 1:' (string-literal content lines keep "
    "whatever indentation they were written with); when content lines carry no margin this equals exec of the "
    "textwrap.dedent-ed block",
    "removing a name the block reads must give NameError under strict_undefined even if the reading statement is not "
    "reached (docs: 'any non-present variables raise an immediate NameError')",
    "classes, decorators, annotations, global, await/yield, match, Ellipsis, inf/nan are not generated",
]

# ---------------------------------------------------------------------------------------------------------
# findings already confirmed on the unchanged tree: id -> generator flags it switches off, probes
# ---------------------------------------------------------------------------------------------------------
E = {"ia": 3, "ib": 5, "ic": -2, "sa": "x'y", "sb": "q", "la": [4, 5, 6], "lb": [7, 8, 9], "da": {"a": 1, "b": 2},
     "ba": True, "ga": "@Echo", "ma": ["@Mat", 1], "mb": ["@Mat", 2], "x": 4, "n": 6, "h": 8, "u": 9}

FINDINGS = {
    # ---- ExpressionGenerator / SourceGenerator (mako/_ast_util.py) --------------------------------------
    "C19-binop-symbols-missing": dict(flags=["pow", "matmul"], expr=[
        "ia ** 2", "2 ** ib", "-ia ** 2", "(-ia) ** 2", "ma @ mb"]),
    "C19-ifexp-unparenthesised": dict(flags=["ifexp_tight"], expr=[
        "(1 if ba else 2) + 3", "(ia if ba else ib) * 2", "(la if ba else lb)[0]", "(sa if ba else sb).upper()",
        "(ia if ba else ib) if ib else ic", "[c1 for c1 in (la if ba else lb)]", "-(ia if ba else ib)",
        "(fid if ba else fadd)(3)", "(1 if ba else 2) < 3", "[*(la if ba else lb), 0]"]),
    "C19-lambda-unparenthesised": dict(flags=["lambda_tight"], expr=[
        "(lambda: 1)()", "(lambda p1: p1 + 1)(ia)", "fcall((lambda: 1) or fid)",
        "fcall((lambda: 1) if ba else (lambda: 2))", "(lambda: 1).__name__"]),
    "C19-lambda-signature": dict(flags=["lambda_kwonly", "lambda_posonly"], expr=[
        "fcall(lambda *, p1=1: 7)", "fcall(lambda *r1, p1: 7, p1=3)", "fcall(lambda p1, /, p2=2: p2, 1)",
        "fcall(lambda p1, *r1, p2=4, **k1: p1, 1, 2, a=3)"]),
    "C19-fstring": dict(flags=["fstring"], expr=["f'{ia}'", "f'a{sa!r}b'", "f'{ia:>{ib}}'", "f'{ia:04d}'"]),
    "C19-walrus": dict(flags=["walrus"], expr=["(w1 := ia)", "[(w1 := ia), 2]"]),
    "C19-dict-unpack": dict(flags=["dict_unpack"], expr=["{**da}", "{'a': 1, **da}", "{**da, 'z': ia}"]),
    "C19-call-double-star": dict(flags=["call_dstar"], expr=["fpick(**da)", "dict(**da)", "fpick(1, ka=2, **da)"]),
    "C19-attr-on-int-literal": dict(flags=["attr_on_int"], expr=["(1).real", "(7).bit_length()", "(10).imag"]),
    "C19-tuple-slice": dict(flags=["tuple_slice"], expr=["ga[1:2, 3]", "ga[::2, ia]", "ga[ia, 1:]"]),
    # ---- which names are fetched from the context (mako/pyparser.py FindIdentifiers, parsetree, codegen) -------
    "C19-function-params": dict(
        flags=["fn_param_kinds"], expr_positions=["filter-arg", "filter-kwarg"],
        expr=["fcall(lambda *r1: r1, 1)", "fcall(lambda **k1: k1, a=1)"],
        block=["def g1(*r1):\n    return r1\nv1 = g1(1, 2)", "def g1(p1, *, p2=3):\n    return p1 + p2\nv1 = g1(1)",
               "def g1(**k1):\n    return k1\nv1 = g1(a=1)", "def g1(p1, /, p2):\n    return p1 - p2\nv1 = g1(5, 3)",
               "v1 = (lambda *r1, p2=1, **k1: (r1, p2, k1))(7)"]),
    "C19-function-default-names": dict(
        flags=["fn_default_free"], expr_positions=["filter-arg", "filter-kwarg"],
        expr=["fcall(lambda p1=ia: p1)", "fcall(lambda p1=ib + 1, *r1: p1)"],
        block=["def g1(p1=ia):\n    return p1\nv1 = g1()", "v1 = (lambda p1=ia + 1: p1)()"]),
    "C19-comprehension-in-function-names": dict(
        flags=["fn_comp_free"], expr_positions=["filter-arg", "filter-kwarg"],
        expr=["fcall(lambda: [ia for c1 in (1, 2)])", "fcall(lambda: [c1 for c1 in (1, 2) if ba])",
              "fcall(lambda: {sa: ib for c1 in (1,)})"],
        block=["def g1():\n    return [fid(c1) for c1 in la]\nv1 = g1()",
               "def g1():\n    return [c1 for c1 in la if c1 > ia]\nv1 = g1()",
               "def g1():\n    return {sa: ib for c1 in la}\nv1 = g1()"]),
    "C19-function-local-bound-later": dict(
        flags=["fn_late_local"],
        block=["def g1():\n    def g2():\n        return v2\n    v2 = 5\n    return g2()\nv1 = g1()"]),
    "C19-comprehension-var-leaks": dict(
        flags=["comp_var_reuse"],
        block=["v1 = [ia for ia in la]\nv2 = ia", "def g1():\n    v3 = [ia for ia in la]\n    return ia\nv1 = g1()"]),
    "C19-comprehension-var-in-args": dict(
        flags=["comp_strict"], expr_positions=["filter-arg", "def-filter-arg", "text-filter-arg"],
        expr=["[c1 for c1 in (1, 2)]", "sum(c1 for c1 in la)", "{c1: c2 for c1, c2 in da.items()}"]),
    "C19-filter-arg-escape-name": dict(flags=["escape_names"], expr_positions=["filter-arg", "filter-kwarg"],
                                       expr=["x + 1", "fid(n)", "[h, u]"]),
    "C19-default-before-lookup": dict(flags=["default_hoist"], expr_positions=["def-default", "nested-def-default", "block-arg"],
                                      expr=["len(str(abs(ord('a'))))", "sorted(list(range(3)))", "min(max(1, 2), sum([3]))"]),
    "C19-kwonly-default-names": dict(flags=["pos:nested-kwonly-default"], expr_positions=["nested-kwonly-default"],
                                     expr=["ia + 1", "fid(sa)"]),
}
FEATURE_TO_ID = {fl: fid_ for fid_, f in FINDINGS.items() for fl in f["flags"]}

MAKO_RESERVED = pygram.FORBIDDEN


class Unsupported(Exception):
    """the case cannot be written in this position (quoting) - counted as rejected"""


# ---------------------------------------------------------------------------------------------------------
# part 1: expressions
# ---------------------------------------------------------------------------------------------------------
_uri_counter = itertools.count()


def _uri(tag):
    return "/c19_%d_%s_%d.html" % (os.getpid(), tag, next(_uri_counter))


def _dump(tree):
    return ast.dump(tree, annotate_fields=True, include_attributes=False)


def native_eval(src, envspec):
    env = pygram.build_env(envspec)
    try:
        v = eval(compile(src, "<native>", "eval"), env)
        return ("ok", pygram.canon(v))
    except Exception as e:  # noqa: BLE001 - the exception type is the observation
        return ("exc", type(e).__name__)


def regen_checks(src):
    """Re-emit `src` through the three entry points codegen uses; raise Failure-like tuples.

    -> list of (route, kind, detail) problems; empty when every route reproduces the AST of src."""
    from mako import ast as mast
    from mako import pyparser

    kw = {"source": "", "lineno": 0, "pos": 0, "filename": ""}
    problems = []
    want = _dump(ast.parse(src, mode="eval"))

    def cmp(route, text, ref_src, mode):
        try:
            got = _dump(ast.parse(text, mode=mode))
        except SyntaxError as e:
            problems.append((route, "regen-unparsable", "re-emitted %r is not valid Python (%s)" % (text, e.msg)))
            return
        ref = want if ref_src is None else _dump(ast.parse(ref_src, mode=mode))
        if got != ref:
            problems.append((route, "regen-ast-differs", "re-emitted %r has a different AST" % (text,)))

    # (a) ExpressionGenerator over the parsed text, as test_ast.py uses it
    try:
        text = pyparser.ExpressionGenerator(pyparser.parse(src, "exec", **kw)).value()
    except Exception as e:  # noqa: BLE001
        problems.append(("ExpressionGenerator", "regen-raised:" + type(e).__name__, "%s: %s" % (type(e).__name__, e)))
    else:
        cmp("ExpressionGenerator", text, None, "eval")
    # (b) FunctionDecl.get_argument_expressions: positional and keyword-only defaults
    decl = "def f(a=%s, *r, k=%s):pass" % (src, src)
    try:
        parts = mast.FunctionDecl(decl, **kw).get_argument_expressions()
    except Exception as e:  # noqa: BLE001
        problems.append(("FunctionDecl", "regen-raised:" + type(e).__name__, "%s: %s" % (type(e).__name__, e)))
    else:
        cmp("FunctionDecl", "def f(%s):pass" % ",".join(parts), decl, "exec")
    # (c) ArgumentList (filter calls): positional and keyword argument of a call
    call = "fecho(%s, kw=%s)" % (src, src)
    try:
        args = mast.ArgumentList(call, **kw).args
    except Exception as e:  # noqa: BLE001
        problems.append(("ArgumentList", "regen-raised:" + type(e).__name__, "%s: %s" % (type(e).__name__, e)))
    else:
        if len(args) != 1:
            problems.append(("ArgumentList", "regen-arg-count", "ArgumentList(%r).args = %r" % (call, args)))
        else:
            cmp("ArgumentList", args[0], call, "eval")
    return problems


def _free(table, top):
    out = set()
    for sym in table.get_symbols():
        if top:
            if sym.is_referenced() and not sym.is_assigned() and not sym.is_imported() and not sym.is_parameter():
                out.add(sym.get_name())
        elif sym.is_global():
            out.add(sym.get_name())
    for ch in table.get_children():
        out |= _free(ch, False)
    return out


def free_names_expr(src):
    """names an expression reads without binding them (CPython's own scope analysis)"""
    return _free(symtable.symtable(src, "<expr>", "eval"), True)


def free_names_block(block):
    """names the block reads without binding when it is the body of a function"""
    code = "def __f():\n" + "".join("    " + ln + "\n" for ln in block.split("\n"))
    top = symtable.symtable(code, "<block>", "exec")
    return _free(top.get_children()[0], False)


BUILTIN_NAMES = set(dir(__import__("builtins")))


def hoisted_names(position, src, envspec):
    """names of src that the generated render function fetches from the context (render-time lookups)"""
    free = free_names_expr(src)
    if position in MODULE_ENV:
        return free - set(envspec) - set(pygram.HELPERS)
    return free


def _quote_attr(text):
    if '"' not in text:
        return '"%s"' % text
    if "'" not in text:
        return "'%s'" % text
    raise Unsupported("both quote kinds in an attribute value")


def _module_env_block(names):
    lines = ["<%!", "from vf.gen.pygram import CUR as e_"]
    for nm in sorted(names):
        lines.append("%s = e_[%r]" % (nm, nm))
    lines.append("%>")
    return "\n".join(lines) + "\n"


POSITIONS = ["def-default", "def-kwonly-default", "nested-def-default", "nested-kwonly-default", "block-arg", "page-arg",
             "filter-arg", "filter-kwarg", "def-filter-arg", "text-filter-arg"]
MODULE_ENV = {"def-default", "def-kwonly-default", "block-arg", "page-arg"}


def template_for(position, src, names):
    """-> (template text, 'module' | 'context')"""
    if "$" in src or "%>" in src or "</%" in src:
        raise Unsupported("characters with a template-level meaning")
    if position == "def-default":
        return _module_env_block(names) + "<%%def name=%s>${rec_(a)}</%%def>${f()}" % _quote_attr("f(a=%s)" % src)
    if position == "def-kwonly-default":
        return _module_env_block(names) + "<%%def name=%s>${rec_(a)}</%%def>${f()}" % _quote_attr("f(*r, a=%s)" % src)
    if position == "nested-def-default":
        return '<%%def name="o()"><%%def name=%s>${rec_(a)}</%%def>${f()}</%%def>${o()}' % _quote_attr("f(a=%s)" % src)
    if position == "nested-kwonly-default":
        return '<%%def name="o()"><%%def name=%s>${rec_(a)}</%%def>${f()}</%%def>${o()}' % _quote_attr("f(*r, a=%s)" % src)
    if position == "block-arg":
        # a named block with args is always called by the body with the page argument of the same name; its own
        # default is used when it is called through the namespace: the last observation is the default
        return (_module_env_block(names) + '<%%page args="a=None"/><%%block name="b" args=%s>${rec_(a)}</%%block>${self.b()}'
                % _quote_attr("a=%s" % src))
    if position == "page-arg":
        return _module_env_block(names) + "<%%page args=%s/>${rec_(a)}" % _quote_attr("a=%s" % src)
    if position == "filter-arg":
        return "${0 | fecho(%s)}" % src
    if position == "filter-kwarg":
        return "${0 | fecho(kw=%s)}" % src
    if position == "def-filter-arg":
        return '<%%def name="f()" filter=%s>t</%%def>${f()}' % _quote_attr("fecho(%s)" % src)
    if position == "text-filter-arg":
        return "<%%text filter=%s>t</%%text>" % _quote_attr("fecho(%s)" % src)
    raise AssertionError(position)


def render_position(position, src, envspec, strict=True):
    """Evaluate src through a template -> ('ok', canon) | ('exc', type name, message)"""
    from mako.template import Template

    text = template_for(position, src, set(envspec) | (set(pygram.HELPERS) & free_names_expr(src)))
    box = []

    def rec_(v):
        box.append(v)
        return ""

    def fecho(*a, **k):
        box.append(a[0] if a else k["kw"])
        return lambda v: ""

    env = pygram.build_env(envspec)
    ctx = {"rec_": rec_, "fecho": fecho}
    if position in MODULE_ENV:
        pygram.CUR.clear()
        pygram.CUR.update(env)
    else:
        ctx.update(env)
    try:
        t = Template(text, uri=_uri("e"), strict_undefined=strict)
        t.render_unicode(**ctx)
    except Exception as e:  # noqa: BLE001
        return ("exc", type(e).__name__, str(e)[:200]), text
    finally:
        pygram.CUR.clear()
    if len(box) != (2 if position == "block-arg" else 1):
        return ("exc", "<no value observed>", "rec_/fecho called %d times" % len(box)), text
    return ("ok", pygram.canon(box[-1])), text


def check_expr(src, envspec, positions, direct=True, finding=None, strict=True):
    """Oracle of part 1.  Raises Failure.  `finding` forces the key (probes)."""
    case = {"part": "expr", "src": src, "env": envspec, "positions": list(positions), "direct": direct, "strict": strict}
    if finding:
        case["finding"] = finding

    def fail(kind, detail):
        raise Failure(case, "expression %r: %s" % (src, detail), finding or ("p1:" + kind))

    if direct:
        for route, kind, detail in regen_checks(src):
            fail(kind, "%s %s" % (route, detail))
    if positions:
        want = native_eval(src, envspec)
        for pos in positions:
            got, text = render_position(pos, src, envspec, strict)
            if got[:2] != want[:2]:
                fail("value:" + ("raised:" + got[1] if got[0] == "exc" else "differs"),
                     "as %s (strict_undefined=%s): native eval gives %r, template %r gives %r" % (pos, strict, want, text, got))


def expr_labels(src):
    tree = ast.parse(src, mode="eval")
    feats = pygram.features(tree)
    kinds = pygram.node_kinds(tree)
    return feats, kinds


def applicable_positions(positions, src):
    out = []
    for p in positions:
        try:
            template_for(p, src, ())
            out.append(p)
        except Unsupported:
            pass
    return out


# ---- probes -------------------------------------------------------------------------------------------
def run_probes(part):
    """-> (disabled flags, [Failure per failing finding], {id: failing probe count})"""
    disabled = set()
    fails = []
    counts = {}
    for fid_, f in FINDINGS.items():
        probes = f.get(part, [])
        if not probes:
            continue
        bad = []
        for probe in probes:
            try:
                if part == "expr":
                    names = {n.id for n in ast.walk(ast.parse(probe)) if isinstance(n, ast.Name)}
                    spec = {k: v for k, v in E.items() if k in names}
                    pos = f.get("expr_positions") or applicable_positions(
                        [p for p in POSITIONS if p != "nested-kwonly-default"], probe)
                    check_expr(probe, spec, pos, direct="expr_positions" not in f, finding=fid_)
                else:
                    PROBE_RUNNERS[part](probe, fid_)
            except Failure as e:
                bad.append(e)
        if bad:
            disabled.update(f["flags"])
            counts[fid_] = len(bad)
            first = bad[0]
            first.detail = "[%d of %d probes of this construct fail] %s" % (len(bad), len(probes), first.detail)
            fails.append(first)
    return disabled, fails, counts


PROBE_RUNNERS = {}


# ---- shards -------------------------------------------------------------------------------------------
def expr_strategy(flags):
    from hypothesis import strategies as st

    pos_ok = [p for p in POSITIONS if ("pos:" + p) not in FLAG_OFF_POSITIONS or ("pos:" + p) in flags]
    return st.tuples(pygram.expressions(flags=flags), st.integers(0, 3),
                     st.lists(st.sampled_from(pos_ok), min_size=2, max_size=3, unique=True), st.booleans())


FLAG_OFF_POSITIONS = {"pos:nested-kwonly-default", "default_hoist", "comp_strict"}
STUB_POSITIONS = {"def-default", "def-kwonly-default", "block-arg", "nested-def-default", "nested-kwonly-default"}


def shard_expr(task):
    seed, n, flags, known_ids, every = task
    core.setup_repo()
    warnings.simplefilter("ignore")
    ev = core.Evidence()
    flags = frozenset(flags)

    def check(c):
        case, sel, positions, strict = c
        src = case.src
        feats, kinds = expr_labels(src)
        render = sel % every == 0
        pos = applicable_positions(positions, src) if render else []
        if render and len(pos) < len(positions):
            ev.rejected += len(positions) - len(pos)
        if "default_hoist" not in flags:
            # a default that reads a name fetched from the context at render time is the separate finding
            # C19-default-before-lookup: keep those (position, expression) pairs out of this campaign
            keep = [p for p in pos if p not in STUB_POSITIONS or not hoisted_names(p, src, case.envspec)]
            ev.excluded_known["C19-default-before-lookup"] += len(pos) - len(keep)
            pos = keep
        has_comp = bool(kinds & {"ListComp", "SetComp", "DictComp", "GeneratorExp"})
        if has_comp and strict and pos and "comp_strict" not in flags:
            # comprehension variables are demanded from the context (finding C19-comprehension-var-in-args): harmless
            # without strict_undefined, so the values are still compared there
            strict = False
            ev.excluded_known["C19-comprehension-var-in-args"] += 1
        if "escape_names" in feats and "escape_names" not in flags:
            raise AssertionError("generator produced a disabled construct")
        labels = ["n:" + k for k in sorted(kinds)] + ["f:" + f for f in sorted(feats)] + ["pos:" + p for p in pos]
        nt = bool(feats & pygram.PRECEDENCE_FEATURES)
        labels.append("strict" if strict else "non-strict")
        ev.case(key=(src, pos), nontrivial=nt, labels=labels)
        if nt and 30 < len(src) < 160:
            ev.sample({"part": "expr", "src": src, "env": case.envspec, "positions": pos}, "expr%d" % (len(ev.samples)))
        try:
            check_expr(src, case.envspec, pos, strict=strict)
        except Failure as f:
            if has_comp and strict and pos:
                f.info["kid0"] = "C19-comprehension-var-in-args"
            hit = sorted(FEATURE_TO_ID[x] for x in feats if x in FEATURE_TO_ID)
            for p in pos:
                if "pos:" + p in FEATURE_TO_ID:
                    hit.append(FEATURE_TO_ID["pos:" + p])
                if p in STUB_POSITIONS and hoisted_names(p, src, case.envspec):
                    hit.append("C19-default-before-lookup")
            if f.info.get("kid0"):
                hit.append(f.info["kid0"])
            f.info["kid"] = next((h for h in hit if h in known_ids), None)
            raise

    fails, found = core.hyp_search(expr_strategy(flags), check, ev, seed, n, classify=lambda f: f.info.get("kid"),
                                   known={k: 1 for k in known_ids})
    return ev, fails


def run_expr(ctx):
    disabled, fails, counts = run_probes("expr")
    for f in fails:
        ctx.fail(f)
    for k, v in counts.items():
        ctx.ev.excluded_known[k] += v
    ctx.ev.notes["expr_flags_off"] = sorted(disabled)
    flags = sorted(pygram.ALL_FLAGS | FLAG_OFF_POSITIONS - set(disabled))
    flags = sorted((set(pygram.ALL_FLAGS) | FLAG_OFF_POSITIONS) - set(disabled))
    n = ctx.pick(190, 9000)
    # behind-the-findings campaign: the constructs with failing probes are not generated
    ctx.pmap(shard_expr, [(ctx.shard_seed(i, "expr"), n, flags, [], ctx.pick(2, 5)) for i in range(16)])
    # full-grammar campaign: failures on a case containing a construct with failing probes are counted, not reported
    if disabled:
        allf = sorted(set(pygram.ALL_FLAGS) | FLAG_OFF_POSITIONS)
        ctx.pmap(shard_expr, [(ctx.shard_seed(i, "exprfull"), ctx.pick(40, 1500), allf, sorted(counts), ctx.pick(2, 5))
                              for i in range(16)])


# ---------------------------------------------------------------------------------------------------------
# part 2: statement blocks - which names are taken from the context, and final values
# ---------------------------------------------------------------------------------------------------------
def native_block(block, outs, env):
    code = "def __f():\n" + "".join("    " + ln + "\n" for ln in block.split("\n"))
    code += "    return (%s)\n" % "".join(o + ", " for o in outs)
    g = dict(env)
    try:
        exec(compile(code, "<native block>", "exec"), g)
        return ("ok", pygram.canon(g["__f"]()))
    except Exception as e:  # noqa: BLE001
        return ("exc", type(e).__name__)


def render_block(t, outs_box, ctx):
    del outs_box[:]
    try:
        t.render_unicode(**ctx)
    except Exception as e:  # noqa: BLE001
        return ("exc", type(e).__name__, str(e)[:200])
    if len(outs_box) != 1:
        return ("exc", "<no value observed>", "rec_ called %d times" % len(outs_box))
    return ("ok", pygram.canon(outs_box[0]))


def check_block(block, envspec, outs, finding=None, max_removed=4):
    """Oracle of part 2.  Raises Failure."""
    import re
    from mako.template import Template

    case = {"part": "block", "src": block, "env": envspec, "outs": list(outs)}
    if finding:
        case["finding"] = finding

    def fail(kind, detail):
        raise Failure(case, "block\n%s\n-- %s" % (block, detail), finding or ("p2:" + kind))

    free = free_names_block(block)
    need = sorted(free - BUILTIN_NAMES)
    env0 = pygram.build_env(envspec)
    missing = [nm for nm in need if nm not in env0]
    if missing:
        raise core.HarnessError("generated block reads %r for which the environment has no value:\n%s" % (missing, block))
    text = "<%%\n%s\n%%>${rec_((%s))}" % (block, "".join(o + ", " for o in outs))
    box = []

    def rec_(v):
        box.append(v)
        return ""

    try:
        t = Template(text, uri=_uri("b"), strict_undefined=True)
    except Exception as e:  # noqa: BLE001
        fail("compile-raised:" + type(e).__name__, "Template() raised %s: %s" % (type(e).__name__, str(e)[:300]))
    want = native_block(block, outs, {k: v for k, v in pygram.build_env(envspec).items() if k in need})
    env = pygram.build_env(envspec)
    got = render_block(t, box, dict({k: env[k] for k in need}, rec_=rec_))
    if got[0] == "exc" and got[1] == "NameError" and want[:2] != ("exc", "NameError"):
        fail("nameerror-with-all-free-names",
             "CPython says the block reads without binding exactly %r; rendered under strict_undefined with exactly those "
             "names: %r (native result %r)" % (need, got, want))
    if got[:2] != want[:2]:
        fail("value:" + ("raised:" + got[1] if got[0] == "exc" else "differs"),
             "with context %r: native exec gives %r, template gives %r" % (need, want, got))
    for nm in need[:max_removed]:
        env = pygram.build_env(envspec)
        got = render_block(t, box, dict({k: env[k] for k in need if k != nm}, rec_=rec_))
        if not (got[0] == "exc" and got[1] == "NameError" and re.search(r"(?<![A-Za-z0-9_])%s(?![A-Za-z0-9_])" % re.escape(nm), got[2])):
            fail("missing-name-not-reported",
                 "the block reads %r; rendered under strict_undefined without it: expected NameError naming it, got %r" % (nm, got))
    return need


def _probe_block(probe, fid_):
    names = {n.id for n in ast.walk(ast.parse(probe)) if isinstance(n, ast.Name)}
    spec = {k: v for k, v in E.items() if k in names}
    outs = sorted({n.id for n in ast.parse(probe).body if False} | {t.id for st_ in ast.parse(probe).body if isinstance(st_, ast.Assign)
                                                                    for t in st_.targets if isinstance(t, ast.Name)})
    check_block(probe, spec, outs, finding=fid_)


PROBE_RUNNERS["block"] = _probe_block

PARAM_FEATS = {"def_kwonly", "def_posonly", "def_vararg", "def_kwarg", "lambda_kwonly", "lambda_posonly", "lambda_vararg",
               "lambda_kwarg"}


def block_labels(src):
    tree = ast.parse(src)
    feats = pygram.features(tree)
    kinds = pygram.node_kinds(tree)
    in_fn = set()
    for fn in ast.walk(tree):
        if isinstance(fn, (ast.FunctionDef, ast.Lambda)):
            for sub in ast.walk(fn):
                if sub is fn:
                    continue
                if isinstance(sub, (ast.ListComp, ast.SetComp, ast.DictComp, ast.GeneratorExp)):
                    in_fn.add("comp_in_fn")
                if isinstance(sub, ast.Lambda):
                    in_fn.add("lambda_in_fn")
                if isinstance(sub, ast.FunctionDef):
                    in_fn.add("nested_fn")
    return feats, kinds, in_fn


def shard_block(task):
    seed, n, flags, known_ids = task
    core.setup_repo()
    warnings.simplefilter("ignore")
    ev = core.Evidence()
    flags = frozenset(flags)

    def check(c):
        feats, kinds, in_fn = block_labels(c.src)
        nt = bool(feats & PARAM_FEATS) or bool(in_fn)
        labels = ["s:" + k for k in sorted(kinds) if k in STMT_KINDS] + ["par:" + f for f in sorted(feats & PARAM_FEATS)] + \
                 ["b:" + f for f in sorted(in_fn)] + ["b:" + f for f in c.feats if not f.startswith("par:")]
        ev.case(key=c.src, nontrivial=nt, labels=labels)
        if nt and 3 < c.src.count("\n") < 14:
            ev.sample({"part": "block", "src": c.src, "env": c.envspec, "outs": c.outs}, "block%d" % min(len(ev.samples), 1))
        try:
            need = check_block(c.src, c.envspec, c.outs)
            ev.label("b:free-names=%d" % min(len(need), 6))
        except Failure as f:
            hit = []
            if feats & PARAM_FEATS:
                hit.append("C19-function-params")
            if "param_default" in feats:
                hit.append("C19-function-default-names")
            if "comp_in_fn" in in_fn:
                hit.append("C19-comprehension-in-function-names")
            if "late_local" in c.feats:
                hit.append("C19-function-local-bound-later")
            if kinds & {"ListComp", "SetComp", "DictComp", "GeneratorExp"}:
                hit.append("C19-comprehension-var-leaks")
            f.info["kid"] = next((h for h in hit if h in known_ids), None)
            raise

    fails, found = core.hyp_search(pygram.blocks(flags=flags), check, ev, seed, n, classify=lambda f: f.info.get("kid"),
                                   known={k: 1 for k in known_ids})
    return ev, fails


STMT_KINDS = {"Assign", "AugAssign", "For", "While", "If", "Try", "With", "Import", "ImportFrom", "FunctionDef", "Lambda",
              "Delete", "Nonlocal", "Return", "Break", "Continue", "ListComp", "SetComp", "DictComp", "GeneratorExp",
              "NamedExpr", "Expr", "Pass"}


def run_block(ctx):
    disabled, fails, counts = run_probes("block")
    # the same generator flags are switched off by failing expression-side probes of these findings
    d2, _, _ = run_probes("expr")
    for f in fails:
        ctx.fail(f)
    for k, v in counts.items():
        ctx.ev.excluded_known[k] += v
    off = set(disabled) | (set(d2) & set(pygram.STMT_FLAGS))
    ctx.ev.notes["block_flags_off"] = sorted(off)
    flags = sorted(set(pygram.ALL_FLAGS) - off - {"escape_names"})
    n = ctx.pick(45, 1900)
    ctx.pmap(shard_block, [(ctx.shard_seed(i, "block"), n, flags, []) for i in range(16)])
    if off:
        ctx.pmap(shard_block, [(ctx.shard_seed(i, "blockfull"), ctx.pick(8, 300), sorted(pygram.ALL_FLAGS - {"escape_names"}),
                                sorted(FINDINGS)) for i in range(16)])


# ---------------------------------------------------------------------------------------------------------
def run(ctx):
    part = getattr(ctx, "part", None)
    if part in (None, "expr"):
        run_expr(ctx)
    if part in (None, "block"):
        run_block(ctx)
    ctx.ev.notes["labels_all"] = dict(ctx.ev.labels)


def classify(f):
    return f.key if f.key in FINDINGS else None


def replay(case):
    core.setup_repo()
    warnings.simplefilter("ignore")
    try:
        if case["part"] == "expr":
            check_expr(case["src"], case["env"], case["positions"], direct=case.get("direct", True),
                       finding=case.get("finding"), strict=case.get("strict", True))
        elif case["part"] == "block":
            check_block(case["src"], case["env"], case["outs"], finding=case.get("finding"))
    except Failure as f:
        return f
    return None

"""C17 - cached sections run once per key and replay their exact output.

Domain : histories (<=30 ops) of {render(ctx), invalidate_body, invalidate_def, invalidate_closure, invalidate(k),
         cache.set, cache.get, toggle cache_enabled} over 1..3 generated templates that share one backend; page /
         top-level defs / nested defs / named blocks / anonymous blocks carry cached="True" in arbitrary combination
         with cache_key expressions over arguments and context, cache_* arguments at Template / <%page> / section
         level, buffered and filter flags.  Backends: recording dict CacheImpl (pass_context off/on), Beaker memory,
         Beaker file/dbm, dogpile.cache.
Oracle : reference model independent of mako.cache/codegen.  Every cached section body is
         "[[S<tid>.<sid>|<key text>]]<% tick(id) %> ... [[E<tid>.<sid>]]".  The same text compiled as a second Template
         with cache_enabled=False gives the uncached output for the current context; it is parsed by sentinels into a
         tree.  The model keeps key -> content per template; walking the tree it substitutes stored content for
         instances whose key is present (their ticks must not occur), stores the content of the others (their tick
         must occur exactly once, in order).  Expected output, tick log, backend call sequence and backend kwargs
         follow.  Case = plain data (template texts + section table + concrete op list + backend name).
"""
import itertools
import os
import re
import signal
import time

from vf import core
from vf.core import Failure

PID = "C17"
LEVEL = "exploration"
RULE = (
    "case = (backend, 1..3 generated templates with URIs, op list of 2..30 ops) drawn by hypothesis; templates: optional "
    "<%page> (cached / cache_key over a page argument and context / cache_* args), 0..3 top-level defs with signatures "
    "() (a) (a, b='k') (*args, **kw) calling later defs, nested defs (depth<=2), named and anonymous blocks, each "
    "independently cached, with cache_key='<literal>_${arg or context var}' or the default key, own cache_* args drawn "
    "from a 3-5 name pool shared by the three levels, buffered, filter in {h, fb (non-idempotent), trim}; Template "
    "buffer_filters; a history renders every template once, then runs 2..20 groups (op | op+render | disable+render+"
    "enable) cut at 30 ops; ops pick their def/key operands from the keys currently held by the model and the section "
    "table. "
    "non-trivial = (two enabled renders of one template with different contexts around an invalidation that removed a "
    "present key) or (a cached instance created inside a cached instance being created, plus a later replay) or "
    "(>=2 templates rendered through the shared backend, plus a replay); distinct by fingerprint of (backend, URIs, "
    "template texts, concrete op list)."
)
ASSUMPTIONS = [
    "the uncached reference is the same template text compiled as a second Template with cache_enabled=False; its own "
    "tick log must cover every sentinel pair (checked), so a broken reference is reported, not trusted",
    "a top-level def is only called from sites with no enclosing filter/buffer_filters, so a key is always rendered "
    "under the same ambient filter stack; sections sharing a key must have identical effective cache arguments and "
    "ambient filters, and no Template buffer_filters may be involved (a cached+buffered top-level def applies them "
    "after the cache, a nested one not at all), otherwise the case is rejected (statement silent)",
    "an instance whose key equals the key of an enclosing instance being created is rejected (re-entrant "
    "get_or_create is backend defined; Beaker and dogpile hold a per-key lock)",
    "dogpile.cache's Mako plugin (third party) does not namespace keys by template, so with dogpile every template "
    "gets its own regions; cross-template isolation is checked on the recording backend and Beaker only",
    "dogpile's plugin has no set(); such ops count as rejected.  cache.get of a key the model does not hold only has "
    "to yield no string (KeyError / None / NO_VALUE are all accepted)",
    "expiry is out of scope: timeouts are >= 3600 s for real backends; only int conversion is checked",
    "cache_* attribute values are literals (arguments are frozen per def on first use, the statement is silent about "
    "values that change between renders); buffered blocks are not generated (their output is discarded by design)",
    "invalidate(k)/get/set are called with the owning section's cache arguments, as Cache.invalidate documents "
    "('requests that use the same series of configuration values will use that same backend')",
]

BACKENDS = ["rec", "rec_ctx", "beaker_memory", "beaker_file", "dogpile"]
VALS = ["a", "b", "c"]
WVALS = ["w&1", "<w2>", "w~3", "w4"]
TEXTS = ["lit", "x&y", "<i>", "~z", " ", ".", "q1 "]
FILTER_DEF = ("<%!\n    fb = lambda s: s.replace('~', '~~')\n    def dc(fn):\n        def wrapped(context, *a, **k):\n            context.write('{')\n"
              "            fn(*a, **k)\n            context.write('}')\n            return ''\n        return wrapped\n%>")

CASE_WALL_LIMIT_S = 60

KEY_COLLISION = "cross-template-cache-collision"
KEY_BEAKER_SET = "beaker-set-not-implemented"
KEY_EARLY_INV = "early-invalidate-freezes-args"
KEY_NESTED_BUF = "nested-cached-buffered-def-written"
KNOWN_IDS = {
    KEY_NESTED_BUF: "C17-nested-cached-buffered-written",
    KEY_COLLISION: "C17-module-id-collision",
    KEY_BEAKER_SET: "C17-beaker-set-unimplemented",
    KEY_EARLY_INV: "C17-early-invalidate-freezes-args",
}

S_RE = re.compile(r"\[\[S(\d+)\.(\d+)\|([^\]|]*)\]\]|\[\[E(\d+)\.(\d+)\]\]")


class Reject(Exception):
    """The generated case left the domain the statement speaks about."""


# =====================================================================================
# IR -> template text + section table
# =====================================================================================
SIG_DECL = {"": "", "a": "a", "ab": "a, b='k'", "star": "*args, **kw", "kwo": "a, *rest, b='k'", "kwr": "a, *rest, b", "pos": "a, /, b='k'"}
SIG_SCOPE = {"": [], "a": ["a"], "ab": ["a", "b"], "star": ["args[0]", "kw['b']"], "kwo": ["a", "b", "str(len(rest))"], "kwr": ["a", "b", "str(len(rest))"], "pos": ["a", "b"]}


def _argtext(a):
    kind, v = a
    if kind == "lit":
        return repr(v)
    return v  # var name or parameter expression


def _keytext(parts):
    out = []
    for kind, v in parts:
        if kind == "lit":
            out.append(v)
        elif kind == "parg":
            out.append("${pa}")
        else:
            out.append("${%s}" % v)
    return "_".join(out)


def _int_timeout(args):
    out = dict(args)
    if "timeout" in out:
        out["timeout"] = int(out["timeout"])
    return out


class Emitter:
    """Writes one template IR as Mako source and builds the section table used by the model."""

    def __init__(self, T):
        self.T = T
        self.tid = T["tid"]
        self.buf = []
        self.line = 1
        self.sections = {}
        self.nsid = 0
        self.bf = bool(T.get("buffer_filters"))

    def w(self, s):
        self.buf.append(s)
        self.line += s.count("\n")

    def attrs(self, sec):
        s = ""
        if sec["cached"]:
            s += ' cached="True"'
        elif sec.get("explicit_false"):
            s += ' cached="False"'
        if sec.get("key"):
            s += ' cache_key="%s"' % _keytext(sec["key"])
        for name in sorted(sec.get("args") or {}):
            s += ' cache_%s="%s"' % (name, sec["args"][name])
        if sec.get("buffered"):
            s += ' buffered="True"'
        if sec.get("filter"):
            s += ' filter="%s"' % sec["filter"]
        if sec.get("decorator"):
            s += ' decorator="dc"'
        return s

    def open_section(self, sec, kind, defname, ambient):
        sid = self.nsid
        self.nsid += 1
        meta = {
            "sid": sid, "kind": kind, "name": sec.get("name") or defname, "defname": defname,
            "cached": bool(sec["cached"]), "custom_key": bool(sec.get("key")),
            "keylit": next((v for k, v in (sec.get("key") or []) if k == "lit"), None),
            "args": dict(sec.get("args") or {}), "buffered": bool(sec.get("buffered")),
            "filter": sec.get("filter"), "ambient": list(ambient),
        }
        self.sections[str(sid)] = meta
        if sec["cached"]:
            keytext = _keytext(sec["key"]) if sec.get("key") else defname
            self.w("[[S%d.%d|%s]]<%% tick('%d.%d') %%>" % (self.tid, sid, keytext, self.tid, sid))
        return sid

    def close_section(self, sec, sid):
        if sec["cached"]:
            self.w("[[E%d.%d]]" % (self.tid, sid))

    def inner_ambient(self, sec, ambient):
        amb = list(ambient)
        if sec.get("filter"):
            amb.append(sec["filter"])
        if sec.get("buffered") and self.bf:
            amb.append("BF")
        return amb

    def items(self, items, ambient):
        for it in items:
            k = it[0]
            if k == "t":
                self.w(it[1])
            elif k == "v":
                self.w("${%s}" % it[1])
            elif k == "call":
                _, name, args, kwargs = it
                parts = [_argtext(a) for a in args] + ["%s=%s" % (n, _argtext(kwargs[n])) for n in sorted(kwargs)]
                self.w("${%s(%s)}" % (name, ", ".join(parts)))
            elif k in ("def", "ndef"):
                sec = it[1]
                self.w('<%%def name="%s(%s)"%s>' % (sec["name"], SIG_DECL[sec["sig"]], self.attrs(sec)))
                defname = ("render_" + sec["name"]) if k == "def" else sec["name"]
                # a nested def that is only called from inside a later filtered block runs under that block's filter
                amb = list(ambient) + list(sec.get("call_ambient") or [])
                sid = self.open_section(sec, k, defname, amb)
                self.items(sec["body"], self.inner_ambient(sec, amb))
                self.close_section(sec, sid)
                self.w("</%def>")
            elif k == "block":
                sec = it[1]
                self.w('<%%block name="%s"%s>' % (sec["name"], self.attrs(sec)))
                sid = self.open_section(sec, k, "render_" + sec["name"], ambient)
                self.items(sec["body"], self.inner_ambient(sec, ambient))
                self.close_section(sec, sid)
                self.w("</%block>")
            elif k == "ablock":
                sec = it[1]
                if not "".join(self.buf[-1:]).endswith("\n"):
                    self.w("\n")
                defname = "__M_anon_%d" % self.line
                self.w("<%%block%s>" % self.attrs(sec))
                sid = self.open_section(sec, k, defname, ambient)
                self.items(sec["body"], self.inner_ambient(sec, ambient))
                self.close_section(sec, sid)
                self.w("</%block>\n")
            else:
                raise core.HarnessError("unknown item %r" % (it,))

    def emit(self):
        T = self.T
        self.w(FILTER_DEF)
        page = T.get("page")
        psec = {"cached": False}
        if page:
            psec = {"cached": page["cached"], "key": page.get("key"), "args": page.get("args") or {},
                    "explicit_false": page.get("explicit_false")}
            self.w("<%page" + (' args="pa=\'q\'"' if page.get("pargs") else "") + self.attrs(psec) + "/>")
        sid = self.open_section(psec, "page", "render_body", [])
        self.items(T["body"], [])
        self.close_section(psec, sid)
        return {
            "tid": self.tid, "uri": T["uri"], "text": "".join(self.buf), "cache_args": dict(T.get("cache_args") or {}),
            "buffer_filters": list(T.get("buffer_filters") or []),
            "page_args": dict((page or {}).get("args") or {}), "sections": self.sections,
        }


def build_case(ir):
    return {"backend": ir["backend"], "templates": [Emitter(T).emit() for T in ir["templates"]], "ops": ir["ops"]}


# =====================================================================================
# hypothesis strategies (IR + abstract ops)
# =====================================================================================
ARG_POOL = {
    "rec": {"type": ["tm", "tf"], "region": ["r1", "r2"], "foo": ["x1", "x2"], "timeout": ["30", "45"], "dir": ["/p", "/q"]},
    "beaker_memory": {"timeout": ["3600", "7200"], "type": ["memory"]},
    "beaker_file": {"type": ["memory", "file", "dbm"], "dir": ["$TMP/d1", "$TMP/d2"], "timeout": ["3600", "7200"]},
    "dogpile": {"region": ["r0", "r1"], "timeout": ["3600", "7200"]},
}
ARG_POOL["rec_ctx"] = ARG_POOL["rec"]

URI_COLLIDE = ["/a-b.html", "/a_b.html", "/a.b.html", "/a b.html", "/a/b.html"]
URI_PLAIN = ["/a-b.html", "/c.html", "/d/e.html", "/f_g.html", "/h.i.txt"]


def module_id(uri):
    """The shape of the known finding: ids made from URIs by replacing every non-word character."""
    return re.sub(r"\W", "_", uri)


def case_strategy(backends):
    from hypothesis import strategies as st

    val = st.sampled_from(VALS)

    def level_args(backend, p_empty=2):
        pool = ARG_POOL[backend]
        full = st.fixed_dictionaries({}, optional={n: st.sampled_from(v) for n, v in sorted(pool.items())})
        return st.one_of(*([st.just({})] * p_empty + [full]))

    def template_args(draw, backend):
        if backend in ("rec", "rec_ctx"):
            d = draw(level_args(backend, 1))
            if "timeout" in d:
                d["timeout"] = int(d["timeout"]) + 1
            if draw(st.booleans()):
                d["tonly"] = draw(st.sampled_from(["z", 7]))
            return d
        if backend == "beaker_memory":
            return draw(st.sampled_from([{}, {}, {"type": "memory"}, {"timeout": 3600}]))
        if backend == "beaker_file":
            return {"type": draw(st.sampled_from(["file", "file", "dbm", "memory"])), "dir": "$TMP/t"}
        return {"regions": "$REGIONS", "region": "r0"}

    def argexpr(draw, scope):
        choices = [("lit", v) for v in VALS] + [("var", "v0"), ("var", "v1")] + [("par", e) for e in scope]
        return list(draw(st.sampled_from(choices)))

    def call_item(draw, name, sig, scope):
        if sig == "":
            return ["call", name, [], {}]
        if sig == "a":
            return ["call", name, [argexpr(draw, scope)], {}]
        if sig == "ab":
            kw = {"b": argexpr(draw, scope)} if draw(st.booleans()) else {}
            return ["call", name, [argexpr(draw, scope)], kw]
        if sig == "kwr":
            extra = [argexpr(draw, scope) for _ in range(draw(st.integers(0, 2)))]
            return ["call", name, [argexpr(draw, scope)] + extra, {"b": argexpr(draw, scope)}]
        if sig == "pos":
            second = [argexpr(draw, scope)] if draw(st.booleans()) else []
            return ["call", name, [argexpr(draw, scope)] + second, {}]
        if sig == "kwo":
            # a keyword-only parameter with a default behind *rest, given a value of its own or not
            extra = [argexpr(draw, scope) for _ in range(draw(st.integers(0, 2)))]
            kw = {"b": argexpr(draw, scope)} if draw(st.integers(0, 2)) else {}
            return ["call", name, [argexpr(draw, scope)] + extra, kw]
        return ["call", name, [argexpr(draw, scope)], {"b": argexpr(draw, scope)}]

    def gen_key(draw, st_, scope, ctr, tid, pargs=False):
        parts = [["lit", "k%d%d" % (tid, ctr["k"])]]
        ctr["k"] += 1
        dyn = [["var", "v0"], ["var", "v1"]] + [["par", e] for e in scope] + ([["parg", "pa"]] if pargs else [])
        n = draw(st.integers(0, 2))
        for _ in range(n):
            parts.append(draw(st.sampled_from(dyn)))
        if draw(st.integers(0, 7)) == 0 and len(parts) > 1:
            parts = parts[1:]  # pure expression key, as in test_dynamic_key_with_context
        elif ctr["keys"] and draw(st.integers(0, 7)) == 0:
            parts = [list(p) for p in draw(st.sampled_from(ctr["keys"]))]  # share the key of an earlier section
        if all(p[0] in ("lit", "var") for p in parts):
            ctr["keys"].append(parts)
        return parts

    def gen_section(draw, backend, kind, name, env, ctr, tid):
        sig = draw(st.sampled_from(["", "a", "a", "ab", "star", "kwo", "kwr", "pos"])) if kind in ("def", "ndef") else ""
        cached = draw(st.sampled_from([True, True, False]))
        own = SIG_SCOPE[sig]
        if kind in ("def", "block"):
            scope = list(own)
        else:
            scope = [e for e in env["scope"] if e not in own] + own
            if sig == "star":
                scope = [e for e in scope if e not in ("args[0]", "kw['b']")] + own
        sec = {"name": name, "sig": sig, "cached": cached, "key": None, "args": {}, "buffered": False, "filter": None}
        if cached or draw(st.integers(0, 3)) == 0:
            if draw(st.integers(0, 2)) == 0 or (not cached):
                sec["key"] = gen_key(draw, st, scope, ctr, tid)
            sec["args"] = draw(level_args(backend))
        if not cached and (sec["key"] or sec["args"]):
            sec["explicit_false"] = draw(st.booleans())
        if kind in ("def", "ndef"):
            sec["buffered"] = draw(st.sampled_from([False, False, True]))
            # a decorator writing around the call: around the cached section as around the uncached one
            sec["decorator"] = (not sec["buffered"]) and draw(st.integers(0, 5)) == 0
        sec["filter"] = draw(st.sampled_from([None, None, None, "h", "fb", "trim", "h, fb"]))
        clean = env["clean"] and not sec["filter"] and not (sec["buffered"] and env["bf"])
        sec["body"] = gen_items(draw, backend, dict(env, scope=scope, clean=clean, depth=env["depth"] + 1,
                                                     parent=kind), ctr, tid)
        return sec

    def gen_items(draw, backend, env, ctr, tid):
        kinds = ["t", "t", "v"]
        if env["clean"] and env["tops"]:
            kinds += ["call", "call"]
        if env["depth"] < 3 and env["parent"] != "body":
            kinds += ["ndef"]
        if env["depth"] < 3:
            kinds += ["ablock"]
        if env["parent"] in ("body", "block") and env["depth"] < 2:
            kinds += ["block"]
        out = []
        for _ in range(draw(st.integers(1, 4))):
            k = draw(st.sampled_from(kinds))
            if k == "t":
                out.append(["t", draw(st.sampled_from(TEXTS))])
            elif k == "v":
                names = ["v0", "v1", "w"] + env["scope"]
                out.append(["v", draw(st.sampled_from(names))])
            elif k == "call":
                name, sig = draw(st.sampled_from(env["tops"]))
                for _ in range(draw(st.integers(1, 2))):
                    out.append(call_item(draw, name, sig, env["scope"]))
            elif k == "ndef":
                name = "n%d" % ctr["n"]
                ctr["n"] += 1
                if draw(st.integers(0, 2)) == 0:
                    # called only from inside a following anonymous block with a filter: the wrapper of the cached
                    # nested def has to write to the buffer current at the call, not to the declaring callable's
                    f = draw(st.sampled_from(["h", "fb", "h, fb", "trim"]))
                    sec = gen_section(draw, backend, "ndef", name, dict(env, clean=False), ctr, tid)
                    sec["call_ambient"] = [f]
                    out.append(["ndef", sec])
                    blk = {"name": None, "sig": "", "cached": draw(st.booleans()), "key": None, "args": {},
                           "buffered": False, "filter": f, "body": []}
                    if blk["cached"] and draw(st.booleans()):
                        blk["key"] = gen_key(draw, st, env["scope"], ctr, tid)
                    for _ in range(draw(st.integers(1, 2))):
                        blk["body"].append(["t", draw(st.sampled_from(TEXTS))])
                        blk["body"].append(call_item(draw, name, sec["sig"], env["scope"]))
                    out.append(["ablock", blk])
                else:
                    sec = gen_section(draw, backend, "ndef", name, env, ctr, tid)
                    out.append(["ndef", sec])
                    for _ in range(draw(st.integers(1, 2))):
                        out.append(call_item(draw, name, sec["sig"], env["scope"]))
            elif k == "ablock":
                out.append(["ablock", gen_section(draw, backend, "ablock", None, env, ctr, tid)])
            elif k == "block":
                name = "b%d" % ctr["b"]
                ctr["b"] += 1
                out.append(["block", gen_section(draw, backend, "block", name, dict(env, scope=[]), ctr, tid)])
        return out

    def gen_template(draw, backend, tid, uri):
        ctr = {"n": 0, "b": 0, "k": 0, "keys": []}
        T = {"tid": tid, "uri": uri, "cache_args": template_args(draw, backend)}
        T["buffer_filters"] = draw(st.sampled_from([[], [], [], ["fb"], ["h"]]))
        bf = bool(T["buffer_filters"])
        page = None
        if draw(st.integers(0, 2)) > 0:
            page = {"cached": draw(st.booleans()), "pargs": draw(st.booleans()), "key": None,
                    "args": draw(level_args(backend, 1))}
            if page["cached"] and draw(st.booleans()):
                page["key"] = gen_key(draw, st, [], ctr, tid, pargs=page["pargs"])
                ctr["keys"] = [k for k in ctr["keys"] if k is not page["key"]]
            if not page["cached"]:
                page["explicit_false"] = draw(st.booleans())
        T["page"] = page
        ndefs = draw(st.integers(0, 3))
        defs = []
        for i in reversed(range(ndefs)):
            later = [(d["name"], d["sig"]) for d in defs]
            env = {"scope": [], "clean": True, "depth": 0, "parent": "def", "tops": later, "bf": bf}
            defs.insert(0, gen_section(draw, backend, "def", "d%d" % i, env, ctr, tid))
        tops = [(d["name"], d["sig"]) for d in defs]
        env = {"scope": [], "clean": True, "depth": 0, "parent": "body", "tops": tops, "bf": bf}
        body = [["def", d] for d in defs]
        if page and page["pargs"]:
            body.append(["v", "pa"])
        body += gen_items(draw, backend, env, ctr, tid)
        for name, sig in tops:  # every def is called from the body at least once
            for _ in range(draw(st.integers(1, 2))):
                body.append(call_item(draw, name, sig, []))
        T["body"] = body
        return T

    ctx_st = st.fixed_dictionaries({"v0": val, "v1": val, "w": st.sampled_from(WVALS)},
                                   optional={"pa": val})
    sel = st.integers(0, 11)

    def op_st(nt, beaker=False):
        """A group of 1..3 ops on one template: an operation usually followed by a render that observes it."""
        ti = st.integers(0, nt - 1)

        def grp(t):
            render = st.tuples(st.just("render"), st.just(t), ctx_st)
            single = st.one_of(
                st.tuples(st.just("inv_body"), st.just(t)),
                st.tuples(st.just("inv_def"), st.just(t), sel), st.tuples(st.just("inv_def"), st.just(t), sel),
                st.tuples(st.just("inv_closure"), st.just(t), sel),
                st.tuples(st.just("inv"), st.just(t), sel),
                st.tuples(st.just("set"), st.just(t), sel, st.integers(0, 3)),
                st.tuples(st.just("set"), st.just(t), sel, st.integers(0, 3)),
                st.tuples(st.just("get"), st.just(t), sel),
                st.tuples(st.just("enable"), st.just(t), st.booleans()),
            )
            if beaker:
                single = st.one_of(single, single, single, st.tuples(st.just("recompile"), st.just(t)))
            off = st.tuples(st.just("enable"), st.just(t), st.just(False))
            on = st.tuples(st.just("enable"), st.just(t), st.just(True))
            return st.one_of(
                st.tuples(render), st.tuples(render), st.tuples(render),
                st.tuples(single), st.tuples(single),
                st.tuples(single, render), st.tuples(single, render),
                st.tuples(off, render, on),
            )

        return ti.flatmap(grp)

    @st.composite
    def case(draw):
        backend = draw(st.sampled_from(backends))
        nt = draw(st.sampled_from([1, 1, 2, 2, 3]))
        if nt > 1 and backend != "dogpile" and draw(st.integers(0, 6)) == 0:
            uris = draw(st.permutations(URI_COLLIDE))[:nt]
        else:
            uris = draw(st.permutations(URI_PLAIN))[:nt]
        temps = [gen_template(draw, backend, tid, uris[tid]) for tid in range(nt)]
        # every history starts by rendering each template once (in drawn order), then 2..20 op groups; <=30 ops
        first = [("render", ti, draw(ctx_st)) for ti in draw(st.permutations(range(nt)))]
        groups = draw(st.lists(op_st(nt, backend.startswith("beaker")), min_size=2, max_size=20))
        ops = (first + [o for g in groups for o in g])[:30]
        return {"backend": backend, "templates": temps, "ops": [list(o) for o in ops]}

    return case()


# =====================================================================================
# reference model + executor
# =====================================================================================
class Node:
    __slots__ = ("tid", "sid", "key", "start", "end", "children")

    def __init__(self, tid, sid, key, start):
        self.tid, self.sid, self.key, self.start = tid, sid, key, start
        self.end = None
        self.children = []


def parse_tree(text):
    """Sentinel structure of an uncached render -> list of top nodes.  Raises ValueError when unbalanced."""
    top, stack = [], []
    for m in S_RE.finditer(text):
        if m.group(1) is not None:
            n = Node(int(m.group(1)), int(m.group(2)), m.group(3), m.start())
            (stack[-1].children if stack else top).append(n)
            stack.append(n)
        else:
            if not stack or (stack[-1].tid, stack[-1].sid) != (int(m.group(4)), int(m.group(5))):
                raise ValueError("unbalanced sentinel %s at %d" % (m.group(0), m.start()))
            stack.pop().end = m.end()
    if stack:
        raise ValueError("unclosed sentinel S%d.%d" % (stack[-1].tid, stack[-1].sid))
    return top


def preorder(nodes):
    for n in nodes:
        yield n
        yield from preorder(n.children)


_uniq = itertools.count()
_registered = []


def _register():
    if not _registered:
        from mako.cache import register_plugin

        register_plugin("vf17rec", "vf.gen.c17_backend", "RecImpl")
        register_plugin("vf17recctx", "vf.gen.c17_backend", "RecCtxImpl")
        _registered.append(1)


class TState:
    def __init__(self, rec):
        self.rec = rec
        self.tid = rec["tid"]
        self.sections = {int(k): v for k, v in rec["sections"].items()}
        self.page_args = rec.get("page_args") or {}
        self.store = {}      # key -> (content, origin sid | "set")
        self.frozen = set()  # defnames whose backend arguments were fixed by a first use
        self.enabled = True
        self.log = []
        self.ref_log = []
        self.by_defname = {s["defname"]: s for s in self.sections.values() if s["cached"]}
        self.renders = []    # (ctx fingerprint, effective-invalidation counter) of enabled renders

    def eff_args(self, sec):
        """<%page> cache_* overridden by the section's own, timeout as int (model of the statement)."""
        d = dict(self.page_args)
        if sec["kind"] != "page":
            d.update(sec["args"])
        return _int_timeout(d)

    def share_class(self, sec):
        """Two different sections may serve each other's entries only inside one class (else the case is rejected).

        Where Template buffer_filters are involved (a buffered section, or anything inside one) the text that
        reaches the output is the stored content plus post-processing that depends on the kind of section, and the
        statement says nothing about entries moving between such sections: those never share."""
        if self.rec["buffer_filters"] and (sec["buffered"] or "BF" in sec["ambient"]):
            return ("solo", sec["sid"])
        return (tuple(sec["ambient"]), tuple(sorted((k, str(v)) for k, v in self.eff_args(sec).items())))

    def owner_args(self, key):
        """Arguments a caller passes to reach the backend partition that holds `key`."""
        ent = self.store.get(key)
        if ent is not None and ent[1] != "set":
            return self.eff_args(self.sections[ent[1]])
        if ent is not None and len(ent) > 2:
            return dict(ent[2])
        for s in self.sections.values():
            if s["cached"] and not s["custom_key"] and s["defname"] == key:
                return self.eff_args(s)
        for s in self.sections.values():
            if s["cached"] and s["custom_key"] and s["keylit"] and key.startswith(s["keylit"]):
                return self.eff_args(s)
        return {}


class Machine:
    def __init__(self, case, tmp, decollide=False, strict=False):
        core.setup_repo()
        _register()
        self.case = case
        self.backend = case["backend"]
        self.tmp = tmp
        self.strict = strict
        # False (default): invalidate_* of a not yet used section with own arguments is left out of the history
        # (known finding, see KEY_EARLY_INV).  run() switches this on as soon as the dedicated probe passes.
        self.exec_early_inv = bool(case.get("exec_early_inv"))
        self.shared_store = {}
        self.tag = "/vf17_%d_%d" % (os.getpid(), next(_uniq))
        self.done = []            # concrete ops executed so far
        self.excluded = {}        # known-finding id -> count
        self.rejected_ops = 0
        self.events = set()
        self.inval_effective = 0
        self.ts = []
        for rec in case["templates"]:
            ts = TState(rec)
            uri = self.tag + ("/t%d" % ts.tid if decollide else "") + rec["uri"]
            ts.t_args = self._resolve_args(rec["cache_args"])
            ts.uri = uri
            ts.subject = self._make(rec, uri, ts.t_args, True, ts.log)
            # the uncached reference never needs a backend; it gets the lock-free recording one so that a tree in
            # which cache_enabled=False is not honoured shows up in ref_log instead of dead-locking a real backend
            ts.ref = self._make(rec, self.tag + "/ref%d.html" % ts.tid, {}, False, ts.ref_log, ref=True)
            # the same text with every cached="True" switched off: what "an uncached render" means literally
            plain = dict(rec, text=rec["text"].replace('cached="True"', 'cached="False"'))
            ts.plain = self._make(plain, self.tag + "/plain%d.html" % ts.tid, {}, True, ts.ref_log, ref=True)
            self.ts.append(ts)

    # -- construction --------------------------------------------------
    def _resolve_args(self, args):
        out = {}
        for k, v in args.items():
            if v == "$REGIONS":
                from dogpile.cache import make_region

                v = {"r0": make_region().configure("dogpile.cache.memory"),
                     "r1": make_region().configure("dogpile.cache.memory")}
            elif isinstance(v, str):
                v = v.replace("$TMP", self.tmp)
            out[k] = v
        return out

    def _make(self, rec, uri, t_args, enabled, log, ref=False):
        from mako.template import Template

        kw = dict(uri=uri, cache_args=dict(t_args), buffer_filters=list(rec["buffer_filters"]),
                  cache_enabled=enabled)
        if self.backend == "rec" or ref:
            kw["cache_impl"] = "vf17rec"
        elif self.backend == "rec_ctx":
            kw["cache_impl"] = "vf17recctx"
        elif self.backend == "dogpile":
            kw["cache_impl"] = "dogpile.cache"
        try:
            t = Template(rec["text"].replace("$TMP", self.tmp), **kw)
        except Exception as e:  # noqa: BLE001
            # (every generated template compiles; the same text without the cached="True" flags is ordinary defs and blocks)
            raise Failure({"backend": self.backend, "templates": self.case["templates"], "ops": []},
                          "[%s] the template does not compile (%s: %s): %s" % (self.backend, type(e).__name__, e, rec["text"][:700]),
                          "template-construct-raised:" + type(e).__name__)
        t._vf_store = {} if ref else self.shared_store
        t._vf_log = log
        return t

    # -- failure helper --------------------------------------------------
    def fail(self, key, msg, ts=None):
        case = {"backend": self.backend, "templates": self.case["templates"], "ops": list(self.done)}
        if self.strict:
            case["strict"] = True
        if self.exec_early_inv:
            case["exec_early_inv"] = True
        hist = "; ".join(_opstr(o) for o in self.done[-8:])
        detail = "[%s] after %d ops (.. %s): %s" % (self.backend, len(self.done), hist, msg)
        if ts is not None:
            detail += " | template t%d uri=%s: %s" % (ts.tid, ts.rec["uri"], ts.rec["text"][:700])
        return Failure(case, detail, key)

    # -- operand selection (abstract op -> concrete op) ---------------------
    def concretise(self, op):
        kind, ti = op[0], op[1]
        ts = self.ts[ti]
        secs = [ts.sections[i] for i in sorted(ts.sections)]
        if kind in ("render", "inv_body", "enable", "recompile"):
            return list(op)
        arg = op[2]
        if isinstance(arg, str):
            return list(op)  # already concrete
        if kind == "inv_def":
            cands = [s["name"] for s in secs if s["kind"] in ("def", "block") and s["cached"]]
            cands = cands * 3 + [s["name"] for s in secs if s["kind"] in ("ndef", "def", "block") and s["name"] not in cands]
            cands = cands or ["nosuch"]
            return [kind, ti, cands[arg % len(cands)]]
        if kind == "inv_closure":
            cands = [s["name"] for s in secs if s["kind"] in ("ndef", "ablock") and s["cached"]]
            cands = cands * 3 + [s["name"] for s in secs if s["kind"] == "def"][:1]
            cands = cands or ["nosuch"]
            return [kind, ti, cands[arg % len(cands)]]
        held = sorted(ts.store)
        defaults = [s["defname"] for s in secs if s["cached"] and not s["custom_key"]]
        if kind in ("inv", "get"):
            cands = held * 2 + defaults + ["zz0"]
            key = cands[arg % len(cands)]
            return [kind, ti, key, ts.owner_args(key)]
        if kind == "set":
            cands = held * 2 + defaults * 2 + ["zz0", "zz1"]
            key = cands[arg % len(cands)]
            return [kind, ti, key, "SETv%d" % op[3], ts.owner_args(key)]
        raise core.HarnessError("unknown op %r" % (op,))

    # -- one step ----------------------------------------------------------
    def step(self, op):
        op = self.concretise(op)
        kind, ti = op[0], op[1]
        ts = self.ts[ti]
        if kind in ("inv_body", "inv_def", "inv_closure") and not self.strict and not self.exec_early_inv:
            defname = self._defname(op)
            sec = ts.by_defname.get(defname)
            if sec is not None and defname not in ts.frozen and ts.eff_args(sec):
                # known finding: the first use of a def name fixes its backend arguments; an invalidate_* issued
                # before the first render fixes them to the Template arguments only.  Not executed here; the
                # dedicated probe reports it.
                self.excluded[KNOWN_IDS[KEY_EARLY_INV]] = self.excluded.get(KNOWN_IDS[KEY_EARLY_INV], 0) + 1
                return
        self.done.append(op)
        getattr(self, "op_" + kind)(ts, *op[2:])

    @staticmethod
    def _defname(op):
        if op[0] == "inv_body":
            return "render_body"
        if op[0] == "inv_def":
            return "render_" + op[2]
        return op[2]

    # -- non-render ops ------------------------------------------------------
    def _call(self, ts, what, fn):
        start = len(ts.log)
        try:
            res = fn()
        except Exception as e:
            return e, ts.log[start:]
        return res, ts.log[start:]

    def _check_plain_record(self, ts, what, recs, opname, key, exp_kw):
        if self.backend not in ("rec", "rec_ctx"):
            return
        if len(recs) != 1 or recs[0][0] != opname or recs[0][1] != key:
            raise self.fail("backend-key", "%s: backend calls expected [(%r, %r)], observed %r"
                            % (what, opname, key, [(r[0], r[1]) for r in recs]), ts)
        kw = recs[0][2]
        if "context" in kw:
            raise self.fail("backend-kwargs:context", "%s: a context was passed to %s" % (what, opname), ts)
        self._cmp_kwargs(ts, what, kw, exp_kw)

    def _cmp_kwargs(self, ts, what, kw, exp_kw):
        if _typed(kw) != _typed(exp_kw):
            sub = ""
            if "timeout" in exp_kw and "timeout" in kw and type(kw["timeout"]) is not type(exp_kw["timeout"]):
                sub = ":timeout-type"
            raise self.fail("backend-kwargs" + sub, "%s: backend kwargs expected %r, observed %r "
                            "(Template args %r < page args %r < section args)"
                            % (what, _show(exp_kw), _show(kw), _show(ts.t_args), ts.page_args), ts)

    def _invalidate_named(self, ts, what, defname, fn):
        res, recs = self._call(ts, what, fn)
        if isinstance(res, Exception):
            raise self.fail("op-raised:" + type(res).__name__, "%s raised %r" % (what, res), ts)
        sec = ts.by_defname.get(defname)
        exp_kw = dict(ts.t_args)
        if sec is not None:
            exp_kw.update(ts.eff_args(sec))
        if sec is not None and defname not in ts.frozen and self.backend in ("rec", "rec_ctx"):
            # before its first use the section's own arguments are not known to the Cache object: only the
            # call itself is checked here, the arguments of the following get_or_create are checked by the render
            if [(r[0], r[1]) for r in recs] != [("inv", defname)]:
                raise self.fail("backend-key", "%s: backend calls expected [('inv', %r)], observed %r"
                                % (what, defname, [(r[0], r[1]) for r in recs]), ts)
        else:
            self._check_plain_record(ts, what, recs, "inv", defname, exp_kw)
        if ts.store.pop(defname, None) is not None:
            self.inval_effective += 1
            self.events.add("ev:inval_effective")

    def op_inv_body(self, ts):
        self._invalidate_named(ts, "invalidate_body()", "render_body", ts.subject.cache.invalidate_body)

    def op_inv_def(self, ts, name):
        self._invalidate_named(ts, "invalidate_def(%r)" % name, "render_" + name,
                               lambda: ts.subject.cache.invalidate_def(name))

    def op_inv_closure(self, ts, name):
        self._invalidate_named(ts, "invalidate_closure(%r)" % name, name,
                               lambda: ts.subject.cache.invalidate_closure(name))

    def _res(self, kw):
        return {k: (v.replace("$TMP", self.tmp) if isinstance(v, str) else v) for k, v in kw.items()}

    def op_inv(self, ts, key, kw):
        what = "invalidate(%r, **%r)" % (key, kw)
        kw = self._res(kw)
        res, recs = self._call(ts, what, lambda: ts.subject.cache.invalidate(key, **kw))
        if isinstance(res, Exception):
            raise self.fail("op-raised:" + type(res).__name__, "%s raised %r" % (what, res), ts)
        self._check_plain_record(ts, what, recs, "inv", key, dict(ts.t_args, **kw))
        if ts.store.pop(key, None) is not None:
            self.inval_effective += 1
            self.events.add("ev:inval_effective")

    def op_set(self, ts, key, value, kw):
        what = "cache.set(%r, %r, **%r)" % (key, value, kw)
        kw0, kw = kw, self._res(kw)
        res, recs = self._call(ts, what, lambda: ts.subject.cache.set(key, value, **kw))
        if isinstance(res, NotImplementedError) and self.backend.startswith("beaker"):
            if self.strict:
                raise self.fail(KEY_BEAKER_SET, "%s raised NotImplementedError: BeakerCacheImpl implements put(), "
                                "Cache.set/Cache.put call impl.set()" % what, ts)
            kid = KNOWN_IDS[KEY_BEAKER_SET]
            self.excluded[kid] = self.excluded.get(kid, 0) + 1
            self.done.pop()
            return
        if isinstance(res, NotImplementedError) and self.backend == "dogpile":
            self.rejected_ops += 1  # third-party plugin without set()
            self.done.pop()
            return
        if isinstance(res, Exception):
            raise self.fail("op-raised:" + type(res).__name__, "%s raised %r" % (what, res), ts)
        self._check_plain_record(ts, what, recs, "set", key, dict(ts.t_args, **kw))
        ts.store[key] = (value, "set", kw0)
        self.events.add("ev:set")

    def op_get(self, ts, key, kw):
        what = "cache.get(%r, **%r)" % (key, kw)
        kw = self._res(kw)
        res, recs = self._call(ts, what, lambda: ts.subject.cache.get(key, **kw))
        ent = ts.store.get(key)
        if ent is None:
            if isinstance(res, str):
                raise self.fail("get-stale-value", "%s returned %r although the model holds no value for the key "
                                "(never created, or invalidated)" % (what, res[:200]), ts)
            return
        if isinstance(res, Exception):
            raise self.fail("get-missing-value", "%s raised %r although a value was stored" % (what, res), ts)
        self._check_plain_record(ts, what, recs, "get", key, dict(ts.t_args, **kw))
        if ent[1] == "set":
            if res != ent[0]:
                raise self.fail("get-wrong-value", "%s returned %r, cache.set stored %r" % (what, res, ent[0]), ts)
        else:
            marker = "[[S%d.%d|" % (ts.tid, ent[1])
            if not isinstance(res, str) or marker not in res:
                raise self.fail("get-wrong-value", "%s returned %r, expected the content of section %s"
                                % (what, res if not isinstance(res, str) else res[:200], marker), ts)
        self.events.add("ev:get_hit")

    def op_enable(self, ts, flag):
        ts.subject.cache_enabled = bool(flag)
        ts.enabled = bool(flag)

    def op_recompile(self, ts):
        """The template is compiled again under the same URI (what a lookup does when the file changed): it is a new
        template, and Beaker - the one backend whose entries carry a creation time, which mako compares with the
        template's compile time - must not serve it anything stored for the old one."""
        if not self.backend.startswith("beaker"):
            raise core.HarnessError("recompile is only generated for the Beaker backends")
        time.sleep(0.003)  # (entry creation times and the new compile time are wall-clock floats)
        ts.subject = self._make(ts.rec, ts.uri, ts.t_args, ts.enabled, ts.log)
        ts.store, ts.frozen = {}, set()
        self.inval_effective += 1
        self.events.add("ev:recompiled")

    # -- render ---------------------------------------------------------------
    def op_render(self, ts, ctx):
        what = "t%d.render(%s)" % (ts.tid, ", ".join("%s=%r" % kv for kv in sorted(ctx.items())))
        rticks = []
        nref = len(ts.ref_log)
        try:
            ref_out = ts.ref.render_unicode(tick=rticks.append, **ctx)
        except Exception as e:  # noqa: BLE001
            # (every generated template renders; with the cache switched off the sections are ordinary defs and blocks)
            raise self.fail("cache-disabled-render-raised:" + type(e).__name__,
                            "%s with cache_enabled=False raised %s: %s" % (what, type(e).__name__, e), ts)
        try:
            tree = parse_tree(ref_out)
        except ValueError as e:
            raise self.fail("uncached-output-malformed", "%s with cache_enabled=False: %s in %r" % (what, e, ref_out), ts)
        nodes = list(preorder(tree))
        want = ["%d.%d" % (n.tid, n.sid) for n in nodes]
        if rticks != want or len(ts.ref_log) != nref:
            raise self.fail("cache-disabled-not-executed",
                            "%s with cache_enabled=False: bodies executed %r, sentinels in output %r, backend calls %r "
                            "(every cached section must run, the backend must not be used); output %r"
                            % (what, rticks, want, [(r[0], r[1]) for r in ts.ref_log[nref:]], ref_out[:600]), ts)
        pticks = []
        try:
            plain_out = ts.plain.render_unicode(tick=pticks.append, **ctx)
        except Exception as e:  # noqa: BLE001
            raise self.fail("uncached-text-render-raised:" + type(e).__name__,
                            "%s: the same text with every cached=\"True\" replaced by cached=\"False\" raised %s: %s" % (what, type(e).__name__, e), ts)
        if plain_out != ref_out or pticks != rticks or len(ts.ref_log) != nref:
            raise self.fail("cache-disabled-differs-from-uncached",
                            "%s: the template with cache_enabled=False renders %r (bodies %r), the same text with every "
                            "cached=\"True\" replaced by cached=\"False\" renders %r (bodies %r, backend calls %r)"
                            % (what, ref_out[:600], rticks, plain_out[:600], pticks,
                               [(r[0], r[1]) for r in ts.ref_log[nref:]]), ts)
        page = ts.sections[0]
        if page["cached"]:
            if len(tree) != 1 or tree[0].sid != 0:
                raise core.HarnessError("cached page does not span the output: %r" % ref_out)
            tree[0].start, tree[0].end = 0, len(ref_out)
        for n in nodes:
            if n.tid != ts.tid or n.sid not in ts.sections or not ts.sections[n.sid]["cached"]:
                raise core.HarnessError("foreign sentinel in uncached output: %r" % ref_out)
        # --- outside the domain: a key requested while an enclosing instance with the same key is being created
        def conflicts(kids, open_keys):
            for n in kids:
                if n.key in open_keys:
                    raise Reject("key %r requested while being created" % n.key)
                conflicts(n.children, open_keys | {n.key})

        conflicts(tree, frozenset())
        # --- model walk
        exp_ticks, exp_calls = [], []
        new_store = dict(ts.store)
        new_frozen = set(ts.frozen)
        events = set()

        def walk(kids, lo, hi, open_keys, depth):
            out, pos = [], lo
            for n in kids:
                out.append(ref_out[pos:n.start])
                sec = ts.sections[n.sid]
                if n.key in open_keys:
                    raise Reject("key %r requested while being created" % n.key)
                exp_calls.append((n.key, sec))
                new_frozen.add(sec["defname"])
                ent = new_store.get(n.key)
                if ent is not None:
                    if ent[1] == "set":
                        events.add("ev:set_replayed")
                    elif ent[1] != n.sid:
                        if ts.share_class(ts.sections[ent[1]]) != ts.share_class(sec):
                            raise Reject("key %r shared by sections with different arguments/filters" % n.key)
                        events.add("ev:shared_key_hit")
                    out.append(ent[0])
                    events.add("ev:hit")
                    if depth:
                        events.add("ev:hit_inside_miss")
                else:
                    exp_ticks.append("%d.%d" % (n.tid, n.sid))
                    content = walk(n.children, n.start, n.end, open_keys | {n.key}, depth + 1)
                    new_store[n.key] = (content, n.sid)
                    out.append(content)
                    events.add("ev:miss")
                    if depth:
                        events.add("ev:nested_miss")
                pos = n.end
            out.append(ref_out[pos:hi])
            return "".join(out)

        if ts.enabled:
            exp_out = walk(tree, 0, len(ref_out), frozenset(), 0)
        else:
            exp_out, exp_ticks = ref_out, want
            events.add("ev:disabled_render")
        # --- subject
        sticks = []
        start = len(ts.log)
        try:
            out = ts.subject.render_unicode(tick=sticks.append, **ctx)
        except Exception as e:
            raise self.fail("render-raised:" + type(e).__name__,
                            "%s raised %s: %s; the uncached render gives %r" % (what, type(e).__name__, e, ref_out[:400]), ts)
        recs = ts.log[start:]
        if self.backend in ("rec", "rec_ctx"):
            got = [(r[0], r[1]) for r in recs]
            exp = [("goc", k) for k, _ in exp_calls]
            if got != exp:
                raise self.fail("backend-key", "%s: backend calls expected %r, observed %r (expected ticks %r, observed %r)"
                                % (what, exp, got, exp_ticks, sticks), ts)
            for (k, sec), r in zip(exp_calls, recs):
                kw = dict(r[2])
                c = kw.pop("context", None)
                w = "%s: get_or_create(%r) of section %s" % (what, k, sec["defname"])
                if (self.backend == "rec_ctx") != (c is not None):
                    raise self.fail("backend-kwargs:context", "%s: pass_context=%s but context %s"
                                    % (w, self.backend == "rec_ctx", "passed" if c is not None else "missing"), ts)
                if c is not None:
                    seen = None
                    try:
                        seen = c.get("w")
                    except Exception as e:  # not a Context
                        seen = e
                    if seen != ctx["w"]:
                        raise self.fail("backend-kwargs:context", "%s: context.get('w') is %r, the render was given %r"
                                        % (w, seen, ctx["w"]), ts)
                exp_kw = dict(ts.t_args)
                exp_kw.update(ts.eff_args(sec))
                self._cmp_kwargs(ts, w, kw, exp_kw)
        if sticks != exp_ticks:
            raise self.fail("ticks-mismatch", "%s: bodies executed %r, expected %r (model holds keys %r); output %r, expected %r"
                            % (what, sticks, exp_ticks, sorted(ts.store), out[:500], exp_out[:500]), ts)
        if out != exp_out:
            raise self.fail("output-mismatch", "%s: output %r, expected %r (uncached render %r; model held keys %r)"
                            % (what, out[:700], exp_out[:700], ref_out[:400], sorted(ts.store)), ts)
        ts.store, ts.frozen = new_store, new_frozen
        self.events |= events
        if ts.enabled:
            ts.renders.append((core.fp(ctx), self.inval_effective))

    # -- evidence ---------------------------------------------------------------
    def nontrivial(self):
        a = False
        for ts in self.ts:
            for (c1, i1), (c2, i2) in itertools.combinations(ts.renders, 2):
                if c1 != c2 and i2 > i1:
                    a = True
        b = "ev:nested_miss" in self.events and "ev:hit" in self.events
        c = sum(1 for ts in self.ts if ts.renders) >= 2 and "ev:hit" in self.events
        return a or b or c


def _typed(kw):
    return sorted((k, type(v).__name__, v if isinstance(v, (str, int)) else id(v)) for k, v in kw.items())


def _show(kw):
    return {k: (v if isinstance(v, (str, int)) else "<%s>" % type(v).__name__) for k, v in kw.items()}


def _opstr(op):
    if op[0] == "render":
        return "t%d.render(%s)" % (op[1], ",".join("%s=%s" % kv for kv in sorted(op[2].items())))
    return "t%d.%s(%s)" % (op[1], op[0], ",".join(repr(x) for x in op[2:]))


def has_collision(case):
    ids = [module_id(t["uri"]) for t in case["templates"]]
    return len(set(ids)) < len(ids)


def run_case(case, decollide=False, strict=False):
    """-> (Failure | None, Machine | None).  Raises Reject for cases outside the domain."""
    with core.TempDir() as tmp:
        m = Machine(case, tmp, decollide=decollide, strict=strict or bool(case.get("strict")))
        try:
            for op in case["ops"]:
                m.step(op)
        except Failure as f:
            return f, m
        return None, m


def check_case(case):
    """Full oracle for one case, including attribution of failures to the module-id collision.

    -> (Failure | None, Machine)"""
    f, m = run_case(case)
    if f is not None and has_collision(case):
        # fully explained by the known finding iff the same history passes once the URIs are made distinct
        try:
            f2, _ = run_case(dict(case, ops=f.case["ops"]), decollide=True)
        except Reject:
            f2 = None
        if f2 is None:
            uris = [t["uri"] for t in case["templates"]]
            f = Failure(f.case, f.detail + " || URIs %r share module id %r; the same history passes when the URIs are "
                        "made distinct" % (uris, module_id(uris[0])), KEY_COLLISION)
        else:
            f = f2
    return f, m


# =====================================================================================
# dedicated probes for findings on the unchanged tree (reported on every run)
# =====================================================================================
def _probe_cases():
    def page_t(tid, uri):
        return {"tid": tid, "uri": uri, "cache_args": {}, "buffer_filters": [],
                "page": {"cached": True, "pargs": False, "key": None, "args": {}},
                "body": [["t", "body of t%d " % tid], ["v", "v0"]]}

    ctx = {"v0": "a", "v1": "a", "w": "w4"}
    out = {}
    ir = {"backend": "beaker_memory", "templates": [page_t(0, "/a-b.html"), page_t(1, "/a_b.html")],
          "ops": [["render", 0, ctx], ["render", 1, ctx]]}
    out[KEY_COLLISION] = (build_case(ir), None)

    d0 = {"name": "d0", "sig": "", "cached": True, "key": None, "args": {"timeout": "3600"}, "buffered": False,
          "filter": None, "body": [["t", "def "], ["v", "v0"]]}
    T = {"tid": 0, "uri": "/c.html", "cache_args": {}, "buffer_filters": [], "page": None,
         "body": [["def", d0], ["call", "d0", [], {}]]}
    ir = {"backend": "beaker_memory", "templates": [T], "ops": [["set", 0, "zz0", "SETv1", {}]]}
    c = build_case(ir)
    c["strict"] = True
    out[KEY_BEAKER_SET] = (c, None)

    ir = {"backend": "rec", "templates": [dict(T, cache_args={"foo": "t"})],
          "ops": [["inv_def", 0, "d0"], ["render", 0, ctx]]}
    c = build_case(ir)
    c["strict"] = True
    ctl = dict(c, ops=c["ops"][1:])
    out[KEY_EARLY_INV] = (c, ctl)
    return out


NESTED_BUF_TEXTS = {
    # (a cached+buffered def returns its content: DESIGN A3/A21, filtering.rst "Buffering", test_cache.test_buffered)
    "nested": '<%def name="d()"><%def name="n()" cached="True" buffered="True">INNER</%def><% r = n() %>[${r}]</%def>${d()}',
    "control_toplevel": '<%def name="n()" cached="True" buffered="True">INNER</%def><%def name="d()"><% r = n() %>[${r}]</%def>${d()}',
    "control_uncached": '<%def name="d()"><%def name="n()" buffered="True">INNER</%def><% r = n() %>[${r}]</%def>${d()}',
}


def _probe_nested_buffered():
    """By-construction expectation, no model: the captured return value of a buffered def is its content."""
    core.setup_repo()
    _register()
    from mako.template import Template

    got = {}
    for which, text in sorted(NESTED_BUF_TEXTS.items()):
        for enabled in (True, False):
            t = Template(text, uri="/vf17_%d_%d/nb_%s.html" % (os.getpid(), next(_uniq), which), cache_impl="vf17rec",
                         cache_enabled=enabled)
            t._vf_store, t._vf_log = {}, []
            got[(which, enabled)] = [t.render_unicode(), t.render_unicode()]
    case = {"probe": KEY_NESTED_BUF, "templates": NESTED_BUF_TEXTS}
    bad = {k: v for k, v in got.items() if v != ["[INNER]", "[INNER]"]}
    if not bad:
        return None
    ctl = {k: v for k, v in bad.items() if k[0] != "nested"}
    if ctl:
        return Failure(case, "control templates of the nested-buffered probe: expected '[INNER]' twice, observed %r"
                       % (ctl,), "cached-buffered-def-not-returned")
    return Failure(case, "nested def cached+buffered, called as <%% r = n() %%>[${r}]: expected '[INNER]' on every render "
                   "(a buffered def returns its content; the top-level and the uncached nested control do), observed %r "
                   "keyed (template, cache_enabled); text %r" % (bad, NESTED_BUF_TEXTS["nested"]), KEY_NESTED_BUF)


KEY_INHERITED = "inherited-section-cache-owner"
INHERITED_TEXTS = {
    "base": ('<%def name="nav()" cached="True" buffered="True"><% tick("base.nav") %>NAV</%def>'
             '<%def name="foot()" cached="True"><% tick("base.foot") %>FOOT</%def>[${nav()}|${foot()}|${next.body()}]'),
    "one": '<%inherit file="BASE"/>one',
    "two": '<%inherit file="BASE"/>two',
    "three": ('<%inherit file="BASE"/><%def name="nav()" cached="True" buffered="True"><% tick("three.nav") %>THREE</%def>'
              '<%def name="foot()" cached="True"><% tick("three.foot") %>3FOOT</%def>three:${nav()}:${foot()}'),
}


def _probe_inherited():
    """Cached sections of a base template rendered through inheriting templates belong to the BASE template's cache:
    created once for all children, invalidated through base.cache, never mixed up with a child's section of the same
    name.  Expectations by construction."""
    core.setup_repo()
    _register()
    from mako.lookup import TemplateLookup

    tag = "/vf17i_%d_%d" % (os.getpid(), next(_uniq))
    lk = TemplateLookup(cache_impl="vf17rec")
    store, log, ticks = {}, [], []
    T = {}
    for name, text in INHERITED_TEXTS.items():
        lk.put_string("%s/%s.html" % (tag, name), text.replace("BASE", tag + "/base.html"))
    for name in INHERITED_TEXTS:
        T[name] = lk.get_template("%s/%s.html" % (tag, name))
        T[name]._vf_store, T[name]._vf_log = store, log
    case = {"probe": KEY_INHERITED, "templates": INHERITED_TEXTS}
    steps = [
        ("render one", lambda: T["one"].render_unicode(tick=ticks.append), "[NAV|FOOT|one]", ["base.nav", "base.foot"]),
        ("render one again", lambda: T["one"].render_unicode(tick=ticks.append), "[NAV|FOOT|one]", []),
        ("render two (same base)", lambda: T["two"].render_unicode(tick=ticks.append), "[NAV|FOOT|two]", []),
        ("base.cache.invalidate_def('nav'); render one", lambda: (T["base"].cache.invalidate_def("nav"), T["one"].render_unicode(tick=ticks.append))[1],
         "[NAV|FOOT|one]", ["base.nav"]),
        ("base.cache.invalidate_def('foot'); render two", lambda: (T["base"].cache.invalidate_def("foot"), T["two"].render_unicode(tick=ticks.append))[1],
         "[NAV|FOOT|two]", ["base.foot"]),
        ("render three (own nav/foot of the same names)", lambda: T["three"].render_unicode(tick=ticks.append), "[NAV|FOOT|three:THREE:3FOOT]",
         ["three.nav", "three.foot"]),
        ("one.cache.invalidate_def('nav') (not the owner); render one", lambda: (T["one"].cache.invalidate_def("nav"), T["one"].render_unicode(tick=ticks.append))[1],
         "[NAV|FOOT|one]", []),
        ("base.cache_enabled=False; render two", lambda: (setattr(T["base"], "cache_enabled", False), T["two"].render_unicode(tick=ticks.append))[1],
         "[NAV|FOOT|two]", ["base.nav", "base.foot"]),
    ]
    done = []
    for what, fn, exp_out, exp_ticks in steps:
        del ticks[:]
        done.append(what)
        try:
            out = fn()
        except Exception as e:  # noqa: BLE001
            return Failure(case, "after %r: raised %s: %s" % (done, type(e).__name__, e), KEY_INHERITED + ":raised")
        if out != exp_out or ticks != exp_ticks:
            return Failure(case, "after %r: expected output %r with bodies executed %r, observed %r with %r (texts: %r)"
                           % (done, exp_out, exp_ticks, out, list(ticks), INHERITED_TEXTS), KEY_INHERITED)
    return None


KEY_NAMESPACE = "namespace-section-cache-owner"
NAMESPACE_TEXTS = {
    "widgets": ('<%def name="badge()" cached="True"><% tick("widgets.badge") %>widget badge</%def>'
                '<%def name="tile()" cached="True" cache_key="shared"><% tick("widgets.tile") %>widget tile</%def>'),
    "page": ('<%namespace name="w" file="WIDGETS"/><%namespace file="WIDGETS" import="tile"/>'
             '<%def name="badge()" cached="True"><% tick("page.badge") %>page badge</%def>'
             '<%def name="mine()" cached="True" cache_key="shared"><% tick("page.mine") %>page mine</%def>'
             "own:${badge()}|theirs:${w.badge()}|imported:${tile()}|mine:${mine()}"),
}


def _probe_namespace():
    """A cached def of another template reached through <%namespace file=..> (qualified or imported) belongs to THAT
    template's cache: never mixed up with a section of the calling template that has the same name or cache_key,
    invalidated through its own template's cache.  Expectations by construction."""
    core.setup_repo()
    _register()
    from mako.lookup import TemplateLookup

    tag = "/vf17n_%d_%d" % (os.getpid(), next(_uniq))
    lk = TemplateLookup(cache_impl="vf17rec")
    store, log, ticks = {}, [], []
    T = {}
    for name, text in NAMESPACE_TEXTS.items():
        lk.put_string("%s/%s.html" % (tag, name), text.replace("WIDGETS", tag + "/widgets.html"))
    for name in NAMESPACE_TEXTS:
        T[name] = lk.get_template("%s/%s.html" % (tag, name))
        T[name]._vf_store, T[name]._vf_log = store, log
    case = {"probe": KEY_NAMESPACE, "templates": NAMESPACE_TEXTS}
    full = "own:page badge|theirs:widget badge|imported:widget tile|mine:page mine"
    render = lambda: T["page"].render_unicode(tick=ticks.append)
    steps = [
        ("render page", render, full, ["page.badge", "widgets.badge", "widgets.tile", "page.mine"]),
        ("render page again", render, full, []),
        ("widgets.cache.invalidate_def('badge'); render page", lambda: (T["widgets"].cache.invalidate_def("badge"), render())[1], full, ["widgets.badge"]),
        ("page.cache.invalidate_def('badge'); render page", lambda: (T["page"].cache.invalidate_def("badge"), render())[1], full, ["page.badge"]),
        ("widgets.cache.invalidate('shared', __M_defname='tile'); render page",
         lambda: (T["widgets"].cache.invalidate("shared", __M_defname="tile"), render())[1], full, ["widgets.tile"]),
        ("page.cache.invalidate('shared', __M_defname='mine'); render page",
         lambda: (T["page"].cache.invalidate("shared", __M_defname="mine"), render())[1], full, ["page.mine"]),
        ("widgets.cache_enabled=False; render page", lambda: (setattr(T["widgets"], "cache_enabled", False), render())[1], full,
         ["widgets.badge", "widgets.tile"]),
    ]
    done = []
    for what, fn, exp_out, exp_ticks in steps:
        del ticks[:]
        done.append(what)
        try:
            out = fn()
        except Exception as e:  # noqa: BLE001
            return Failure(case, "after %r: raised %s: %s" % (done, type(e).__name__, e), KEY_NAMESPACE + ":raised")
        if out != exp_out or ticks != exp_ticks:
            return Failure(case, "after %r: expected output %r with bodies executed %r, observed %r with %r (texts: %r)"
                           % (done, exp_out, exp_ticks, out, list(ticks), NAMESPACE_TEXTS), KEY_NAMESPACE)
    ids = sorted({k[0] for k in store})
    if len(ids) != 2:
        return Failure(case, "the backend was reached under the cache ids %r; two templates own cached sections" % ids, KEY_NAMESPACE)
    return None


KEY_TYPED_KEY = "non-string-cache-key"
KEY_BEAKER_DIRS = "beaker-section-dir"


def _probe_typed_key():
    """cache_key="${uid}" evaluates to whatever the expression gives (an int here); cache.invalidate / get / set called with
    that value address the same entry.  Expectations by construction."""
    core.setup_repo()
    _register()
    from mako.template import Template

    src = '<%def name="row(uid)" cached="True" cache_key="${uid}"><% tick("row") %>row ${uid}</%def>${row(u)}'
    t = Template(src, uri="/vf17k_%d_%d.html" % (os.getpid(), next(_uniq)), cache_impl="vf17rec")
    t._vf_store, t._vf_log = {}, []
    ticks = []
    case = {"probe": KEY_TYPED_KEY, "template": src}
    render = lambda u: t.render_unicode(u=u, tick=ticks.append)
    steps = [
        ("render(u=7)", lambda: render(7), "row 7", 1), ("render(u=7) again", lambda: render(7), "row 7", 0),
        ("cache.get(7)", lambda: t.cache.get(7, __M_defname="row"), "row 7", 0),
        ("cache.invalidate(7); render(u=7)", lambda: (t.cache.invalidate(7, __M_defname="row"), render(7))[1], "row 7", 1),
        ("cache.set(8, 'preset'); render(u=8)", lambda: (t.cache.set(8, "preset", __M_defname="row"), render(8))[1], "preset", 0),
        ("render(u='7') (another key)", lambda: render("7"), "row 7", 1),
    ]
    done = []
    for what, fn, exp, nticks in steps:
        del ticks[:]
        done.append(what)
        try:
            out = fn()
        except Exception as e:  # noqa: BLE001
            return Failure(case, "after %r: raised %s: %s" % (done, type(e).__name__, e), KEY_TYPED_KEY + ":raised")
        if out != exp or len(ticks) != nticks:
            return Failure(case, "after %r: expected %r with %d body execution(s), observed %r with %d (%s)" % (done, exp, nticks, out, len(ticks), src),
                           KEY_TYPED_KEY)
    return None


def _probe_beaker_dirs():
    """Beaker file backend, template with a module directory: the cache_dir of a section is the directory its entries live in
    (two sections with different directories and one cache_key do not share an entry)."""
    core.setup_repo()
    try:
        import beaker  # noqa: F401
    except ImportError:
        return None
    from mako.template import Template

    with core.TempDir() as tmp:
        d1, d2, md = (os.path.join(tmp, n) for n in ("d1", "d2", "mod"))
        fn = os.path.join(tmp, "page.html")
        src = ('<%%def name="one()" cached="True" cache_type="file" cache_dir="%s" cache_key="fragment"><%% tick("one") %%>one</%%def>'
               '<%%def name="two()" cached="True" cache_type="file" cache_dir="%s" cache_key="fragment"><%% tick("two") %%>two</%%def>${one()}|${two()}' % (d1, d2))
        with open(fn, "w") as fh:
            fh.write(src)
        t = Template(filename=fn, module_directory=md, uri="/vf17bd_%d_%d.html" % (os.getpid(), next(_uniq)))
        ticks = []
        case = {"probe": KEY_BEAKER_DIRS, "template": src}
        outs = []
        for _ in range(2):
            try:
                outs.append(t.render_unicode(tick=ticks.append))
            except Exception as e:  # noqa: BLE001
                return Failure(case, "render raised %s: %s" % (type(e).__name__, e), KEY_BEAKER_DIRS + ":raised")
        if outs != ["one|two", "one|two"] or ticks != ["one", "two"]:
            return Failure(case, "two renders: expected ['one|two', 'one|two'] with bodies ['one', 'two'] executed, observed %r with %r (%s)"
                           % (outs, ticks, src), KEY_BEAKER_DIRS)
        has = [any(fs for _, _, fs in os.walk(d)) if os.path.isdir(d) else False for d in (d1, d2)]
        stray = [p for p, _, fs in os.walk(md) for f in fs if not f.endswith((".py", ".pyc"))]
        if has != [True, True] or stray:
            return Failure(case, "cache files below the two cache_dir directories: %r; files that are not modules below module_directory: %r" % (has, stray[:3]),
                           KEY_BEAKER_DIRS)
    return None


def run_probe(name, case=None):
    """-> Failure | None.  A probe fails with its own key only if its control history passes."""
    if name == KEY_NESTED_BUF:
        return _probe_nested_buffered()
    if name == KEY_INHERITED:
        return _probe_inherited()
    if name == KEY_NAMESPACE:
        return _probe_namespace()
    if name == KEY_TYPED_KEY:
        return _probe_typed_key()
    if name == KEY_BEAKER_DIRS:
        return _probe_beaker_dirs()
    pc, ctl = _probe_cases()[name]
    case = case or dict(pc, probe=name)
    body = {k: v for k, v in case.items() if k != "probe"}
    f, _ = check_case(body)
    if f is None:
        return None
    if name == KEY_COLLISION:
        return Failure(case, f.detail, f.key)
    if name == KEY_BEAKER_SET:
        return Failure(case, f.detail, f.key)
    if name == KEY_EARLY_INV:
        fc, _ = check_case(dict(body, ops=[o for o in body["ops"] if o[0] != "inv_def"]))
        if fc is not None:
            return Failure(case, fc.detail, fc.key)
        if f.key.startswith("backend-kwargs"):
            return Failure(case, f.detail + " || the same render without the preceding invalidate_def passes: "
                           "Cache._get_cache_kw fixes the def's arguments on first use, here to the Template "
                           "arguments only", KEY_EARLY_INV)
        return Failure(case, f.detail, f.key)
    return Failure(case, f.detail, f.key)


# =====================================================================================
# shards
# =====================================================================================
def case_labels(case, m):
    labs = {"backend:" + case["backend"], "ntempl:%d" % len(case["templates"])}
    if has_collision(case):
        labs.add("uri:colliding")
    for t in case["templates"]:
        if t["cache_args"]:
            labs.add("args:template")
        if t["page_args"]:
            labs.add("args:page")
        if t["buffer_filters"]:
            labs.add("flag:buffer_filters")
        names = set(t["cache_args"]) & set(t["page_args"])
        for s in t["sections"].values():
            if not s["cached"]:
                continue
            labs.add("cached:" + s["kind"])
            if s["custom_key"]:
                labs.add("flag:cache_key")
            if s["buffered"]:
                labs.add("flag:cached+buffered")
            if s["filter"]:
                labs.add("flag:cached+filter")
            if s["ambient"]:
                labs.add("flag:inside_filtered")
            if s["args"]:
                labs.add("args:section")
            if (set(s["args"]) & (set(t["page_args"]) | set(t["cache_args"]))) or names:
                labs.add("args:same_name_two_levels")
            if set(s["args"]) & set(t["page_args"]):
                labs.add("args:section_overrides_page")
    for op in m.done:
        labs.add("op:" + op[0])
    labs |= m.events
    return sorted(labs)


class _NoReturn(BaseException):
    pass


def _with_deadline(fn, ir=None, case=None):
    """Cases take milliseconds; one that does not return within CASE_WALL_LIMIT_S wall-clock seconds is blocked (the model has
    rejected every history in which a key is requested while it is being created, so a backend lock taken twice is mako's
    doing) -> Failure `render-does-not-return`."""
    def on_alarm(signum, frame):
        raise _NoReturn()

    old = signal.signal(signal.SIGALRM, on_alarm)
    signal.setitimer(signal.ITIMER_REAL, CASE_WALL_LIMIT_S)
    try:
        return fn()
    except _NoReturn:
        c = case if case is not None else build_case(ir)
        raise Failure(c, "[%s] the history did not return within %d s (blocked on a backend lock?): templates %r, ops %r"
                      % (c["backend"], CASE_WALL_LIMIT_S, [t["text"][:300] for t in c["templates"]], c["ops"]), "render-does-not-return")
    finally:
        signal.setitimer(signal.ITIMER_REAL, 0)
        signal.signal(signal.SIGALRM, old)


def shard_search(task):
    seed, n, backends, exec_early_inv = task
    core.setup_repo()
    ev = core.Evidence()

    def check(ir):
        case = build_case(ir)
        if exec_early_inv:
            case["exec_early_inv"] = True
        try:
            f, m = check_case(case)
        except Reject:
            ev.rejected += 1
            return
        for kid, cnt in m.excluded.items():
            ev.excluded_known[kid] += cnt
        if m.rejected_ops:
            ev.notes["dogpile_set_ops_dropped"] = ev.notes.get("dogpile_set_ops_dropped", 0) + m.rejected_ops
        if f is not None and f.key == KEY_COLLISION:
            ev.excluded_known[KNOWN_IDS[KEY_COLLISION]] += 1
            ev.case(key=None, labels=("uri:colliding-excluded", "backend:" + case["backend"]))
            return
        key = [case["backend"], [(t["uri"], t["text"]) for t in case["templates"]], m.done]
        labs = case_labels(case, m)
        nt = m.nontrivial()
        ev.case(key=key, nontrivial=nt, labels=labs)
        if nt and len(m.done) <= 8 and sum(len(t["text"]) for t in case["templates"]) < 900:
            ev.sample({"backend": case["backend"], "templates": [{"uri": t["uri"], "text": t["text"],
                       "cache_args": t["cache_args"]} for t in case["templates"]], "ops": m.done}, case["backend"])
        if f is not None:
            raise f

    def guarded(ir):
        _with_deadline(lambda: check(ir), ir)

    fails, _ = core.hyp_search(case_strategy(backends), guarded, ev, seed, n, shrink_budget=10.0)
    return ev, fails


PROBES = (KEY_COLLISION, KEY_BEAKER_SET, KEY_EARLY_INV, KEY_NESTED_BUF, KEY_INHERITED, KEY_NAMESPACE, KEY_TYPED_KEY, KEY_BEAKER_DIRS)


def run(ctx):
    part = getattr(ctx, "part", None)
    if part in (None, "probes"):
        for name in PROBES:
            f = run_probe(name)
            ctx.ev.case(key=["probe", name], nontrivial=True, labels=("probe:" + name,))
            if f is not None:
                ctx.fail(f)
    if part in (None, "search"):
        # the search leaves early invalidate_* ops out only while the tree under test still has that finding
        early_ok = run_probe(KEY_EARLY_INV) is None
        ctx.ev.notes["early_invalidate_ops_executed_in_search"] = early_ok
        n = ctx.pick(90, 1200)
        mixes = [BACKENDS, ["rec", "rec_ctx"], ["beaker_memory", "beaker_file"], BACKENDS, ["dogpile", "rec_ctx", "beaker_file"]]
        nsh = ctx.pick(16, 64)
        ctx.pmap(shard_search, [(ctx.shard_seed(i, "search"), n, mixes[i % len(mixes)], early_ok) for i in range(nsh)])
    ctx.ev.notes["known_shapes_excluded_from_search"] = (
        "colliding module ids (case re-run with distinct URIs; counted when only the colliding form fails), "
        "cache.set on Beaker (NotImplementedError swallowed, op dropped), invalidate_body/def/closure of a section "
        "with page/section cache args before its first use (op not executed)")


def classify(f):
    return KNOWN_IDS.get(f.key)


def replay(case):
    core.setup_repo()
    if case.get("probe"):
        return run_probe(case["probe"], case)
    try:
        f, _ = _with_deadline(lambda: check_case(case), case=case)
    except Reject:
        return None
    except Failure as f2:
        return f2
    return f

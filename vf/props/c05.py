"""C05 - defs write at the call site; buffering, filter=, decorator=, capture, calls with content.

Domain : tgen programs with top-level and nested defs (positional/default/*args/keyword-only/**kwargs), flags
         buffered / filter / decorator, invoked by name, through self./local., via capture(), inside concatenations,
         and through <%call expr> / <%ns:def attr..> with body args and nested defs, nested up to depth 4, from bodies,
         defs, loops and other call bodies; x buffer_filters.
Oracle : reference interpreter (vf.gen.tgen.Interp) - explicit buffer stack and caller frames (clauses A1-A10).
"""
import json

from vf import core
from vf.core import Failure
from vf.gen import tgen, tprog, trun

PID = "C05"
LEVEL = "exploration"
RULE = (
    "case = generated program (IR) + buffer_filters; defs with every parameter kind and flag combination, called plainly, via "
    "self/local, capture(), string concatenation and calls with content (<%call>, <%self:def>) whose bodies call "
    "caller.body(**args) / caller.<nested def>() 0..n times. non-trivial = a call with content that is nested in another "
    "call body or def, or combined with buffered/filter/capture/decorator, or placed inside a loop; distinct by IR fingerprint."
)
ASSUMPTIONS = [
    "bare * and positional-only parameters are not generated (defs.rst: bare * is silently dropped)",
    "argument defaults are constants (C19 covers re-emission of arbitrary defaults)",
    "`caller` is not read inside the nested defs of a call tag; a call expression never nests another def call in its arguments",
    "decorators are supplied at module level (imports=), the way the docs show",
]
FEATURES = {"control", "py", "def", "block", "ccall", "capture", "flags", "nested_def", "decorator", "try", "raise", "return", "texttag", "loop"}


def strategy():
    from hypothesis import strategies as st

    return st.tuples(st.sampled_from([[], [], ["fb"]]),
                     tprog.programs(FEATURES, max_depth=4, ndefs=(1, 4), body_len=(2, 6))).map(
        lambda t: {"bf": t[0], "prog": t[1]})


def _ccall_stats(nodes, inside=0, inloop=0):
    """-> (max nesting of ccall, any ccall in loop/def/ccall)"""
    mx, special = 0, False
    for n in nodes:
        t = n["t"]
        if t == "ccall":
            d, s = _ccall_stats(n["body"], inside + 1, 0)
            mx = max(mx, 1 + d)
            special = special or s or inside > 0 or inloop > 0
            for x in n["defs"]:
                d2, s2 = _ccall_stats(x["body"], inside + 1, 0)
                mx = max(mx, 1 + d2)
                special = special or s2
        elif t == "def":
            d, s = _ccall_stats(n["body"], inside + 1, 0)
            mx, special = max(mx, d), special or s
        elif t == "if":
            for _, b in n["arms"]:
                d, s = _ccall_stats(b, inside, inloop)
                mx, special = max(mx, d), special or s
            if n.get("else"):
                d, s = _ccall_stats(n["else"], inside, inloop)
                mx, special = max(mx, d), special or s
        elif t in ("for", "while"):
            d, s = _ccall_stats(n["body"], inside, inloop + 1)
            mx, special = max(mx, d), special or s
        elif t == "try":
            for b in [n["body"]] + [b for _, b in n["handlers"]]:
                d, s = _ccall_stats(b, inside, inloop)
                mx, special = max(mx, d), special or s
        elif t in ("with", "block"):
            d, s = _ccall_stats(n["body"], inside + (1 if t == "block" else 0), inloop)
            mx, special = max(mx, d), special or s
    return mx, special


def check_case(case, ev=None):
    prog = case["prog"]
    src, _ = tgen.emit(prog)
    ref = trun.run_ref(prog, buffer_filters=case["bf"])
    if ref[0] == "reject":
        if ev is not None:
            ev.rejected += 1
        return
    got = trun.run_mako(src, buffer_filters=case["bf"])
    trun.compare(case, ref, got, src)
    if ev is not None:
        f = trun.features_of(prog)
        depth, special = _ccall_stats(prog["body"])
        nt = f["ccall"] and (depth >= 2 or special or f["buffered"] or f["filter"] or f["capture"] or f["decorator"])
        labels = ["outcome:" + ref[0], "ccall-depth:%d" % depth] + [k for k in ("ccall", "capture", "buffered", "filter", "decorator", "return", "try", "block") if f[k]]
        if case["bf"]:
            labels.append("buffer_filters")
        if '"spelling": "ns"' in json.dumps(prog):
            labels.append("ns-spelling")
        ev.case(key=case, nontrivial=bool(nt), labels=labels)
        if nt and ref[0] == "ok" and len(src) < 900 and depth >= 2:
            ev.sample({"source": src, "buffer_filters": case["bf"], "output": ref[1]}, "prog")


def shard(task):
    seed, n = task
    core.setup_repo()
    ev = core.Evidence()
    fails, known = core.hyp_search(strategy(), lambda c: check_case(c, ev), ev, seed, n,
                                   classify=classify, known=core.load_known(PID), shrink=False)
    fails = [trun.minimise(f, check_case) for f in fails]
    return ev, fails + list(known.values())


# known finding: `return` inside a buffered / filter= callable drops the content written so far (excluded from the
# generated programs by construction; these fixed programs exercise exactly that shape on every run)
_RET = {"t": "return", "form": "STOP_RENDERING"}
DEDICATED = [
    {"bf": [], "dedicated": "early-return", "expect_mako": "[]", "prog": {"body": [
        {"t": "def", "name": "d1", "sig": "", "body": [{"t": "text", "s": "kept"}, _RET, {"t": "text", "s": "not"}], "filter": ["fa"]},
        {"t": "text", "s": "["}, {"t": "expr", "e": "d1()"}, {"t": "text", "s": "]"}]}},
    {"bf": [], "dedicated": "early-return", "expect_mako": "[]", "prog": {"body": [
        {"t": "def", "name": "d1", "sig": "", "body": [{"t": "text", "s": "kept"}, _RET], "buffered": True},
        {"t": "text", "s": "["}, {"t": "expr", "e": "d1()"}, {"t": "text", "s": "]"}]}},
    {"bf": [], "dedicated": "early-return", "expect_mako": "[]", "prog": {"body": [
        {"t": "text", "s": "["}, {"t": "block", "name": None, "body": [{"t": "text", "s": "kept"}, _RET], "filter": ["up"]},
        {"t": "text", "s": "]"}]}},
]


def run(ctx):
    for case in DEDICATED:
        try:
            check_case(case)
            ctx.ev.label("dedicated-early-return:held")
        except Failure as f:
            ctx.fail(f)
            ctx.ev.excluded_known["C05-early-return-drops-buffered-content"] += 1
        ctx.ev.case(key=case, nontrivial=False, labels=("dedicated",))
    n = ctx.pick(350, 6000)
    ctx.pmap(shard, [(ctx.shard_seed(i), n) for i in range(16)])


def classify(f):
    c = f.case
    if c.get("dedicated") == "early-return" and f.key == "output-differs" and ("mako rendered %r," % c["expect_mako"]) in f.detail:
        return "C05-early-return-drops-buffered-content"
    return None


def replay(case):
    core.setup_repo()
    try:
        check_case(case)
    except Failure as f:
        return f
    return None

"""C18 - template text round-trips through input and output encodings.

Domain : templates (text, ${'literal'}, <% s = '..' %>${s}, <%! %>, def defaults, tag attributes, control lines,
         ## and <%doc> comments, a context variable) over the round-tripping repertoire of a codec
         x 11 codecs x 5 declaration styles x 4 construction paths x output_encoding x encoding_errors,
         plus negatives (undecodable bytes, BOM contradicted by the comment).
Oracle : differential stated by the property itself: the bytes, decoded by CPython with the encoding the statement
         selects (comment > BOM > input_encoding > utf-8), compiled as a str template, is the reference; every path
         must render the same text, report the same .source, write a module file that decodes with its own coding
         comment; render() == render_unicode().encode(output_encoding, encoding_errors) (or the same
         UnicodeEncodeError); render_unicode() is str whatever output_encoding says.
"""
import codecs
import io
import itertools
import json
import os
import subprocess
import sys
import tokenize

from vf import core
from vf.core import Failure

PID = "C18"
LEVEL = "exploration"
RULE = (
    "case = (raw template bytes, coding comment, input_encoding, output_encoding, encoding_errors, context value) "
    "evaluated on 4 paths {Template(bytes), Template(filename=), module_directory first load, reload of the existing "
    "module file in a separate freshly started interpreter}; one evaluation = one (case, path). Bytes are built from 2-10 "
    "segments (text, ${'lit'}, <% s='lit' %>${s}, <%! %>, def default, <%call expr>, <%page args>, <%block>, <%text>, "
    "% if / % for lines, ## line, <%doc>, ${v}, ASCII escape literals) over st.characters(codec=..) restricted to "
    "characters with c.encode(codec).decode(codec)==c, encoded with one of 11 codecs {ascii, utf-8, latin-1, cp1251, "
    "cp1252, koi8-r, shift_jis, euc-jp, gb2312, iso-8859-15, utf-8+BOM}, declared in one of 5 styles {comment, "
    "input_encoding, both agreeing, both conflicting, none} with alias spellings and 6 comment layouts; "
    "~1/6 of the cases get 1-3 junk bytes >=0x80 spliced in (expectation recomputed by CPython decoding); BOM cases "
    "get contradicting comments; 'none' on a non-UTF-8 codec is either ASCII-only or decoded as UTF-8 by the "
    "reference. A deterministic sweep codec x style x alias x layout x output config over a fixed per-codec "
    "body is run first. non-trivial = (non-ASCII source characters in >=2 construct kinds and codec != utf-8) or a "
    "conflicting declaration (style 'conflict' or a BOM contradicted by the comment); "
    "distinct by (codec, style, path, sha1 of raw bytes + declaration + output config)."
)
ASSUMPTIONS = [
    "the decoded reference text is produced by CPython's codec of the selected name; the reference template is mako's "
    "own str path (the property IS that differential); segments also carry a by-construction expected output which "
    "must agree with the reference, otherwise the case is rejected and counted (notes.constructed_mismatch)",
    "a UTF-8 BOM outranks input_encoding (statement lists comment > input_encoding and BOM-vs-comment; the lead fixed "
    "comment > BOM > input_encoding > utf-8)",
    "Template.source of a BOM file may or may not keep U+FEFF (statement silent): both accepted",
    "the magic comment is generated on line 1 only; encoding names are aliases known to codecs.lookup; unknown "
    "encoding names, UTF-16/32 and non-text codecs are outside the domain",
    "the 'new process' is one freshly exec'ed interpreter per shard that never compiled the templates it reloads; "
    "it serves the reload requests of that shard one by one so that hypothesis can shrink through it",
    "C0 control characters other than TAB/LF/CRLF are not generated (ASCII-only, irrelevant to encodings); "
    "characters special to Mako ($ < % # \\ { }) are not generated in text",
]

BOM = codecs.BOM_UTF8
CODECS = ["ascii", "utf-8", "latin-1", "cp1251", "cp1252", "koi8-r", "shift_jis", "euc-jp", "gb2312", "iso-8859-15",
          "utf-8-bom"]
STYLES = ["comment", "ie", "agree", "conflict", "none"]
PATHS = ["bytes", "file", "moddir", "reload"]
OUT_ENC = [None, "utf-8", "latin-1", "ascii", "utf-16", "utf-8-sig", "iso2022_jp"]  # incl. encoders that carry state across the text
ERRS = ["strict", "replace", "xmlcharrefreplace", "htmlentityreplace"]
KNOWN_BOM = "C18-bom-alias-conflict"

ALIASES = {
    "ascii": ["ascii", "us-ascii", "ASCII"],
    "utf-8": ["utf-8", "utf8", "UTF-8", "utf_8", "U8"],
    "latin-1": ["latin-1", "iso-8859-1", "latin1", "ISO-8859-1", "L1", "iso8859-1"],
    "cp1251": ["cp1251", "windows-1251", "CP1251"],
    "cp1252": ["cp1252", "windows-1252"],
    "koi8-r": ["koi8-r", "KOI8-R", "koi8_r"],
    "shift_jis": ["shift_jis", "sjis", "shift-jis", "Shift_JIS", "csshiftjis"],
    "euc-jp": ["euc-jp", "euc_jp", "eucjp", "EUC-JP", "ujis"],
    "gb2312": ["gb2312", "GB2312", "euc-cn", "chinese"],
    "iso-8859-15": ["iso-8859-15", "latin9", "iso8859-15", "ISO-8859-15", "l9"],
}
COMMENT_FMT = ["## -*- coding: %s -*-", "## coding: %s", "# -*- coding: %s -*-", "## coding=%s",
               "## vim: set fileencoding=%s :", "##coding:%s"]
# fixed bodies for the sweep: characters chosen for what they do to bytes (0x5C/0x7C trail bytes in shift_jis,
# C1 controls and soft hyphen in latin-1, the euro sign, non-BMP in utf-8, box drawing in koi8-r)
SAMPLE = {
    'ascii': 'abc~',
    'utf-8': '\xe9\u20ac\u65e5\u672c\U0001f600e\u0301\u2028',
    'latin-1': '\xe9\xff\xa0\x85\xad',
    'cp1251': '\u041f\u0440\u0438\u0432\u0435\u0442\u2116\u0451',
    'cp1252': '\u20ac\u0153\xe9\u2122',
    'koi8-r': '\u041f\u0440\u0438\u0432\u0435\u0442\u2554\xa9',
    'shift_jis': '\u65e5\u672c\u8a9e\uff71\u8868\u30bd\u80fd\u2015',
    'euc-jp': '\u65e5\u672c\u8a9e\u8868\u30bd\uff71',
    'gb2312': '\u4e2d\u6587\u6bdb\u6cfd\u4e1c\u3002',
    'iso-8859-15': '\u20ac\u0153\xe9\u017d',
}
ESCAPES = {"\\u20ac": "\u20ac", "\\xe9": "\xe9", "\\U0001f600": "\U0001f600", "\\N{BULLET}": "\u2022",
           "\\u0416": "\u0416", "\\x41": "A"}
ASCII_TEXT = "abcxyzABZ019 .,;:!?()[]=+*-_/>|'\"&@~^`\t"
ASCII_LIT = "abcxyzABZ019 .,;:!?=+*-_/@~^&"


FNX = ["\xe9", "\u65e5\u20ac", "\u0436 \xe9"]  # file-name suffixes that the template's own codec often cannot express
FUTURE = [["annotations"], ["division", "generator_stop"], ["annotations"]]


def real_codec(codec):
    return "utf-8" if codec == "utf-8-bom" else codec


def same_codec(a, b):
    return codecs.lookup(a).name == codecs.lookup(b).name


# ---------------------------------------------------------------------------------------------------------
# observation of one path (runs in the shard process for bytes/file/moddir and in the child for reload)
# ---------------------------------------------------------------------------------------------------------
def _exc(e):
    t = type(e)
    return [t.__module__ + "." + t.__qualname__, str(e)[:240]]


def observe(req):
    """Construct the template the way `req["path"]` says and write down everything the oracle looks at."""
    from mako.template import Template

    kw = dict(input_encoding=req["ie"], output_encoding=req["oe"], encoding_errors=req["errs"])
    if req.get("fi"):
        kw["future_imports"] = list(req["fi"])  # puts a second header line into the generated module
    path = req["path"]
    before = None
    try:
        if path == "bytes":
            t = Template(bytes.fromhex(req["raw"]), uri=req["uri"], **kw)
        elif path == "file":
            t = Template(filename=req["fn"], **kw)
        else:
            if path == "reload" and req.get("modfile") and os.path.exists(req["modfile"]):
                s = os.stat(req["modfile"])
                before = [s.st_ino, s.st_mtime_ns, s.st_size]
            t = Template(filename=req["fn"], module_directory=req["md"], **kw)
    except Exception as e:
        return {"construct_exc": _exc(e)}
    obs = {}
    ctx = {"v": req["v"]}
    try:
        u = t.render_unicode(**ctx)
        obs["u"] = [type(u).__name__, u if isinstance(u, str) else repr(u)]
    except Exception as e:
        obs["u"] = ["exc"] + _exc(e)
    try:
        r = t.render(**ctx)
        if isinstance(r, str):
            obs["r"] = ["str", r]
        elif isinstance(r, bytes):
            obs["r"] = ["bytes", r.hex()]
        else:
            obs["r"] = [type(r).__name__, repr(r)]
    except UnicodeEncodeError as e:
        obs["r"] = ["uee", e.encoding, e.object, e.start, e.end, e.reason]
    except Exception as e:
        obs["r"] = ["exc"] + _exc(e)
    try:
        s = t.source
        obs["source"] = [type(s).__name__, s if isinstance(s, str) else repr(s)]
    except Exception as e:
        obs["source"] = ["exc"] + _exc(e)
    if path in ("moddir", "reload"):
        mf = getattr(t.module, "__file__", None)
        obs["modfile"] = mf
        try:
            with open(mf, "rb") as fh:
                data = fh.read()
            s = os.stat(mf)
            obs["modstat"] = [s.st_ino, s.st_mtime_ns, s.st_size]
            obs["modstat_before"] = before
            # CPython's own PEP 263 detection is the reference for "decodes with its own coding comment"
            enc = tokenize.detect_encoding(io.BytesIO(data).readline)[0]
            text = data.decode(enc)
            obs["mod_decode"] = ["ok", enc]
        except Exception as e:
            text = None
            obs["mod_decode"] = ["exc"] + _exc(e)
        try:
            c = t.code
            if text is not None:
                obs["code"] = ["same"] if c == text else ["differs", repr(c[:80]), repr(text[:80])]
        except Exception as e:
            obs["code"] = ["exc"] + _exc(e)
    return obs


def child_main():
    core.setup_repo()
    out = sys.stdout
    for line in sys.stdin:
        req = json.loads(line)
        out.write(json.dumps(observe(req)) + "\n")
        out.flush()


class Child:
    """A freshly exec'ed interpreter that loads templates from module files it did not write."""

    def __init__(self):
        self.p = None
        self.served = 0

    def ask(self, req):
        if self.p is None:
            env = dict(os.environ)
            self.p = subprocess.Popen(
                [sys.executable, "-c", "from vf.props import c18; c18.child_main()"],
                stdin=subprocess.PIPE, stdout=subprocess.PIPE, cwd=core.VERIF, env=env, text=True)
        self.p.stdin.write(json.dumps(req) + "\n")
        self.p.stdin.flush()
        line = self.p.stdout.readline()
        if not line:
            rc = self.p.wait()
            self.p = None
            raise core.HarnessError("reload child died (rc=%r) on %r" % (rc, req))
        self.served += 1
        return json.loads(line)

    def close(self):
        if self.p is not None:
            try:
                self.p.stdin.close()
                self.p.wait(timeout=20)
            except Exception:
                self.p.kill()
            self.p = None

    def __enter__(self):
        return self

    def __exit__(self, *a):
        self.close()


# ---------------------------------------------------------------------------------------------------------
# oracle
# ---------------------------------------------------------------------------------------------------------
_counter = itertools.count()


class Env:
    def __init__(self, d, child, ev):
        self.d, self.child, self.ev = d, child, ev
        self.md = os.path.join(d, "m")


def expectation(case):
    """What the statement demands for these bytes: ("raise", why) or ("same", decoded_text, selected_encoding)."""
    raw = bytes.fromhex(case["raw"])
    bom = raw.startswith(BOM)
    payload = raw[len(BOM):] if bom else raw
    cenc, ie = case["comment_enc"], case["ie"]
    if bom and cenc and not same_codec(cenc, "utf-8"):
        return ("raise", "bom-contradicted")
    selected = cenc or ("utf-8" if bom else None) or ie or "utf-8"
    try:
        return ("same", payload.decode(selected), selected)
    except UnicodeDecodeError:
        return ("raise", "undecodable")


def _short(case):
    raw = bytes.fromhex(case["raw"])
    return "codec=%s style=%s comment=%r input_encoding=%r output=%r/%s v=%r file-name suffix=%r bytes=%r" % (
        case["codec"], case["style"], case["comment_enc"], case["ie"], case["oe"], case["errs"], case["v"],
        case.get("fnx"), raw)


def check_case(case, env):
    """Evaluate one case on the four paths; raises Failure. Returns (expect kind, paths evaluated, lossy output)
    or None when the case was rejected."""
    from mako.template import Template

    ev = env.ev
    raw = bytes.fromhex(case["raw"])
    bom = raw.startswith(BOM)
    exp = expectation(case)
    n = next(_counter)
    tag = "c18_%d_%d" % (os.getpid(), n)
    ctx = {"v": case["v"]}
    oe, errs = case["oe"], case["errs"]

    def fail(detail, key):
        return Failure(case, "%s || %s" % (detail, _short(case)), key)

    ref_u = None
    decoded = None
    lossy = False
    if exp[0] == "same":
        decoded = exp[1]
        try:
            ref = Template(decoded, uri="/%s_ref.html" % tag)
            ref_u = ref.render_unicode(**ctx)
        except Exception as e:
            ev.rejected += 1
            ev.label("rejected:reference-%s" % type(e).__name__)
            return None
        if not isinstance(ref_u, str):
            raise core.HarnessError("reference render_unicode returned %r" % type(ref_u))
        want = case.get("expected")
        if want is not None and want != ref_u:
            # generator and reference disagree: not this property's business (or a generator bug) - do not judge
            ev.rejected += 1
            ev.label("rejected:constructed-mismatch")
            ev.notes["constructed_mismatch"] = ev.notes.get("constructed_mismatch", 0) + 1
            ev.notes.setdefault("constructed_mismatch_example", [decoded, want, ref_u])
            return None
        # what render() must give
        if oe is None:
            want_r = ["str", ref_u]
        else:
            try:
                want_r = ["bytes", ref_u.encode(oe, errs).hex()]
            except UnicodeEncodeError as e:
                want_r = ["uee", e.encoding, e.object, e.start, e.end, e.reason]
            try:
                ref_u.encode(oe)
            except UnicodeEncodeError:
                lossy = True

    # (the file name and the URI derived from it are written into the module file as string literals)
    fnx = case.get("fnx") or ""
    fn_a = os.path.join(env.d, tag + "_a%s.html" % fnx)
    fn_b = os.path.join(env.d, tag + "_b%s.html" % fnx)
    for fn in (fn_a, fn_b):
        with open(fn, "wb") as fh:
            fh.write(raw)
    base = dict(ie=case["ie"], oe=oe, errs=errs, v=case["v"], fi=case.get("fi"))
    reqs = {
        "bytes": dict(base, path="bytes", raw=case["raw"], uri="/%s_bytes.html" % tag),
        "file": dict(base, path="file", fn=fn_a),
        "moddir": dict(base, path="moddir", fn=fn_b, md=env.md),
        "reload": dict(base, path="reload", fn=fn_b, md=env.md),
    }
    done = []
    modobs = None
    try:
        for path in PATHS:
            if path == "reload":
                if modobs is not None:
                    reqs["reload"]["modfile"] = modobs.get("modfile")
                obs = env.child.ask(reqs[path])
            else:
                obs = observe(reqs[path])
            where = "path=%s" % path
            cx = obs.get("construct_exc")
            if exp[0] == "raise":
                if cx is None:
                    raise fail("%s: expected CompileException (%s), template was built; render_unicode -> %r"
                               % (where, exp[1], obs.get("u")), "negative-not-raised:" + exp[1])
                if cx[0] != "mako.exceptions.CompileException":
                    raise fail("%s: expected CompileException (%s), got %s: %s" % (where, exp[1], cx[0], cx[1]),
                               "negative-wrong-exception:" + exp[1])
                done.append(path)
                continue
            # positive
            if cx is not None:
                cenc = case["comment_enc"]
                if (bom and cenc and cenc != "utf-8" and same_codec(cenc, "utf-8")
                        and cx[0] == "mako.exceptions.CompileException"):
                    raise fail("%s: BOM and comment %r name the same encoding, expected the template of %r; got %s: %s"
                               % (where, cenc, decoded, cx[0], cx[1]), "bom-alias-rejected")
                grp = "module" if path in ("moddir", "reload") and done[:2] == ["bytes", "file"] else "decode"
                raise fail("%s: expected the template of %r (decoded as %s); construction raised %s: %s"
                           % (where, decoded, exp[2], cx[0], cx[1]),
                           "construct-raised:%s:%s" % (grp, cx[0].rsplit(".", 1)[-1]))
            grp = "module" if path in ("moddir", "reload") else "memory"
            u = obs["u"]
            if u[0] != "str":
                raise fail("%s: render_unicode() gave %r, expected str %r" % (where, u, ref_u),
                           "render_unicode-not-str" if u[0] != "exc" else "render_unicode-raised:" + grp)
            if u[1] != ref_u:
                raise fail("%s: render_unicode() = %r, reference Template(%r) gives %r" % (where, u[1], decoded, ref_u),
                           "render_unicode-differs:" + grp)
            r = obs["r"]
            if r != want_r:
                if r[0] != want_r[0]:
                    key = "render-kind:%s-instead-of-%s" % (r[0], want_r[0])
                else:
                    key = "render-%s-differs" % r[0]
                raise fail("%s: render() -> %r, expected %r (= render_unicode().encode(%r, %r))"
                           % (where, _unhex(r), _unhex(want_r), oe, errs), key)
            s = obs["source"]
            ok_src = s[0] == "str" and (s[1] == decoded or (bom and s[1] == "\ufeff" + decoded))
            if not ok_src:
                raise fail("%s: Template.source -> %r, expected %r" % (where, s, decoded), "source-differs:" + grp)
            if path in ("moddir", "reload"):
                md_ = obs["mod_decode"]
                if md_[0] != "ok":
                    raise fail("%s: module file %s does not decode with its own coding comment: %r"
                               % (where, obs.get("modfile"), md_), "module-file-undecodable")
                c = obs.get("code")
                if c != ["same"]:
                    raise fail("%s: Template.code vs module file decoded as %s: %r" % (where, md_[1], c),
                               "module-code-differs")
                if path == "moddir":
                    modobs = obs
                else:
                    if obs.get("modstat_before") is None or obs["modstat_before"] != obs["modstat"] \
                            or modobs is None or obs["modstat"] != modobs["modstat"]:
                        ev.label("reload-regenerated")
                        ev.notes["reload_regenerated"] = ev.notes.get("reload_regenerated", 0) + 1
            done.append(path)
    finally:
        for fn in (fn_a, fn_b):
            try:
                os.unlink(fn)
            except OSError:
                pass
        if modobs is not None and modobs.get("modfile"):
            try:
                os.unlink(modobs["modfile"])
            except OSError:
                pass
    return exp[0], done, lossy


def _unhex(r):
    if r and r[0] == "bytes":
        return ["bytes", bytes.fromhex(r[1])]
    return r


def record(case, res, ev):
    """Evidence for one evaluated case (4 evaluations, one per path)."""
    kind, done, lossy = res
    negative = kind == "raise"
    conflict = case["style"] == "conflict" or case.get("neg") == "bom-contradicted"
    nt = bool((case.get("na_kinds", 0) >= 2 and case["codec"] != "utf-8") or conflict)
    h = core.fp([case["raw"], case["comment_enc"], case["ie"], case["oe"], case["errs"], case["v"], case.get("fi"), case.get("fnx")])
    for path in done:
        ev.case(key=(case["codec"], case["style"], path, h), nontrivial=nt,
                labels=("cell:%s/%s/%s" % (case["codec"], case["style"], path),))
    ev.label("expect:" + ("CompileException" if negative else "same-template"))
    ev.label("out:%s/%s" % (case["oe"], case["errs"]))
    for k in case.get("kinds", ()):
        ev.label("seg:" + k)
    if case.get("junk"):
        ev.label("junk-bytes:" + ("undecodable" if negative else "decodable"))
    if nt:
        ev.label("nontrivial-case")
    if not negative and case["oe"]:
        ev.label("output-encoded:" + ("error-handler-used" if lossy else "all-encodable"))


# ---------------------------------------------------------------------------------------------------------
# generator
# ---------------------------------------------------------------------------------------------------------
class Doc:
    def __init__(self):
        self.src, self.exp = [], []
        self.kinds = set()
        self.na = set()
        self.n = 0
        self.page = False

    def emit(self, s, e, kind, *parts):
        self.src.append(s)
        self.exp.append(e)
        self.kinds.add(kind)
        if any(ord(c) > 127 for p in parts for c in p):
            self.na.add(kind)

    def line_start(self):
        s = "".join(self.src)
        if s and not s.endswith("\n"):
            self.src.append("\n")
            self.exp.append("\n")

    def add(self, seg, v):
        k = seg[0]
        self.n += 1
        i = self.n
        if k == "text":
            t = seg[1]
            self.emit(t, t, "text", t)
        elif k == "expr":
            self.emit("${'%s'}" % seg[1], seg[1], "expr", seg[1])
        elif k == "code":
            if seg[2]:
                self.emit("<%%\n    s%d = '%s'\n%%>${s%d}" % (i, seg[1], i), seg[1], "code", seg[1])
            else:
                self.emit("<%% s%d = '%s' %%>${s%d}" % (i, seg[1], i), seg[1], "code", seg[1])
        elif k == "modcode":
            self.emit("<%%! m%d = '%s' %%>${m%d}" % (i, seg[1], i), seg[1], "modcode", seg[1])
        elif k == "def":
            self.emit("<%%def name=\"d%d(x='%s')\">%s${x}</%%def>${d%d()}" % (i, seg[1], seg[2], i),
                      seg[2] + seg[1], "def-default", seg[1], seg[2])
        elif k == "call":
            self.emit("<%%def name=\"c%d(x)\">[${x}]</%%def><%%call expr=\"c%d('%s')\"></%%call>" % (i, i, seg[1]),
                      "[%s]" % seg[1], "call-attr", seg[1])
        elif k == "page":
            if self.page:
                self.emit("${'%s'}" % seg[1], seg[1], "expr", seg[1])
            else:
                self.page = True
                self.emit("<%%page args=\"p='%s'\"/>${p}" % seg[1], seg[1], "page-attr", seg[1])
        elif k == "block":
            self.emit("<%%block name=\"b%d\">%s</%%block>" % (i, seg[1]), seg[1], "block", seg[1])
        elif k == "texttag":
            self.emit("<%%text>%s</%%text>" % seg[1], seg[1], "texttag", seg[1])
        elif k == "if":
            self.line_start()
            self.emit("%% if '%s' != 'zzzzzzz':\n%s\n%% endif\n" % (seg[1], seg[2]), seg[2] + "\n", "control-if", seg[1], seg[2])
        elif k == "for":
            self.line_start()
            self.emit("%% for c%d in '%s':\n${c%d}\n%% endfor\n" % (i, seg[1], i), "".join(c + "\n" for c in seg[1]),
                      "control-for", seg[1])
        elif k == "comment":
            self.line_start()
            if not self.src:
                self.emit("x\n", "x\n", "text")  # line 1 must not look like a coding comment
            self.emit("## %s\n" % seg[1], "", "comment", seg[1])
        elif k == "doc":
            self.emit("<%%doc>%s</%%doc>" % seg[1], "", "doc", seg[1])
        elif k == "var":
            self.emit("${v}", v, "var")
        elif k == "escape":
            self.emit("${'%s'}" % seg[1], ESCAPES[seg[1]], "escape")
        elif k == "defescape":
            # an escape sequence in an argument default: regenerated from its AST into the module, whatever the codec
            self.emit("<%%def name=\"e%d(x='%s')\">${x}</%%def>${e%d()}" % (i, seg[1], i), ESCAPES[seg[1]], "defescape")
        else:
            raise core.HarnessError("unknown segment %r" % (seg,))


_alpha_cache = {}


def roundtrips(c, cs):
    try:
        return c.encode(cs).decode(cs) == c
    except UnicodeError:
        return False


def encodable(c, cs):
    try:
        c.encode(cs)
        return True
    except UnicodeError:
        return False


def alphabet(codec, ascii_only):
    """hypothesis strategies for (text, one-line text, literal) over the round-tripping repertoire of the codec."""
    from hypothesis import strategies as st

    key = (codec, ascii_only)
    if key in _alpha_cache:
        return _alpha_cache[key]
    cs = real_codec(codec)
    a_text = st.sampled_from(ASCII_TEXT)
    a_lit = st.sampled_from(ASCII_LIT)
    if ascii_only or cs == "ascii":
        tchar, lchar = a_text, a_lit
    else:
        bad = "" if cs == "utf-8" else "".join(c for c in map(chr, range(0x80, 0x10000)) if not (0xD800 <= ord(c) < 0xE000)
                                             and encodable(c, cs) and not roundtrips(c, cs))
        na = st.characters(codec=cs, min_codepoint=0x80, exclude_characters=bad).filter(lambda c: roundtrips(c, cs))
        tchar = st.one_of(na, na, a_text)
        lchar = st.one_of(na, na, a_lit)
    line = st.text(tchar, max_size=6)
    text = st.lists(st.one_of(tchar, tchar, tchar, st.sampled_from(["\n", "\r\n", " "])), min_size=1, max_size=8).map("".join)
    lit = st.text(lchar, max_size=5)
    _alpha_cache[key] = (text, line, lit)
    return _alpha_cache[key]


def segments(codec, ascii_only):
    from hypothesis import strategies as st

    text, line, lit = alphabet(codec, ascii_only)
    return st.one_of(
        st.tuples(st.just("text"), text),
        st.tuples(st.just("text"), text),
        st.tuples(st.just("expr"), lit),
        st.tuples(st.just("expr"), lit),
        st.tuples(st.just("code"), lit, st.booleans()),
        st.tuples(st.just("modcode"), lit),
        st.tuples(st.just("def"), lit, text),
        st.tuples(st.just("call"), lit),
        st.tuples(st.just("page"), lit),
        st.tuples(st.just("block"), text),
        st.tuples(st.just("texttag"), text),
        st.tuples(st.just("if"), lit, line),
        st.tuples(st.just("for"), lit),
        st.tuples(st.just("comment"), line),
        st.tuples(st.just("doc"), text),
        st.tuples(st.just("var")),
        st.tuples(st.just("escape"), st.sampled_from(sorted(ESCAPES))),
        st.tuples(st.just("defescape"), st.sampled_from(sorted(ESCAPES))),
    )


def make_case(codec, style, segs, v, oe, errs, comment_enc=None, fmt=0, trail="", term="\n", ie=None, junk=None,
              neg=None, fi=None, fnx=None):
    """Assemble the serialisable case. comment_enc / ie are the *spelled* names (None = absent)."""
    cs = real_codec(codec)
    doc = Doc()
    for sg in segs:
        doc.add(sg, v)
    body = "".join(doc.src)
    if body.startswith("#"):
        raise core.HarnessError("generated body starts with '#': %r" % body)
    head = ""
    if comment_enc is not None:
        head = COMMENT_FMT[fmt] % comment_enc + ((" " + trail) if trail else "") + term
    hb = head.encode(cs)
    bb = body.encode(cs)
    if junk:
        pos, jb = junk
        pos = len(bb) if pos < 0 else pos % (len(bb) + 1)  # (-1: at the very end of the input)
        bb = bb[:pos] + bytes.fromhex(jb) + bb[pos:]
    raw = (BOM if codec == "utf-8-bom" else b"") + hb + bb
    expected = "".join(doc.exp)
    if junk or raw.startswith(BOM) != (codec == "utf-8-bom"):
        expected = None
    elif style == "none" and codec not in ("ascii", "utf-8", "utf-8-bom") and any(b > 127 for b in raw):
        expected = None  # reference is the UTF-8 reading of these bytes, whatever it is
    return {
        "codec": codec, "style": style, "raw": raw.hex(), "comment_enc": comment_enc, "ie": ie, "oe": oe, "errs": errs,
        "v": v, "expected": expected, "na_kinds": len(doc.na), "kinds": sorted(doc.kinds), "junk": bool(junk),
        "neg": neg, "fi": fi, "fnx": fnx,
    }


def other_codecs(cs):
    return [c for c in CODECS[:-1] if not same_codec(c, cs)]


def case_strategy(codec, style):
    from hypothesis import strategies as st

    cs = real_codec(codec)
    isbom = codec == "utf-8-bom"
    can_be_ascii_only = style == "none" and codec not in ("ascii", "utf-8", "utf-8-bom")
    seglists = {a: st.lists(segments(codec, a), min_size=2, max_size=10) for a in ((False, True) if can_be_ascii_only
                                                                                   else (False,))}
    lines = {a: alphabet(codec, a)[1] for a in seglists}
    v_st = st.text(st.characters(exclude_categories=("Cs",)), max_size=5)
    oe_st, errs_st = st.sampled_from(OUT_ENC), st.sampled_from(ERRS)
    own = st.sampled_from(ALIASES[cs])
    # BOM: the canonical spelling most of the time (other spellings run into the known finding)
    own_c = st.sampled_from(["utf-8"] * 8 + ALIASES["utf-8"]) if isbom else own
    other = st.sampled_from([a for c in other_codecs(cs) for a in ALIASES[c][:2]])
    fmt_st = st.integers(0, len(COMMENT_FMT) - 1)
    term_st = st.sampled_from(["\n", "\n", "\r\n"])
    one_in_4 = st.sampled_from([True] + [False] * 3)
    one_in_10 = st.sampled_from([True] + [False] * 9)
    junk_st = st.tuples(st.integers(0, 400),
                        st.lists(st.integers(0x80, 0xFF), min_size=1, max_size=3).map(lambda l: bytes(l).hex()))

    @st.composite
    def build(draw):
        ascii_only = draw(st.booleans()) if can_be_ascii_only else False
        segs = draw(seglists[ascii_only])
        v = draw(v_st)
        oe = draw(oe_st)
        errs = draw(errs_st)
        comment_enc = ie = neg = None
        if style == "comment":
            if isbom and draw(one_in_4):
                comment_enc, neg = draw(other), "bom-contradicted"
            else:
                comment_enc = draw(own_c)
        elif style == "ie":
            ie = draw(own)
        elif style == "agree":
            comment_enc, ie = draw(own_c), draw(own)
        elif style == "conflict":
            if isbom and draw(one_in_4):
                comment_enc, ie, neg = draw(other), draw(own), "bom-contradicted"
            else:
                comment_enc, ie = draw(own_c), draw(other)
        fmt = 0
        trail = ""
        term = "\n"
        if comment_enc is not None:
            fmt = draw(fmt_st)
            term = draw(term_st)
            if draw(one_in_4):
                trail = draw(lines[ascii_only]).replace(":", ".").replace("=", ".").replace("\n", " ")
        junk = draw(junk_st) if draw(one_in_10) else None
        if junk is None and draw(one_in_10):
            # a multi-byte character cut short by the end of the input
            mb = [c for c in SAMPLE[cs] if len(c.encode(cs)) >= 2]
            if mb:
                enc_ = draw(st.sampled_from(mb)).encode(cs)
                junk = (-1, enc_[:draw(st.integers(1, len(enc_) - 1))].hex())
        fi = draw(st.sampled_from(FUTURE)) if draw(one_in_4) else None
        fnx = draw(st.sampled_from(FNX)) if draw(one_in_4) else None
        return make_case(codec, style, segs, v, oe, errs, comment_enc=comment_enc, fmt=fmt, trail=trail,
                         term=term, ie=ie, junk=junk, neg=neg, fi=fi, fnx=fnx)

    return build()


# ---------------------------------------------------------------------------------------------------------
# shards
# ---------------------------------------------------------------------------------------------------------
def classify(f):
    if f.key == "bom-alias-rejected":
        return KNOWN_BOM
    return None


def run_random(env, codec, style, seed, n):
    ev = env.ev
    seen = [0]

    def check(case):
        res = check_case(case, env)
        if res is not None:
            record(case, res, ev)
            seen[0] += 1
            if seen[0] > 25 and case.get("na_kinds", 0) >= 3 and 50 < len(bytes.fromhex(case["raw"])) < 220:
                ev.sample({k: case[k] for k in ("codec", "style", "comment_enc", "ie", "oe", "errs", "v")}
                          | {"bytes": repr(bytes.fromhex(case["raw"]))}, codec + "/" + style)

    # BOM + alias spelling is a known finding reported by the dedicated part; keep searching behind it
    fails, known = core.hyp_search(case_strategy(codec, style), check, ev, seed, n, classify=classify,
                                   known={KNOWN_BOM: True})
    return fails


def shard_random(task):
    codec, style, seed, n = task
    core.setup_repo()
    ev = core.Evidence()
    with core.TempDir() as d, Child() as child:
        fails = run_random(Env(d, child, ev), codec, style, seed, n)
        ev.notes["reload_child_requests"] = child.served
    return ev, fails


def shard_cell(task):
    """quick tier: sweep slice and random search of one (codec, style) cell behind one reload child."""
    codec, style, seed, n = task
    core.setup_repo()
    ev = core.Evidence()
    with core.TempDir() as d, Child() as child:
        env = Env(d, child, ev)
        fails = run_sweep(env, codec, style, True, 0, 1)
        fails += run_random(env, codec, style, seed, n)
        ev.notes["reload_child_requests"] = child.served
    return ev, fails


def sweep_cases(codec, style, quick):
    """Deterministic product: alias spellings x comment layouts x output configs over the fixed body of the codec."""
    cs = real_codec(codec)
    s = SAMPLE[cs]
    segs = [("text", "t:" + s + "\n"), ("expr", s), ("code", s, False), ("def", s, s), ("call", s), ("page", s),
            ("if", s, s), ("for", s), ("modcode", s), ("comment", s), ("doc", s + "\n" + s), ("var",),
            ("escape", "\\u20ac"), ("defescape", "\\u20ac"), ("text", s)]
    own = ALIASES[cs]
    others = [ALIASES[c][0] for c in other_codecs(cs)]
    isbom = codec == "utf-8-bom"
    # after a BOM: text whose first characters are themselves encoded from the bytes of the BOM (EF BB BF) or begin with EF
    segs_bom = [("text", "\ufefb\uff01\ufeff\ufffb first\n")] + segs
    decls = []
    if style == "comment":
        decls = [(a, None, None) for a in own]
        if isbom:
            decls += [(o, None, "bom-contradicted") for o in others]
    elif style == "ie":
        decls = [(None, a, None) for a in own]
    elif style == "agree":
        decls = [(a, b, None) for a in own for b in own]
    elif style == "conflict":
        decls = [(own[0], o, None) for o in others] + [(a, others[0], None) for a in own[1:]]
        if isbom:
            decls += [(o, own[0], "bom-contradicted") for o in others]
    else:
        decls = [(None, None, None)]
    if quick and style == "agree":
        decls = [(a, own[(k + 1) % len(own)], None) for k, a in enumerate(own)]
    outs = [(oe, er) for oe in OUT_ENC for er in ERRS]
    vs = ["", "\xe9\u20ac\U0001f600<&"]
    i = 0
    for k, (cenc, ie, neg) in enumerate(decls):
        if cenc is None:
            fmts = [0]
        elif quick and style != "comment":
            fmts = [k % len(COMMENT_FMT)]
        else:
            fmts = range(len(COMMENT_FMT))
        for fmt in fmts:
            i += 1
            if quick:
                sel = [outs[(i * 5 + j * 7) % len(outs)] for j in range(2)]
            else:
                sel = outs
            for oe, er in sel:
                v = vs[(i + len(er)) % 2]
                yield (codec, style, segs_bom if (isbom and i % 2 == 0) else segs, v, oe, er), dict(comment_enc=cenc, fmt=fmt, ie=ie, neg=neg,
                                                            fi=FUTURE[i % len(FUTURE)] if i % 3 == 1 else None,
                                                            fnx=FNX[i % len(FNX)] if i % 4 == 2 else None,
                                                            term="\r\n" if i % 4 == 0 else "\n",
                                                            trail=s if i % 3 == 0 else "")
    # in every cell: the same body with a multi-byte character cut short by the end of the input must be refused
    mb = [c for c in SAMPLE[cs] if len(c.encode(cs)) >= 2]
    if mb and decls:
        cenc, ie, neg = decls[0]
        for c in mb[:2]:
            e_ = c.encode(cs)
            for cut in range(1, len(e_)):
                yield (codec, style, segs, "", OUT_ENC[0], ERRS[0]), dict(comment_enc=cenc, fmt=0, ie=ie, neg=neg, junk=(-1, e_[:cut].hex()))


def minimise(args, kw, f0, env):
    """Greedy reduction of a failing sweep case (segments, then payload strings, then decoration), same key."""
    codec, style, segs, v, oe, er = args
    scratch = Env(env.d, env.child, core.Evidence())
    best = {"f": f0}

    def still(segs_, v_, kw_):
        try:
            check_case(make_case(codec, style, segs_, v_, oe, er, **kw_), scratch)
        except Failure as f:
            if f.key == f0.key:
                best["f"] = f
                return True
        return False

    segs = list(segs)
    kw = dict(kw)
    i = 0
    while i < len(segs) and len(segs) > 1:
        trial = segs[:i] + segs[i + 1:]
        if still(trial, v, kw):
            segs = trial
        else:
            i += 1
    if v and still(segs, "", kw):
        v = ""
    if kw.get("trail") and still(segs, v, dict(kw, trail="")):
        kw["trail"] = ""
    if kw.get("fi") and still(segs, v, dict(kw, fi=None)):
        kw["fi"] = None
    if kw.get("fnx") and still(segs, v, dict(kw, fnx=None)):
        kw["fnx"] = None
    for i, sg in enumerate(segs):
        for j in range(1, len(sg)):
            if not isinstance(sg[j], str) or sg[0] in ("escape", "defescape") or len(sg[j]) <= 1:
                continue
            for cand in [""] + sorted(set(sg[j]), key=sg[j].index):
                trial = list(segs)
                trial[i] = sg[:j] + (cand,) + sg[j + 1:]
                if still(trial, v, kw):
                    segs = trial
                    sg = trial[i]
                    break
    return best["f"]


def run_sweep(env, codec, style, quick, idx, of):
    ev = env.ev
    fails = {}
    for k, (args, kw) in enumerate(sweep_cases(codec, style, quick)):
        if k % of != idx:
            continue
        case = make_case(*args, **kw)
        try:
            res = check_case(case, env)
        except Failure as f:
            if classify(f) == KNOWN_BOM:
                ev.excluded_known[KNOWN_BOM] += 1
            elif f.key not in fails:
                fails[f.key] = minimise(args, kw, f, env)
            continue
        if res is not None:
            record(case, res, ev)
            ev.label("sweep-case")
    return list(fails.values())


def shard_sweep(task):
    codec, style, quick, idx, of = task
    core.setup_repo()
    ev = core.Evidence()
    with core.TempDir() as d, Child() as child:
        fails = run_sweep(Env(d, child, ev), codec, style, quick, idx, of)
        ev.notes["reload_child_requests"] = child.served
    return ev, fails


def shard_known(task):
    """The BOM + same-encoding-other-spelling cases, run on every invocation so the finding stays visible."""
    core.setup_repo()
    ev = core.Evidence()
    fails = {}
    with core.TempDir() as d, Child() as child:
        env = Env(d, child, ev)
        for alias in ALIASES["utf-8"][1:] + ["Utf-8"]:
            for style, ie in (("comment", None), ("agree", "utf-8")):
                case = make_case("utf-8-bom", style, [("text", "hé "), ("expr", "€")], "", None, "strict",
                                 comment_enc=alias, fmt=1, ie=ie)
                try:
                    res = check_case(case, env)
                except Failure as f:
                    ev.case(key=("known", alias, style), nontrivial=True, labels=("bom-alias:" + f.key,))
                    fails.setdefault(f.key, f)
                    continue
                if res is not None:
                    record(case, res, ev)
                    ev.label("bom-alias:accepted")
    return ev, list(fails.values())


def run(ctx):
    ev = ctx.ev
    part = getattr(ctx, "part", None)
    cells = [(c, s) for c in CODECS for s in STYLES]
    if part and ":" in part:  # debugging: "--part random:shift_jis" / "sweep:utf-8-bom/conflict"
        part, sel = part.split(":", 1)
        cells = [(c, s) for c, s in cells if sel in (c, s, "%s/%s" % (c, s))]
    if part in (None, "known"):
        ctx.pmap(shard_known, [0])
    reps = ctx.pick(1, 4)
    n = ctx.pick(48, 500)
    if part is None and ctx.quick:
        # one task (one reload child) per cell: sweep slice, then random search
        ctx.pmap(shard_cell, [(c, s, ctx.shard_seed("%s/%s/0" % (c, s), "random"), n) for c, s in cells])
    else:
        if part in (None, "sweep"):
            tasks = []
            for c, s in cells:
                of = 1 if ctx.quick or s in ("ie", "none") else (8 if s == "agree" else 4)
                tasks += [(c, s, ctx.quick, i, of) for i in range(of)]
            ctx.pmap(shard_sweep, tasks)
        if part in (None, "random"):
            tasks = [(c, s, ctx.shard_seed("%s/%s/%d" % (c, s, r), "random"), n) for r in range(reps) for c, s in cells]
            ctx.pmap(shard_random, tasks)
    # grid coverage: 11 codecs x 5 styles x 4 paths
    grid = {}
    hit = 0
    low = None
    for c in CODECS:
        grid[c] = {}
        for s in STYLES:
            row = [ev.labels.pop("cell:%s/%s/%s" % (c, s, p), 0) for p in PATHS]
            grid[c][s] = row
            hit += sum(1 for x in row if x)
            m = min(row)
            low = m if low is None else min(low, m)
    ev.notes["grid_cells_hit"] = "%d of %d" % (hit, len(CODECS) * len(STYLES) * len(PATHS))
    ev.notes["grid_min_evaluations_per_cell"] = low
    ev.notes["grid_counts[codec][style]=[bytes,file,moddir,reload]"] = grid
    ev.exhaustive = part in (None, "sweep")
    ev.notes["exhaustive_domains"] = (
        "sweep over one fixed 14-segment body per codec: " + (
            "codec x style x every alias spelling (agree: cyclic alias pairs) x every contradicting codec; all 6 comment "
            "layouts for style comment, one rotating layout otherwise; 2 of the output configs each" if ctx.quick else
            "codec x style x every alias spelling (agree: all alias pairs) x every contradicting codec x 6 comment "
            "layouts x all (output_encoding, encoding_errors) pairs"))


def replay(case):
    core.setup_repo()
    ev = core.Evidence()
    with core.TempDir() as d, Child() as child:
        try:
            check_case(case, Env(d, child, ev))
        except Failure as f:
            return f
    return None

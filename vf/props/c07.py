"""C07 - namespaces and includes reach other templates with the right context and URI.

Domain : sets of 2..8 templates in a directory tree (depth 0..3, 1..2 lookup roots, file-backed or put_string) connected by
         <%namespace name file>, <%namespace file import="a, b"|"*">, inline-def namespaces (with/without file),
         inheritable namespaces reached through self, module= namespaces, <%include file args> with args overlapping
         context names, local.get_namespace / get_template / include_file; relative (x, sub/x, ../x, ./x) and absolute
         URIs; unresolvable targets.
Oracle : a resolution + rendering model written from the statement: relative -> join(dirname(URI of the template the
         construct is written in), uri); absolute -> lookup roots in order; member order inline defs > file defs/body >
         inherited; import names shadow context variables; include = independent render (own self/local, no parent/next),
         page args from args first, context second; unresolvable -> TemplateLookupException.
"""
import itertools
import os
import posixpath

from vf import core
from vf.core import Failure

PID = "C07"
LEVEL = "exploration"
RULE = (
    "case = template set (2..8 files, dirs of depth 0..3, 1-2 roots, files or put_string) + edges; every template prints "
    "markers naming itself, its arguments, self.uri/local.uri and whether parent/next exist; edges are spelled relative or "
    "absolute. non-trivial = >=3 templates in >=2 directories with both a relative and an absolute edge and at least one of "
    "{import, inline defs, include args overlapping context}; distinct by case fingerprint."
)
ASSUMPTIONS = [
    "relative URIs containing '..' only with file-backed lookups (put_string keys are literal URIs)",
    "one helper module (vf.gen.c07_helper) for module= namespaces",
    "unresolvable targets are placed only in constructs that are certainly executed",
]
DIRS = ["", "sub", "sub/deep", "other", "sub/deep/er"]
CTX = {"cv": "ctx-cv", "f3": "ctx-f3", "f1": "ctx-f1", "r": "ctx-r", "q": "ctx-q"}
_cnt = itertools.count()


class G:
    def __init__(self, data):
        self.data = data
        self.pos = 0

    def _b(self):
        if self.pos < len(self.data):
            b = self.data[self.pos]
            self.pos += 1
            return b
        return 0

    def pick(self, seq):
        seq = list(seq)
        return seq[self._b() % len(seq)]

    def chance(self, p):
        return (self._b() % 100) >= 100 - p

    def int(self, a, b):
        return a + self._b() % (b - a + 1)


def spell(g, frm, to, files):
    """spell the URI of template `to` as written inside template `frm`; -> (text, kind)"""
    if g.chance(45):
        return to, "abs"
    rel = posixpath.relpath(to, posixpath.dirname(frm) or "/")
    if ".." in rel and not files:
        return to, "abs"
    if g.chance(20) and not rel.startswith("..") and files:
        rel = "./" + rel
    return rel, "rel"


def build(data):
    g = G(data)
    n = g.int(2, 8)
    files = g.chance(70)
    nroots = g.int(1, 2) if files else 1
    T = []
    for i in range(n):
        d = g.pick(DIRS)
        uri = "/" + (d + "/" if d else "") + "t%d.html" % i
        T.append({"uri": uri, "root": g.int(0, nroots - 1), "defs": {}, "ns": [], "body": [], "page": [], "inherit": None,
                  "shadow": None})
    # a file present in both roots under the same URI: first root wins
    if nroots == 2 and g.chance(40):
        k = g.int(1, n - 1)
        T[k]["root"] = 0
        T[k]["shadow"] = True  # another copy with different content lives in root 1
    case = {"templates": T, "files": files, "nroots": nroots, "missing": None, "strict": g.chance(35)}
    for i in range(n - 1, -1, -1):
        t = T[i]
        later = list(range(i + 1, n))
        # lib-like members
        t["role"] = "main" if (i == 0 or g.chance(30)) else "lib"
        for name in ("f1", "f2", "f3"):
            if t["role"] == "lib" and g.chance(60):
                items = [["text", "{%s.%s:" % (t["uri"], name)], ["arg", "a"]]
                if later and g.chance(45):
                    j = g.pick(later)
                    sp, kind = spell(g, t["uri"], T[j]["uri"], files)
                    how = g.pick(["include", "include", "incfile", "gettemplate", "getns"])
                    if how == "getns" and not T[j]["defs"]:
                        how = "gettemplate"
                    if how == "include":
                        items.append(["include", sp, {}, kind])
                    elif how == "incfile":
                        items.append(["incfile", sp, {}, kind])
                    elif how == "gettemplate":
                        items.append(["gettemplate", sp, kind])
                    else:
                        items.append(["getns", sp, sorted(T[j]["defs"])[0], "'d%d'" % next(_cnt), kind])
                items.append(["text", "}"])
                t["defs"][name] = items
        if i > 0 and g.chance(60):
            t["page"] = [["p", "dp"], ["q", "dq"], ["r", "dr"]][: g.int(1, 3)]
        body = [["text", "[%s" % t["uri"]], ["probe"]]
        for a, _ in t["page"]:
            body.append(["arg", a])
        used = 0
        for _ in range(g.int(0, 3) if i else g.int(2, 5)):
            if not later:
                break
            j = g.pick(later)
            tgt = T[j]
            sp, kind = spell(g, t["uri"], tgt["uri"], files)
            form = g.pick(["ns", "ns", "import", "star", "inline+file", "include", "include", "getns", "incfile", "gettemplate"])
            tdefs = sorted(tgt["defs"])
            if t["role"] == "lib" and form in ("import", "star"):
                form = "ns"  # own top-level defs would shadow imported names: precedence not stated by the property
            if form in ("ns", "import", "star", "inline+file", "getns") and not tdefs and form != "inline+file":
                form = "include"
            if form == "ns":
                name = "ns%d" % len(t["ns"])
                t["ns"].append({"name": name, "file": sp, "kind": kind, "import": None, "inline": []})
                body.append(["callns", name, g.pick(tdefs), "'a%d'" % next(_cnt)])
                if g.chance(30):
                    body.append(["callbody", name])
            elif form == "import":
                imp = [d for d in tdefs if g.chance(60)] or [tdefs[0]]
                prev = [x for x in t["ns"] if x.get("import")]
                if prev:
                    # a second unnamed importing namespace (both tags end up on one source line): only names that neither
                    # the first one imports nor the context checks (f1, f3) use, so that precedence never matters
                    taken = {d for x in prev for d in (x["import"] if x["import"] != ["*"] else x.get("_names", []))}
                    taken |= {d for x in t["ns"] for d in x["inline"]}
                    imp = [d for d in tdefs if d not in taken and d not in ("f1", "f3")]
                    if not imp or len(prev) > 1:
                        continue
                    t["ns"].append({"name": None, "file": sp, "kind": kind, "import": imp, "inline": []})
                    for d in imp:
                        body.append(["callimp", d, "'i%d'" % next(_cnt)])
                    continue
                t["ns"].append({"name": None, "file": sp, "kind": kind, "import": imp, "inline": []})
                for d in imp:
                    body.append(["callimp", d, "'i%d'" % next(_cnt)])
                for d in ("f1", "f3"):
                    if d not in imp:
                        body.append(["ctxvar", d])
            elif form == "star":
                if any(x.get("import") for x in t["ns"]):
                    continue
                t["ns"].append({"name": None, "file": sp, "kind": kind, "import": ["*"], "inline": [], "_names": list(tdefs)})
                for d in tdefs:
                    body.append(["callimp", d, "'s%d'" % next(_cnt)])
                for d in ("f1", "f3"):
                    if d not in tdefs:
                        body.append(["ctxvar", d])
            elif form == "inline+file":
                name = "ns%d" % len(t["ns"])
                inl = ["f1"] if g.chance(60) else ["g1"]
                withfile = bool(tdefs) and g.chance(60)
                imp = None
                if t["role"] != "lib" and not any(x.get("import") for x in t["ns"]) and g.chance(50):
                    # unqualified use: the def written inside the tag still outranks a file def of the same name
                    imp = ["*"] if g.chance(50) else sorted(set(inl + (tdefs[:1] if withfile else [])))
                t["ns"].append({"name": name, "file": sp if withfile else None, "kind": kind, "import": imp, "inline": inl,
                                "_names": list(tdefs) if withfile else []})
                body.append(["callns", name, inl[0], "'n%d'" % next(_cnt)])
                if imp:
                    body.append(["callimp", inl[0], "'j%d'" % next(_cnt)])
                    if withfile:
                        for d in (tdefs if imp == ["*"] else [x for x in imp if x in tdefs]):
                            body.append(["callimp", d, "'k%d'" % next(_cnt)])
                if withfile:
                    other = [d for d in tdefs if d not in inl]
                    if other:
                        body.append(["callns", name, other[0], "'m%d'" % next(_cnt)])
            elif form == "include":
                args = {}
                for a, _ in tgt["page"]:
                    if g.chance(50):
                        # falsy values are arguments like any other: presence decides, not truth
                        args[a] = g.pick(["'inc-%s'" % a, "cv", "''", "0", "None", "'inc2-%s'" % a])
                body.append(["include", sp, args, kind])
            elif form == "getns":
                body.append(["getns", sp, g.pick(tdefs), "'g%d'" % next(_cnt), kind])
            elif form == "incfile":
                kw = {a: "'kw-%s'" % a for a, _ in tgt["page"] if g.chance(50)}
                body.append(["incfile", sp, kw, kind])
            else:
                body.append(["gettemplate", sp, kind])
            used += 1
        if i == 0 and g.chance(25):
            body.append(["modcall", "hello", "'mod'"])
            inl = []
            if g.chance(50):
                # a def written inside the tag outranks the module's callable of the same name
                inl = ["both"]
                body.append(["callns", "mod", "both", "'mb'"])
            else:
                body.append(["modcall", "both", "'mb'"])
            t["ns"].append({"name": "mod", "module": "vf.gen.c07_helper", "file": None, "import": None, "inline": inl})
        # a def written inside a <%namespace> tag may call, unqualified, what the template imports from another
        # namespace - whichever of the two tags comes first
        imps = [x for x in t["ns"] if x.get("import")]
        if imps:
            inline_names = [d for x in t["ns"] for d in x["inline"]]
            avail = [d for d in (imps[0]["import"] if imps[0]["import"] != ["*"] else imps[0].get("_names", []))
                     if d not in inline_names and d != "*"]
            for x in t["ns"]:
                if x["inline"] and x is not imps[0] and avail and g.chance(60):
                    x["inline_calls"] = g.pick(avail)
        body.append(["text", "]"])
        t["body"] = body
    # inheritance of the entry template from a later one that holds an inheritable namespace
    import json as _json
    def _refd(k):
        blob = _json.dumps([[t["ns"], t["body"], t["defs"]] for t in T if t is not T[k]])
        return ("t%d.html" % k) in blob
    unref = [k for k in range(1, n) if not _refd(k) and not T[k]["page"]]
    if n >= 3 and unref and g.chance(60):
        b = g.pick(unref)
        base = T[b]
        later = [j for j in range(b + 1, n) if T[j]["defs"]]
        if later and not base["page"]:
            j = g.pick(later)
            sp, kind = spell(g, base["uri"], T[j]["uri"], files)
            base["ns"].append({"name": "inh", "file": sp, "kind": kind, "import": None, "inline": [], "inheritable": True})
            base["body"].insert(len(base["body"]) - 1, ["nextbody"])
            sp0, kind0 = spell(g, T[0]["uri"], base["uri"], files)
            T[0]["inherit"] = [sp0, kind0]
            T[0]["body"].insert(len(T[0]["body"]) - 1, ["callselfns", "inh", sorted(T[j]["defs"])[0], "'h%d'" % next(_cnt)])
            if g.chance(60):
                d_ = g.pick(DIRS)
                top = {"uri": "/" + (d_ + "/" if d_ else "") + "top%d.html" % n, "root": base["root"], "defs": {}, "ns": [], "page": [],
                       "inherit": None, "shadow": None, "role": "main",
                       "body": [["text", "[TOP"], ["probe"], ["nextbody"], ["text", "]"]]}
                top["body"][0] = ["text", "[%s" % top["uri"]]
                T.append(top)
                spt, kindt = spell(g, base["uri"], top["uri"], files)
                base["inherit"] = [spt, kindt]
                case["three_level"] = True
    if g.chance(12):
        # an unresolvable target in a construct that is certainly executed (entry body)
        kind = g.pick(["include", "ns", "getns", "incfile", "gettemplate"])
        sp = g.pick(["/nowhere.html", "missing.html", "sub/missing.html"])
        if kind == "include":
            T[0]["body"].insert(2, ["include", sp, {}, "abs"])
        elif kind == "ns":
            T[0]["ns"].append({"name": "nsx", "file": sp, "kind": "abs", "import": None, "inline": []})
            T[0]["body"].insert(2, ["callns", "nsx", "f1", "'x'"])
        elif kind == "getns":
            T[0]["body"].insert(2, ["getns", sp, "f1", "'x'", "abs"])
        elif kind == "incfile":
            T[0]["body"].insert(2, ["incfile", sp, {}, "abs"])
        else:
            T[0]["body"].insert(2, ["gettemplate", sp, "abs"])
        case["missing"] = kind
    return case


# ---- emission -------------------------------------------------------------
def emit_items(items):
    out = []
    for it in items:
        k = it[0]
        if k == "text":
            out.append(it[1])
        elif k == "arg":
            out.append(" %s=${%s}" % (it[1], it[1]))
        elif k == "probe":
            out.append(" self=${self.uri} local=${local.uri} par=${'parent' in context.keys()} nxt=${'next' in context.keys()}")
        elif k == "callns":
            out.append("${%s.%s(%s)}" % (it[1], it[2], it[3]))
        elif k == "callbody":
            out.append("${%s.body()}" % it[1])
        elif k == "callimp":
            out.append("${%s(%s)}" % (it[1], it[2]))
        elif k == "ctxvar":
            out.append("<%s=${%s}>" % (it[1], it[1]))
        elif k == "include":
            args = ", ".join("%s=%s" % kv for kv in sorted(it[2].items()))
            out.append('<%%include file="%s"%s/>' % (it[1], ' args="%s"' % args if args else ""))
        elif k == "getns":
            out.append("${local.get_namespace('%s').%s(%s)}" % (it[1], it[2], it[3]))
        elif k == "incfile":
            kw = "".join(", %s=%s" % kv for kv in sorted(it[2].items()))
            out.append("<%% local.include_file('%s'%s) %%>" % (it[1], kw))
        elif k == "gettemplate":
            out.append("(T:${local.get_template('%s').uri})" % it[1])
        elif k == "modcall":
            out.append("${mod.%s(%s)}" % (it[1], it[2]))
        elif k == "nextbody":
            out.append("${next.body()}")
        elif k == "callselfns":
            out.append("${self.%s.%s(%s)}" % (it[1], it[2], it[3]))
    return "".join(out)


def emit_template(t, shadow=False):
    src = []
    if t["inherit"]:
        src.append('<%%inherit file="%s"/>' % t["inherit"][0])
    if t["page"]:
        src.append('<%%page args="%s"/>' % ", ".join("%s='%s'" % (a, d) for a, d in t["page"]))
    for ns in t["ns"]:
        attrs = ""
        if ns.get("name"):
            attrs += ' name="%s"' % ns["name"]
        if ns.get("file"):
            attrs += ' file="%s"' % ns["file"]
        if ns.get("module"):
            attrs += ' module="%s"' % ns["module"]
        if ns.get("import"):
            attrs += ' import="%s"' % ", ".join(ns["import"])
        if ns.get("inheritable"):
            attrs += ' inheritable="True"'
        if ns["inline"]:
            src.append("<%namespace" + attrs + ">" + "".join(
                '<%%def name="%s(a=\'-\')">{inline.%s.%s: a=${a} cv=${cv}}%s</%%def>'
                % (d, ns["name"], d, ("${%s('in')}" % ns["inline_calls"]) if ns.get("inline_calls") else "") for d in ns["inline"]) + "</%namespace>")
        else:
            src.append("<%namespace" + attrs + "/>")
    for name in sorted(t["defs"]):
        src.append('<%%def name="%s(a=\'-\')">%s</%%def>' % (name, emit_items(t["defs"][name])))
    body = emit_items(t["body"])
    if shadow:
        body = "SHADOW-COPY" + body
    src.append(body)
    return "".join(src)


# ---- model ----------------------------------------------------------------
class Lookup404(Exception):
    pass


class Model:
    def __init__(self, case):
        self.case = case
        self.by_uri = {t["uri"]: t for t in case["templates"]}
        self.out = []

    def resolve(self, spelled, frm_uri):
        """-> (runtime uri, template dict) or raises Lookup404"""
        if spelled.startswith("/"):
            uri = spelled
        else:
            uri = posixpath.join(posixpath.dirname(frm_uri), spelled)
        norm = posixpath.normpath(uri)
        t = self.by_uri.get(norm if self.case["files"] else uri)
        if t is None:
            raise Lookup404(uri)
        return uri, t

    def ns_member(self, t, ns, name):
        """-> ("inline", nsname, name) | ("def", uri, tmpl, name)"""
        if name in ns["inline"]:
            return ("inline", ns["name"], name)
        uri, tgt = self.resolve(ns["file"], t["_uri"])
        return ("def", uri, tgt, name)

    def run(self, items, t, env, ctx):
        """t = template the items are written in (with runtime '_uri'); env = local names (page args / def arg);
        ctx = dict(self_uri=..., has_parent=..., has_next=...)"""
        for it in items:
            k = it[0]
            if k == "text":
                self.out.append(it[1])
            elif k == "arg":
                self.out.append(" %s=%s" % (it[1], env[it[1]]))
            elif k == "probe":
                self.out.append(" self=%s local=%s par=%s nxt=%s" % (ctx["self_uri"], t["_uri"], ctx["has_parent"], ctx["has_next"]))
            elif k == "callns":
                ns = [x for x in t["ns"] if x.get("name") == it[1]][0]
                self.call_member(t, ns, it[2], eval(it[3]), ctx)
            elif k == "callbody":
                ns = [x for x in t["ns"] if x.get("name") == it[1]][0]
                uri, tgt = self.resolve(ns["file"], t["_uri"])
                self.body(dict(tgt, _uri=uri), {}, {"self_uri": uri, "has_parent": False, "has_next": False}, via_ns=True)
            elif k == "callimp":
                ns = [x for x in t["ns"] if x.get("import") and (it[1] in x["import"] or it[1] in x["inline"]
                                                                 or (x["import"] == ["*"] and it[1] in x.get("_names", [])))][0]
                self.call_member(t, ns, it[1], eval(it[2]), ctx)
            elif k == "ctxvar":
                self.out.append("<%s=%s>" % (it[1], CTX[it[1]]))
            elif k == "include":
                uri, tgt = self.resolve(it[1], t["_uri"])
                args = {a: eval(v, dict(CTX)) for a, v in it[2].items()}
                self.include(uri, tgt, args)
            elif k == "getns":
                uri, tgt = self.resolve(it[1], t["_uri"])
                self.run_def(dict(tgt, _uri=uri), it[2], eval(it[3]), {"self_uri": uri, "has_parent": False, "has_next": False})
            elif k == "incfile":
                uri, tgt = self.resolve(it[1], t["_uri"])
                self.include(uri, tgt, {a: eval(v) for a, v in it[2].items()})
            elif k == "gettemplate":
                uri, tgt = self.resolve(it[1], t["_uri"])
                self.out.append("(T:%s)" % uri)
            elif k == "modcall":
                self.out.append("{helper.%s:%s}" % (it[1], eval(it[2])))
            elif k == "nextbody":
                nt = ctx["next_t"]
                nn = ctx.get("chain_next", {}).get(nt["uri"])
                if nn is not None:
                    # middle of a three-level chain: it has both a parent and a next
                    self.body(nt, {}, dict(ctx, has_parent=True, has_next=True, next_t=dict(nn, _uri=nn["uri"]), chain_next={}), chain=True)
                else:
                    self.body(nt, {}, dict(ctx, has_parent=True, has_next=False), chain=True)
            elif k == "callselfns":
                base = ctx["base_t"]
                ns = [x for x in base["ns"] if x.get("name") == it[1]][0]
                self.call_member(base, ns, it[2], eval(it[3]), ctx)

    def call_member(self, t, ns, name, arg, ctx):
        m = self.ns_member(t, ns, name)
        if m[0] == "inline":
            self.out.append("{inline.%s.%s: a=%s cv=%s}" % (m[1], m[2], arg, CTX["cv"]))
            if ns.get("inline_calls"):
                impns = [x for x in t["ns"] if x.get("import")][0]
                self.call_member(t, impns, ns["inline_calls"], "in", ctx)
        else:
            _, uri, tgt, nm = m
            # a def reached through a namespace runs with that template's own self/local
            self.run_def(dict(tgt, _uri=uri), nm, arg, {"self_uri": uri, "has_parent": False, "has_next": False})

    def run_def(self, t, name, arg, ctx):
        self.run(t["defs"][name], t, {"a": arg}, ctx)

    def include(self, uri, tgt, args):
        t = dict(tgt, _uri=uri)
        self.body(t, args, {"self_uri": uri, "has_parent": False, "has_next": False})

    def body(self, t, args, ctx, via_ns=False, chain=False):
        env = {}
        for a, d in t["page"]:
            if a in args:
                env[a] = args[a]
            elif a in CTX and not via_ns:
                env[a] = CTX[a]
            elif a in CTX and via_ns:
                env[a] = CTX[a] if False else d
            else:
                env[a] = d
        body = t["body"]
        if t.get("_shadowed"):
            pass
        self.run(body, t, env, ctx)

    def render(self):
        t0 = dict(self.case["templates"][0])
        t0["_uri"] = t0["uri"]
        if t0["inherit"]:
            buri, base = self.resolve(t0["inherit"][0], t0["uri"])
            base = dict(base, _uri=buri)
            if base.get("inherit"):
                turi, top = self.resolve(base["inherit"][0], buri)
                top = dict(top, _uri=turi)
                # top body runs first; its next is the middle template, whose next is the entry
                ctx = {"self_uri": t0["uri"], "has_parent": False, "has_next": True, "next_t": base, "base_t": base,
                       "chain_next": {base["uri"]: t0}}
                self.body(top, {}, ctx)
            else:
                ctx = {"self_uri": t0["uri"], "has_parent": False, "has_next": True, "next_t": t0, "base_t": base}
                self.body(base, {}, ctx)
        else:
            self.body(t0, {}, {"self_uri": t0["uri"], "has_parent": False, "has_next": False})
        return "".join(self.out)


def features(case):
    T = case["templates"]
    dirs = {posixpath.dirname(t["uri"]) for t in T}
    s = repr(case)
    return {"n": len(T), "dirs": len(dirs), "rel": "'rel'" in s, "abs": "'abs'" in s, "import": "'import': ['" in s,
            "inline": "'inline': ['" in s, "incargs": "'inc-" in s or "'cv'" in s, "files": case["files"], "missing": case["missing"],
            "inherit": bool(T[0]["inherit"]), "three_level": bool(case.get("three_level")), "shadow": any(t.get("shadow") for t in T), "module": "'module'" in s}


def check_case(case, ev=None):
    from mako import exceptions as mexc
    from mako.lookup import TemplateLookup

    T = case["templates"]
    srcs = {t["uri"]: emit_template(t) for t in T}
    shown = "\n".join("--- %s ---\n%s" % kv for kv in srcs.items())
    m = Model(case)
    try:
        exp = ("ok", m.render())
    except Lookup404 as e:
        exp = ("lookup-exception", str(e))
    with core.TempDir() as d:
        if case["files"]:
            roots = [os.path.join(d, "root%d" % i) for i in range(case["nroots"])]
            for t in T:
                p = os.path.join(roots[t["root"]], t["uri"].lstrip("/"))
                os.makedirs(os.path.dirname(p), exist_ok=True)
                with open(p, "w") as fh:
                    fh.write(srcs[t["uri"]])
                if t.get("shadow"):
                    p2 = os.path.join(roots[1], t["uri"].lstrip("/"))
                    os.makedirs(os.path.dirname(p2), exist_ok=True)
                    with open(p2, "w") as fh:
                        fh.write(emit_template(t, shadow=True))
            for r in roots:
                os.makedirs(r, exist_ok=True)
            lookup = TemplateLookup(directories=roots, strict_undefined=bool(case.get("strict")))
        else:
            lookup = TemplateLookup(strict_undefined=bool(case.get("strict")))
            for t in T:
                lookup.put_string(t["uri"], srcs[t["uri"]])
        try:
            out = ("ok", lookup.get_template(T[0]["uri"]).render_unicode(**CTX))
        except mexc.TemplateLookupException as e:
            out = ("lookup-exception", str(e)[:200])
        except Exception as e:
            out = ("exc", type(e).__name__, str(e)[:300])
    if exp[0] != out[0]:
        raise Failure(case, "model: %r\nmako : %r\n%s" % (exp, out, shown), "outcome:%s/%s" % (exp[0], out[0] if out[0] != "exc" else out[1]))
    if exp[0] == "ok" and exp[1] != out[1]:
        raise Failure(case, "model renders %r\nmako renders  %r\n%s" % (exp[1], out[1], shown), "output-differs")
    if ev is not None:
        f = features(case)
        nt = f["n"] >= 3 and f["dirs"] >= 2 and f["rel"] and f["abs"] and (f["import"] or f["inline"] or f["incargs"])
        labels = ["n:%d" % f["n"], "files" if f["files"] else "put_string", "outcome:" + exp[0]] + [
            k for k in ("import", "inline", "incargs", "inherit", "three_level", "shadow", "module", "rel") if f[k]]
        if f["missing"]:
            labels.append("missing:" + f["missing"])
        if case.get("strict"):
            labels.append("strict_undefined")
        ev.case(key=case, nontrivial=bool(nt), labels=labels)
        if nt and len(shown) < 1500:
            ev.sample({"templates": srcs, "expected": exp}, "set")


def strategy():
    from hypothesis import strategies as st

    return st.binary(min_size=500, max_size=500).map(build)


# ---- blocks of the other template: exposed, and exported to import="*", at whatever depth they are written -------------
BLOCK_LIB = ('<%def name="plain()">PLAIN</%def>'
             '<%block name="outer">OUTER[<%block name="inner">INNER(<%block name="innermost">DEEP:${cv}</%block>)</%block>]</%block>')


def check_block_exports(ev, fails):
    """expectations by construction (each block called on its own renders its own content, nested blocks included)"""
    from mako.lookup import TemplateLookup

    exp = {"plain": "PLAIN", "outer": "OUTER[INNER(DEEP:%s)]", "inner": "INNER(DEEP:%s)", "innermost": "DEEP:%s"}
    names = ["plain", "outer", "inner", "innermost"]
    forms = {
        "qualified": ('<%%namespace name="lib" file="%s"/>', "lib."),
        "import-list": ('<%%namespace file="%s" import="plain, outer, inner, innermost"/>', ""),
        "import-star": ('<%%namespace file="%s" import="*"/>', ""),
        "named-import-star": ('<%%namespace name="lib" file="%s" import="*"/>', ""),
    }
    k = next(_cnt)
    for form, (tag, prefix) in sorted(forms.items()):
        for site in ("body", "def"):
            for shadow in (False, True):  # context variables of the same names: the import wins
                for strict in (False, True):
                    for rel in (False, True):
                        lk = TemplateLookup(strict_undefined=strict)
                        lk.put_string("/c07b%d/lib/parts.html" % k, BLOCK_LIB)
                        file_ = "lib/parts.html" if rel else "/c07b%d/lib/parts.html" % k  # (put_string lookups do not resolve "..")
                        calls = "|".join("${%s%s()}" % (prefix, n) for n in names)
                        src = tag % file_ + ('<%%def name="show()">%s</%%def>${show()}' % calls if site == "def" else calls)
                        lk.put_string("/c07b%d/page.html" % k, src)
                        ctx = {"cv": "cv1"}
                        if shadow:
                            ctx.update({n: (lambda n=n: "CTX-" + n) for n in names})
                        case = {"part": "block-exports", "form": form, "site": site, "shadow": shadow, "strict": strict, "rel": rel}
                        want = "|".join(exp[n] % "cv1" if "%s" in exp[n] else exp[n] for n in names)
                        try:
                            got = lk.get_template("/c07b%d/page.html" % k).render_unicode(**ctx)
                        except Exception as e:  # noqa: BLE001 - the type is the observation
                            got = "%s: %s" % (type(e).__name__, str(e)[:120])
                        if got != want:
                            f = Failure(case, "blocks of a namespace (%s, called from the %s, context variables of the same names: %s, strict_undefined=%s): "
                                        "expected %r, got %r\n--- lib ---\n%s\n--- page ---\n%s" % (form, site, shadow, strict, want, got, BLOCK_LIB, src),
                                        "block-exports:" + form)
                            fails.setdefault(f.key, f)
                        ev.case(key=["block-exports", form, site, shadow, strict, rel], nontrivial=True, labels=("block-exports:" + form,))


# ---- <%include> takes page arguments from the context it is written in, not from the render() keywords ---------------------
def check_include_context(ev, fails):
    """expectations by construction: a top-level def called by name from the body sees the body's assignments and the page
    arguments (C04); an <%include> written in that def hands exactly those values to the target's <%page> arguments"""
    from mako.lookup import TemplateLookup

    T = {
        "/inc/leaf.html": "<%page args=\"title='leaf-default', extra='x'\"/>[arg=${title} ctx=${context.get('title', 'unset')} extra=${extra}]",
        "/inc/a.html": "<% title = 'assigned' %><%def name=\"show()\"><%include file=\"leaf.html\"/></%def>A:${show()}",
        "/inc/mid.html": "<%page args=\"title='mid-default'\"/><%def name=\"show()\"><%include file=\"leaf.html\" args=\"extra='y'\"/></%def>mid:${show()}",
        "/inc/b.html": "B:<%include file=\"mid.html\" args=\"title='from-outer'\"/>",
        "/inc/c.html": "C:<%include file=\"leaf.html\"/>",
        "/inc/d.html": "D:<%include file=\"leaf.html\" args=\"title='explicit'\"/>",
        "/inc/e.html": "<% title = 'assigned' %>E:<%include file=\"leaf.html\"/>",
    }
    for kwargs, tag in (({}, "no keywords"), ({"title": "kw"}, "render(title='kw')")):
        kw = kwargs.get("title")
        want = {
            "/inc/a.html": "A:[arg=assigned ctx=assigned extra=x]",
            "/inc/b.html": "B:mid:[arg=from-outer ctx=from-outer extra=y]",
            "/inc/c.html": "C:[arg=%s ctx=%s extra=x]" % (kw or "leaf-default", kw or "unset"),
            "/inc/d.html": "D:[arg=explicit ctx=%s extra=x]" % (kw or "unset"),
        }
        for strict in (False, True):
            lk = TemplateLookup(strict_undefined=strict)
            for u, src in T.items():
                lk.put_string(u, src)
            for u, exp in sorted(want.items()):
                case = {"part": "include-context", "uri": u, "kwargs": kwargs, "strict": strict}
                try:
                    got = lk.get_template(u).render_unicode(**kwargs)
                except Exception as e:  # noqa: BLE001
                    got = "%s: %s" % (type(e).__name__, str(e)[:100])
                if got != exp:
                    f = Failure(case, "%s, %s (strict_undefined=%s): expected %r, got %r\n%s" % (u, tag, strict, exp, got,
                                "\n".join("--- %s ---\n%s" % kv for kv in sorted(T.items()))), "include-context")
                    fails.setdefault(f.key, f)
                ev.case(key=["include-context", u, tag, strict], nontrivial=u in ("/inc/a.html", "/inc/b.html"), labels=("include-context",))


# ---- a template with <%namespace> tags in an inheritance chain reached several times within one render -------------------
def check_namespaces_twice(ev, fails):
    """expectations by construction: every inclusion sets up its own chain (its own self, its inheritable namespaces, the
    inline defs of the base bound to that chain)"""
    from mako.lookup import TemplateLookup

    T = {
        "/cards/base.html": '<%namespace name="fmt" inheritable="True"><%def name="star(x)">*${x}*</%def></%namespace><card>${next.body()}</card>',
        "/cards/a.html": '<%inherit file="base.html"/>${self.fmt.star("a")}',
        "/cards/b.html": '<%inherit file="base.html"/>${self.fmt.star("b")}',
        "/cards/page.html": '<%inherit file="base.html"/>${self.fmt.star("p")}+<%include file="a.html"/>',
        "/tags/base.html": '<%namespace name="t" inheritable="True"><%def name="tag(x)">[${self.attr.label}]${x}</%def></%namespace><tag>${next.body()}</tag>',
        "/tags/a.html": '<%! label = "A" %><%inherit file="base.html"/>${self.t.tag("a")}',
        "/tags/b.html": '<%! label = "B" %><%inherit file="base.html"/>${self.t.tag("b")}',
        "/twice.html": '<%include file="/cards/a.html"/>|<%include file="/cards/a.html"/>',
        "/loop.html": '% for i in range(3):\n<%include file="/cards/a.html"/>\n% endfor\n',
        "/two.html": '<%include file="/cards/a.html"/>|<%include file="/cards/b.html"/>',
        "/tags.html": '<%include file="/tags/a.html"/>|<%include file="/tags/b.html"/>|<%include file="/tags/a.html"/>',
    }
    want = {
        "/twice.html": "<card>*a*</card>|<card>*a*</card>", "/loop.html": "<card>*a*</card>\n" * 3,
        "/two.html": "<card>*a*</card>|<card>*b*</card>", "/cards/page.html": "<card>*p*+<card>*a*</card></card>",
        "/tags.html": "<tag>[A]a</tag>|<tag>[B]b</tag>|<tag>[A]a</tag>",
    }
    for strict in (False, True):
        lk = TemplateLookup(strict_undefined=strict)
        for u, src in T.items():
            lk.put_string(u, src)
        for rnd in (1, 2):  # (and again: a second render of the same templates)
            for u, exp in sorted(want.items()):
                case = {"part": "namespaces-twice", "uri": u, "strict": strict}
                try:
                    got = lk.get_template(u).render_unicode()
                except Exception as e:  # noqa: BLE001
                    got = "%s: %s" % (type(e).__name__, str(e)[:100])
                if got != exp:
                    f = Failure(case, "%s (strict_undefined=%s, render %d): expected %r, got %r\n%s" % (u, strict, rnd, exp, got,
                                "\n".join("--- %s ---\n%s" % kv for kv in sorted(T.items()))), "namespaces-twice")
                    fails.setdefault(f.key, f)
                ev.case(key=["namespaces-twice", u, strict, rnd], nontrivial=True, labels=("namespaces-twice",))


def shard(task):
    seed, n = task
    core.setup_repo()
    ev = core.Evidence()
    fails, known = core.hyp_search(strategy(), lambda c: check_case(c, ev), ev, seed, n, shrink=True, shrink_budget=15.0)
    return ev, fails


def run(ctx):
    fails = {}
    core.setup_repo()
    check_block_exports(ctx.ev, fails)
    check_include_context(ctx.ev, fails)
    check_namespaces_twice(ctx.ev, fails)
    for f in fails.values():
        ctx.fail(f)
    n = ctx.pick(600, 10000)
    ctx.pmap(shard, [(ctx.shard_seed(i), n) for i in range(16)])


def replay(case):
    core.setup_repo()
    if case.get("part") == "namespaces-twice":
        fails = {}
        check_namespaces_twice(core.Evidence(), fails)
        return next(iter(fails.values()), None)
    if case.get("part") == "include-context":
        fails = {}
        check_include_context(core.Evidence(), fails)
        return next((f for f in fails.values() if f.case == case), None)
    if case.get("part") == "block-exports":
        fails = {}
        check_block_exports(core.Evidence(), fails)
        return next((f for f in fails.values() if f.case == case), None)
    try:
        check_case(case)
    except Failure as f:
        return f
    return None

"""C15 - module files are regenerated when stale and never observed half-written.

(i)   hypothesis histories (<=12 ops) of {modify source with mtime newer/equal/older than the module, delete module,
      replace module by one with another _magic_number, construct Template (module_writer absent | recording writer,
      same process | forked process)} checked against a staleness model written from the statement.
(ii)  for (previous module: directory missing | absent | present-older | present-other-magic) x (writer absent |
      recording) : EVERY k-th file-system call observed in a fault-free run (vf.gen.faultfs) x {fail before, fail
      after, fail mid-write, die before, die after, die mid-write}; afterwards the module path holds no file, the
      complete previous module or the complete new module, and a later Template (same process after a failure; a
      new process always) loads and renders the current source.
(iii) 2..8 forked processes released together construct the same Template against a missing / empty / stale module
      directory; every process renders correctly and the final file is the complete new module.
(i-pyc, ii pyc-* states) the same with the interpreter writing __pycache__: a module rewritten inside the wall-clock
      second of the one it replaces, with the same size, must not be shadowed by the old bytecode - after a
      fault-free rewrite, after a retry, and in a fresh process after a crash at every call (the removal of the
      bytecode is a counted call).

All mtimes are explicit whole seconds set with os.utime (simulated clock); `mako.codegen.time` is patched so that
the `_modified_time` line of a generated module is a stamp chosen by the harness (this makes complete module
images byte-comparable and makes "this construction rewrote the file" observable).
"""
import base64
import hashlib
import importlib.util
import itertools
import json
import os
import py_compile
import re
import shutil
import signal
import subprocess
import sys
import tempfile
import time
import traceback
from unittest import mock

from vf import core
from vf.core import Failure, HarnessError
from vf.gen import faultfs

PID = "C15"
LEVEL = "fault_enumeration"
RULE = (
    "(ii, exhaustive in both tiers) case = (template kind, uri depth, previous-module state, writer absent|recording, "
    "k, mode, prefix fraction): states nodir | absent | older | magic with bytecode writing off, and pyc-older | "
    "pyc-orphan | pyc-magic with bytecode writing on (pyc-older/orphan: valid __pycache__ entry of the previous module, "
    "compiled when that module had the mtime of the current wall-clock second; the module then aged below the source "
    "mtime, or deleted; pyc-magic: a module with another, equally wide magic number and the mtime of the current "
    "second, not older than the source, whose bytecode is written by mako's own load before the rewrite on the "
    "magic-number path; in all three the new module has the same size, so a rewrite inside that second yields a file "
    "for which the old bytecode is still valid); k ranges over EVERY file-system call index of the fault-free run of that state (faultfs log; 10-19 calls "
    "without a writer, the two os.remove of the bytecode included), mode over fail_before, fail_after, die_before, "
    "die_after and, for write-like calls, fail_mid/die_mid with prefix 1 byte | half | all-but-one (pyc states in "
    "quick: half only); non-trivial = the hit call lies between the first bytecode removal / creation of the temp file "
    "and the move / last bytecode removal inclusive, and for pyc states additionally: if the complete new module is at "
    "the path it was written inside the second of the old bytecode (cases that miss the second after 5 tries are "
    "counted as rejected); each case is enumerated once (distinct by construction). "
    "(i) case = history of <=12 ops drawn by hypothesis over 4 template kinds, uri depth 0..2, module dir "
    "pre-existing or not; non-trivial = the history has >=2 constructions and a construction that follows an "
    "equal/older-mtime source modification or a magic-number replacement; distinct by history fingerprint. "
    "(i-pyc) the same histories and oracle with bytecode writing on during every construction, drawn with a bias to "
    "'rewrite, equal-length content change, rewrite' and with an extra op 'replace the module by the real image of the "
    "current source with another, equally wide magic number, stamped with the current wall-clock second'; each history is started with >=0.4 s left in the wall-clock "
    "second; non-trivial = the history contains a rewrite whose new module file has the whole-second mtime and the "
    "size of the __pycache__ entry (as modelled by the harness) but other content, or a magic-number rewrite of a "
    "module of the same second and size (labels pyc:hazard:*). "
    "(iii) case = (n in 2..8, state, template kind incl. a 300 kB one, stagger, depth, repetition); every race is "
    "counted non-trivial (>=2 processes, rewrite due) and distinct by (n, state, kind, stagger, depth, repetition index)."
)
ASSUMPTIONS = [
    "staleness is decided on whole seconds (os.stat()[ST_MTIME] truncates; sub-second ordering is outside the statement as "
    "read by the design: 'module mtime < source mtime (whole seconds)'); histories also give the two files sub-second parts "
    "(.25/.75, .5/.5, .75/.25), which must not change any decision",
    "both interpreter configurations are explored: bytecode writing off (parts i, ii, iii; forced with "
    "sys.dont_write_bytecode=True around every Template()) and on (parts i-pyc and the pyc-* states of ii; switched on "
    "only around Template() so that nothing is written next to /repo).  Whoever replaces a module file by another "
    "generator's (the 'magic' op of the harness) leaves no bytecode for it behind; deleting a module file leaves its "
    "__pycache__ entry in place.  Races (iii) run with bytecode writing off only",
    "the bytecode-enabled parts need two module writes inside one wall-clock second; the harness waits for the start "
    "of a second when less than ~0.4 s remain and records whether the second was hit (labels pyc:*); no oracle reads "
    "the clock",
    "a stale-but-not-older module may legitimately render OLD content; only 'generated from the current source' and "
    "'just rewritten' modules are required to render the current source",
    "single-fault model: exactly one file-system call is hit per case; os.path.exists 'fails' by returning False; a "
    "short os.write that returns a count without raising is not in the enumerated modes",
    "process races are sampled (released together by closing a pipe), not scheduled",
    "module_writer crash consistency is the writer's business: with a recording writer only mako's own calls are hit",
]

T0 = 1_000_000_000  # simulated clock origin (whole seconds)
XVAL = "X"
KINDS = ("plain", "uni", "def", "ctl")
STATES = ("nodir", "absent", "older", "magic")
PYC_STATES = ("pyc-older", "pyc-orphan", "pyc-magic")  # bytecode-enabled crash states, see Scene.reset
BIG_LINES = 9000
BIGCJK_LINES = 3000
BIGCJK_LINE = "\u884c %d: \u65e5\u672c\u8a9e\u306e\u30c6\u30ad\u30b9\u30c8\u3001\u898b\u308b\u3082\u306e\u306f\u4f55\u3082\u306a\u3044\u3002\u3053\u308c\u306f\u57cb\u3081\u8349\u3067\u3059\n"
# histories run once per check with templates that are large (module files of several write blocks)
BIG_HISTORIES = [
    {"part": "i", "pyc": False, "kind": k, "depth": 0, "dir_pre": False, "frac": None, "symlink": False,
     "ops": [["new", w, 0, "same"], ["new", False, 0, "same"], ["src", "newer", 2, False], ["new", w, 1, "fork"], ["del"], ["new", False, 0, "same"]]}
    for k in ("bigcjk", "big") for w in (False, True)
]
CHILD_TIMEOUT_S = 300

FOREIGN = """# -*- coding:utf-8 -*-
from mako import runtime, filters, cache
UNDEFINED = runtime.UNDEFINED
_magic_number = %(magic)r
_modified_time = 1.0
_enable_loop = True
_template_filename = %(filename)r
_template_uri = %(uri)r
_source_encoding = 'utf-8'
_exports = []


def render_body(context, **pageargs):
    context.caller_stack._push_frame()
    try:
        context.writer()('FOREIGN')
        return ''
    finally:
        context.caller_stack._pop_frame()
"""


# ---- templates with output known by construction ------------------------------------------
def source_text(kind, ver):
    if kind == "plain":
        return "v%d:${x}|plain\n" % ver
    if kind == "uni":
        return "## -*- coding: utf-8 -*-\nv%d:\u00e9\u20ac${x}\u2603\n" % ver
    if kind == "def":
        return '<%%def name="d(a)">[${a}]</%%def>v%d:${d(x)}\n' % ver
    if kind == "ctl":
        return "% for i in range(2):\nv" + str(ver) + ":${i}${x}\n% endfor\n"
    if kind == "big":
        return "v%d:${x}\n" % ver + "".join("line %d of filler text, nothing to see\n" % i for i in range(BIG_LINES))
    if kind == "bigcjk":
        # about 100k characters whose encoded module is more than twice as many bytes
        return "v%d:${x}\n" % ver + "".join(BIGCJK_LINE % i for i in range(BIGCJK_LINES))
    raise ValueError(kind)


def expected_output(kind, ver):
    if kind == "plain":
        return "v%d:%s|plain\n" % (ver, XVAL)
    if kind == "uni":
        return "v%d:\u00e9\u20ac%s\u2603\n" % (ver, XVAL)
    if kind == "def":
        return "v%d:[%s]\n" % (ver, XVAL)
    if kind == "ctl":
        return "".join("v%d:%d%s\n" % (ver, i, XVAL) for i in range(2))
    if kind == "big":
        return "v%d:%s\n" % (ver, XVAL) + "".join("line %d of filler text, nothing to see\n" % i for i in range(BIG_LINES))
    if kind == "bigcjk":
        return "v%d:%s\n" % (ver, XVAL) + "".join(BIGCJK_LINE % i for i in range(BIGCJK_LINES))
    raise ValueError(kind)


def module_path(moddir, uri):
    """Documented location: <module_directory>/<uri>.py"""
    return os.path.join(moddir, *uri.lstrip("/").split("/")) + ".py"


_counter = itertools.count()


def fresh_uri(depth, tag):
    return "/" + "/".join(["d%d" % i for i in range(depth)] + ["c15%s_%d_%d.html" % (tag, os.getpid(), next(_counter))])


def write_file(path, data, mtime=None):
    os.makedirs(os.path.dirname(path), exist_ok=True)
    with open(path, "wb") as fh:
        fh.write(data)
    if mtime is not None:
        os.utime(path, (mtime, mtime))


def read_state(path):
    """-> (bytes, mtime_ns) or None"""
    try:
        with open(path, "rb") as fh:
            data = fh.read()
        return data, os.stat(path).st_mtime_ns
    except FileNotFoundError:
        return None


def stamp_line(stamp):
    return b"_modified_time = " + repr(float(stamp)).encode("ascii")


STAMP_RE = re.compile(rb"^_modified_time = .*$", re.M)
MAGIC_RE = re.compile(rb"^_magic_number = .*$", re.M)


def restamp(image, stamp):
    return STAMP_RE.sub(stamp_line(stamp), image, count=1)


def swap_magic(image, magic):
    out, n = MAGIC_RE.subn(b"_magic_number = " + repr(magic).encode("ascii"), image, count=1)
    if n != 1:
        raise HarnessError("no _magic_number line in a generated module")
    return out


class _Clock:
    def __init__(self, t):
        self.t = float(t)

    def time(self):
        return self.t


def sha(b):
    return hashlib.sha1(b).hexdigest()


def short(b, n=60):
    if b is None:
        return "no file"
    return "%d bytes sha1=%s head=%r" % (len(b), sha(b)[:10], b[:n])


# ---- one construction (runs in the current process; children call it too) -------------------------------------
def construct(src, moddir, uri, stamp, writer=False, fs=None, render=True, bytecode=False):
    """Template(filename=src, module_directory=moddir, uri=uri) with codegen time patched to `stamp`.

    fs: an entered FaultFS; it is armed only for the duration of the Template() call.
    bytecode: value of "the interpreter writes __pycache__" for the duration of the Template() call only (everything
    mako needs is imported before, so nothing is written next to /repo or the standard library).
    """
    from mako.template import Template

    calls = []

    def recording_writer(source, outputpath):
        was = fs.armed if fs is not None else False
        if fs is not None:
            fs.armed = False  # the writer is user code: its own file-system calls are not mako's
        try:
            ok = isinstance(source, bytes)
            calls.append({"is_bytes": ok, "type": type(source).__name__, "path": outputpath,
                          "sha1": sha(source) if ok else None,
                          "has_stamp": bool(ok and stamp_line(stamp) in source)})
            d = os.path.dirname(outputpath)
            fd, name = tempfile.mkstemp(dir=d, prefix=".c15w")
            try:
                os.write(fd, source if ok else str(source).encode("utf-8"))
            finally:
                os.close(fd)
            os.replace(name, outputpath)
        finally:
            if fs is not None:
                fs.armed = was

    res = {"outcome": "ok", "exc": None, "render": None, "render_exc": None, "last_modified": None}
    kw = {"module_writer": recording_writer} if writer else {}
    with mock.patch("mako.codegen.time", _Clock(stamp)):
        t = None
        flag = sys.dont_write_bytecode
        sys.dont_write_bytecode = not bytecode
        if fs is not None:
            fs.arm()
        try:
            t = Template(filename=src, module_directory=moddir, uri=uri, **kw)
        except Exception as e:
            res["outcome"] = "raised"
            res["exc"] = "%s: %s" % (type(e).__name__, str(e)[:300])
        finally:
            if fs is not None:
                fs.disarm()
            sys.dont_write_bytecode = flag
    if t is not None:
        try:
            res["last_modified"] = t.last_modified
        except Exception as e:
            res["last_modified"] = "raised %r" % (e,)
        if render:
            try:
                res["render"] = t.render_unicode(x=XVAL)
            except Exception as e:
                res["render_exc"] = "%s: %s" % (type(e).__name__, str(e)[:300])
    res["writer_calls"] = calls
    return res


# ---- forked children ---------------------------------------------------------------------------------------------------
def _emit_to(wfd):
    def emit(obj):
        os.write(wfd, (json.dumps(obj) + "\n").encode("utf-8"))
    return emit


def fork_child(fn):
    """Start fn(emit) in a forked child; -> (pid, read end of its report pipe); see collect_child.

    A child that hits a harness exception exits 3 after emitting {"harness": traceback}.
    """
    r, w = os.pipe()
    sys.stdout.flush()
    sys.stderr.flush()
    pid = os.fork()
    if pid == 0:
        code = 3
        try:
            signal.alarm(CHILD_TIMEOUT_S)  # a hung child is killed (-> harness error), it never hangs the check
            os.close(r)
            emit = _emit_to(w)
            try:
                fn(emit)
                code = 0
            except BaseException:
                try:
                    emit({"harness": traceback.format_exc()[-3000:]})
                except BaseException:
                    pass
        finally:
            os._exit(code)
    os.close(w)
    return pid, r


def collect_child(pid, r):
    chunks = []
    while True:
        b = os.read(r, 65536)
        if not b:
            break
        chunks.append(b)
    os.close(r)
    _, status = os.waitpid(pid, 0)
    code = os.waitstatus_to_exitcode(status)
    out = []
    for line in b"".join(chunks).split(b"\n"):
        if line.strip():
            out.append(json.loads(line))
    for o in out:
        if "harness" in o:
            raise HarnessError("child failed:\n" + o["harness"])
    if code == 3:
        raise HarnessError("child exited 3 without a report")
    return code, out


def run_child(fn):
    pid, r = fork_child(fn)
    return collect_child(pid, r)


def construct_in_child(src, moddir, uri, stamp, writer=False, bytecode=False):
    code, out = run_child(lambda emit: emit({"res": construct(src, moddir, uri, stamp, writer, bytecode=bytecode)}))
    if code != 0 or not out:
        raise HarnessError("fault-free child exited %r with %r" % (code, out))
    return out[-1]["res"]


FRESH_CODE = r"""
import json, sys
a = json.loads(sys.argv[1])
sys.path.insert(0, a["repo"])
import mako
import mako.codegen
from mako.template import Template
class Clock:
    def time(self):
        return float(a["stamp"])
mako.codegen.time = Clock()
res = {"outcome": "ok", "exc": None, "render": None, "render_exc": None, "writer_calls": [], "mako": mako.__file__}
t = None
sys.dont_write_bytecode = not a["bytecode"]   # only now: importing mako above must not write next to the repo
try:
    t = Template(filename=a["src"], module_directory=a["moddir"], uri=a["uri"])
except Exception as e:
    res["outcome"] = "raised"
    res["exc"] = "%s: %s" % (type(e).__name__, str(e)[:300])
sys.dont_write_bytecode = True
if t is not None:
    try:
        res["render"] = t.render_unicode(x=a["x"])
    except Exception as e:
        res["render_exc"] = "%s: %s" % (type(e).__name__, str(e)[:300])
print(json.dumps({"res": res}))
"""


def construct_in_new_interpreter(src, moddir, uri, stamp, bytecode=False):
    """A really fresh process: new interpreter, nothing imported yet, no harness code besides this script."""
    arg = json.dumps({"src": src, "moddir": moddir, "uri": uri, "stamp": stamp, "repo": core.REPO, "x": XVAL,
                      "bytecode": bool(bytecode)})
    env = dict(os.environ)
    env["PYTHONPATH"] = core.REPO + os.pathsep + core.VERIF
    env["PYTHONDONTWRITEBYTECODE"] = "1"  # the script switches bytecode writing on itself, after its imports
    p = subprocess.run([sys.executable, "-c", FRESH_CODE, arg], env=env, cwd=core.VERIF,
                       stdout=subprocess.PIPE, stderr=subprocess.PIPE)
    lines = [l for l in p.stdout.decode("utf-8", "replace").splitlines() if l.startswith("{")]
    if p.returncode != 0 or not lines:
        raise HarnessError("fresh interpreter failed rc=%s stderr=%s" % (p.returncode, p.stderr.decode("utf-8", "replace")[-2000:]))
    res = json.loads(lines[-1])["res"]
    if not os.path.realpath(res["mako"]).startswith(os.path.realpath(core.REPO) + os.sep):
        raise HarnessError("fresh interpreter imported mako from %s" % res["mako"])
    return res


def describe_res(res):
    if res["outcome"] != "ok":
        return "Template() raised " + str(res["exc"])
    if res["render_exc"]:
        return "render raised " + str(res["render_exc"])
    r = res["render"]
    return "rendered %r" % (r if r is None or len(r) < 80 else r[:80] + "...")


def renders(res, kind, ver):
    return res["outcome"] == "ok" and res["render_exc"] is None and res["render"] == expected_output(kind, ver)


def pyc_path(mpath):
    return importlib.util.cache_from_source(mpath)


def rm_pyc(mpath):
    try:
        os.unlink(pyc_path(mpath))
    except OSError:
        pass


def wait_for_room_in_second(limit):
    """Sleep to the start of the next wall-clock second when the current one is more than `limit` over.

    Used only to make 'two module writes inside one whole second' likely; no oracle looks at the clock."""
    frac = time.time() % 1.0
    if frac > limit:
        time.sleep(1.0 - frac + 0.002)


def mark_image(image, ver):
    """Equal-length edit of a generated module so that it renders 'F<ver>:' where the template says 'v<ver>:'."""
    out = image.replace(b"v%d:" % ver, b"F%d:" % ver)
    if out == image:
        raise HarnessError("no version marker in the generated module")
    return out


def marked_output(kind, ver):
    return expected_output(kind, ver).replace("v%d:" % ver, "F%d:" % ver)


def same_width_magic():
    """Another _magic_number with the same number of digits (keeps the module size)."""
    from mako import codegen

    m = codegen.MAGIC_NUMBER
    return m + 1 if len(str(m + 1)) == len(str(m)) else m - 1


def stale_version(res, kind, ver):
    """What was rendered instead of version `ver`: an older version's output (-> its number) or the output of a
    marked other-magic module ('F<v>', see mark_image); None if neither."""
    if res["outcome"] != "ok" or res["render_exc"] is not None:
        return None
    for v in range(ver, -1, -1):
        if v < ver and res["render"] == expected_output(kind, v):
            return v
        if res["render"] == marked_output(kind, v):
            return "F%d" % v
    return None


# =================================================================================================================
# (i) histories against the staleness model
# =================================================================================================================
def history_strategy(pyc=False):
    """pyc=True: histories for the bytecode-enabled configuration.  They are biased towards the hazardous shape
    'rewrite, content change of equal length, rewrite' (source made newer, module deleted, or module left older by
    the restamp -2), so that two module writes of equal size fall into one wall-clock second."""
    from hypothesis import strategies as st

    rel = st.sampled_from(["newer", "equal", "older"] if not pyc else ["newer", "newer", "newer", "equal", "older"])
    delta = st.integers(1, 3)
    src = st.tuples(st.just("src"), rel, delta, st.sampled_from([False, False, False, True] if not pyc else [False] * 7 + [True]))
    new = st.tuples(st.just("new"), st.booleans(), st.sampled_from([-2, 0, 0, 1, 3] if not pyc else [-2, -2, 0, 1]),
                    st.sampled_from(["same", "same", "same", "fork"]))
    by_name = {
        "src": src,
        "del": st.tuples(st.just("del")),
        "magic": st.tuples(st.just("magic"), rel, delta, st.sampled_from([9, 11, 0, 999])),
        "new": new,
    }
    # one_of() does not weight repeated branches; draw the op name from a weighted list first
    weights = ["src"] * 4 + ["del"] + ["magic"] + ["new"] * 6
    if pyc:
        # "magicnow": the replacement is the real image of the current source with an equally wide other magic number,
        # stamped with the current wall-clock second (op = magic, rel, delta, value (ignored), True)
        by_name["magicnow"] = st.tuples(st.just("magic"), st.just("equal"), st.just(1), st.just(0), st.just(True))
        weights = ["src"] * 5 + ["del"] * 2 + ["magic"] + ["magicnow"] * 3 + ["new"] * 8
    op = st.sampled_from(weights).flatmap(lambda k: by_name[k])
    return st.fixed_dictionaries({
        "part": st.just("i"),
        "pyc": st.just(bool(pyc)),
        "kind": st.sampled_from(KINDS),
        "depth": st.integers(0, 2),
        "dir_pre": st.booleans(),
        "ops": st.lists(op.map(list), min_size=1, max_size=12),
        "frac": st.just(None) if pyc else st.sampled_from([None, None, [0.25, 0.75], [0.5, 0.5], [0.75, 0.25]]),
        "symlink": st.sampled_from([False, False, False, True]),
    })


def check_history(case, ev=None):
    """Raises Failure on the first oracle miss. Returns (nontrivial, labels).

    case["pyc"]: the interpreter writes __pycache__ during every construction (must run in a throw-away child).
    The same oracle applies.  For the evidence the harness models which (mtime second, size, content) the
    __pycache__ entry was last written for and labels a rewrite 'pyc:hazard' when the new module file has the same
    whole-second mtime and size as that entry but other content - the class in which stale bytecode would be valid.
    """
    kind, depth, ops = case["kind"], case["depth"], case["ops"]
    pyc = bool(case.get("pyc"))
    # sub-second parts of the source / module mtimes (the model, like the statement, compares whole seconds)
    fs, fm = case.get("frac") or (0, 0)
    labels = ["i:frac:%s/%s" % (fs, fm)] if (fs or fm) else []
    pyc_entry = None  # (mtime second, size, sha1 of the module source it was compiled from) as modelled by the harness
    hazards = 0
    if pyc:
        wait_for_room_in_second(0.6)

    def bad(i, detail, key):
        raise Failure(case, "history op #%d %r: %s" % (i, ops[i], detail), key)

    with core.TempDir() as root:
        uri = fresh_uri(depth, "i")
        src = os.path.join(root, "src", "t.html")
        moddir = os.path.join(root, "mods")
        mpath = module_path(moddir, uri)
        ver, src_mtime = 0, T0
        if case.get("symlink"):
            # the template path is a symbolic link (a release link, a ConfigMap volume): the link itself is old and never
            # touched, every modification goes to the file it points to - whose age is the one that counts
            real = os.path.join(root, "src", "releases", "current.html")
            write_file(real, b"", T0 - 1000)
            os.symlink(real, src)
            os.utime(src, (T0 - 5000, T0 - 5000), follow_symlinks=False)
            labels.append("i:source-is-symlink")
        write_file(src, source_text(kind, ver).encode("utf-8"), src_mtime + fs)
        if case["dir_pre"]:
            os.makedirs(os.path.dirname(mpath))
        mod = None  # {"bytes", "mtime", "magic_ok", "gen_from"}
        nconstruct = 0
        pending_interesting = False
        interesting_constructs = 0
        for i, op in enumerate(ops):
            name = op[0]
            if name == "src":
                _, rel, delta, same = op
                base = mod["mtime"] if mod else src_mtime
                src_mtime = base + (delta if rel == "newer" else -delta if rel == "older" else 0)
                if not same:
                    ver += 1
                write_file(src, source_text(kind, ver).encode("utf-8"), src_mtime + fs)
                labels.append("i:src:%s%s%s" % (rel, ":touch" if same else "", "" if mod else ":nomodule"))
                if rel != "newer" and mod:
                    pending_interesting = True
            elif name == "del":
                if mod is None:
                    labels.append("i:del:noop")
                    continue
                os.unlink(mpath)
                mod = None
                pending_interesting = False
                labels.append("i:del")
            elif name == "magic" and len(op) > 4 and op[4]:
                # bytecode-enabled histories: what another generator version left at the module path in THIS
                # wall-clock second, of exactly the size the regenerated module will have (real image of the current
                # source from a scratch module directory; other magic number of equal width; 'v<n>:' -> 'F<n>:' so
                # that running it is visible).  Old bytecode of ours is removed; the bytecode that matters is written
                # by mako's own load of this module during the next construction.
                scratch = os.path.join(root, "scratch")
                fx = construct(src, scratch, uri, 1_300_000_000 + i, False)
                img = read_state(module_path(scratch, uri))
                shutil.rmtree(scratch, ignore_errors=True)
                if fx["outcome"] != "ok" or img is None:
                    bad(i, "fault-free construction into a scratch module directory failed: " + describe_res(fx),
                        "i:construct-raised")
                data = mark_image(swap_magic(img[0], same_width_magic()), ver)
                m = int(time.time())
                write_file(mpath, data, m + fm)
                rm_pyc(mpath)
                pyc_entry = None
                mod = {"bytes": data, "mtime": m, "magic_ok": False, "gen_from": "foreign", "now": True}
                labels.append("i:magic:now")
                pending_interesting = True
            elif name == "magic":
                _, rel, delta, magic = op[:4]
                m = src_mtime + (delta if rel == "newer" else -delta if rel == "older" else 0)
                if mod is not None and mod["magic_ok"]:
                    data = swap_magic(mod["bytes"], magic)
                    gen_from = mod["gen_from"]
                    labels.append("i:magic:swapped:" + rel)
                else:
                    data = (FOREIGN % {"magic": magic, "filename": src, "uri": uri}).encode("utf-8")
                    gen_from = "foreign"
                    labels.append("i:magic:foreign:" + rel)
                write_file(mpath, data, m + fm)
                rm_pyc(mpath)  # whoever installs another generator's module is not mako; it leaves no bytecode behind
                pyc_entry = None
                mod = {"bytes": data, "mtime": m, "magic_ok": False, "gen_from": gen_from}
                pending_interesting = True
            elif name == "new":
                _, writer, adv, proc = op
                nconstruct += 1
                stamp = 1_500_000_000 + i
                why = []
                if mod is None:
                    why.append("missing")
                else:
                    if mod["mtime"] < src_mtime:
                        why.append("older")
                    if not mod["magic_ok"]:
                        why.append("magic")
                due = bool(why)
                if proc == "fork":
                    res = construct_in_child(src, moddir, uri, stamp, writer, bytecode=pyc)
                else:
                    res = construct(src, moddir, uri, stamp, writer, bytecode=pyc)
                after = read_state(mpath)
                hazard = False
                if pyc and after is not None:
                    now_entry = (after[1] // 10 ** 9, len(after[0]), sha(after[0]))
                    hazard = bool(due and pyc_entry and pyc_entry[:2] == now_entry[:2] and pyc_entry[2] != now_entry[2])
                    pyc_entry = now_entry  # the load of this construction (re)writes the entry for what it found
                    magic_hazard = bool(due and why == ["magic"] and (mod["mtime"], len(mod["bytes"])) == now_entry[:2])
                    if magic_hazard:
                        # mako itself loaded the other-magic module (bytecode written for (second, size)) and then
                        # replaced it by a file with the same second and size
                        hazards += 1
                        hazard = True
                        labels.append("pyc:hazard:magic-same-second-equal-size")
                    elif hazard:
                        hazards += 1
                        labels.append("pyc:hazard:same-second-equal-size:" + "+".join(why))
                    elif due:
                        labels.append("pyc:rewrite-no-hazard")
                tag = "due:" + "+".join(why) if due else "notdue"
                labels.append("i:new:%s%s%s" % (tag, ":writer" if writer else "", ":fork" if proc == "fork" else ""))
                if res["outcome"] != "ok":
                    bad(i, "fault-free construction failed: %s (rewrite due: %s)" % (describe_res(res), why or "no"),
                        "i:construct-raised")
                calls = res["writer_calls"]
                for c in calls:
                    if not c["is_bytes"]:
                        bad(i, "module_writer received %s, expected the encoded module source (bytes)" % c["type"],
                            "i:writer-args")
                    if os.path.normpath(c["path"]) != mpath:
                        bad(i, "module_writer received path %r, expected %r" % (c["path"], mpath), "i:writer-args")
                if due:
                    if writer and not calls:
                        bad(i, "rewrite due (%s) but the module_writer was not called" % "+".join(why),
                            "i:writer-not-called-when-due")
                    if after is None:
                        bad(i, "rewrite due (%s) but no module file at %s afterwards" % ("+".join(why), mpath),
                            "i:not-rewritten-when-due")
                    if stamp_line(stamp) not in after[0]:
                        bad(i, "rewrite due (%s) but the module file was not regenerated by this construction: %s "
                            "(model had %s)" % ("+".join(why), short(after[0]), short(mod["bytes"]) if mod else "no file"),
                            "i:not-rewritten-when-due")
                    if writer:
                        if not calls[-1]["has_stamp"] or calls[-1]["sha1"] != sha(after[0]):
                            bad(i, "module_writer did not receive the module source of this construction", "i:writer-args")
                    if not renders(res, kind, ver):
                        sv = stale_version(res, kind, ver) if pyc else None
                        bad(i, "after a rewrite (%s) expected render %r, %s%s" % (
                            "+".join(why), expected_output(kind, ver)[:80], describe_res(res),
                            "" if sv is None else " = the output of source version %s (F<n> = the replaced other-magic module): stale bytecode from __pycache__ "
                            "(new module has the whole-second mtime and size of the replaced one: %s)" % (sv, hazard)),
                            "i:render-after-rewrite" + (":stale-bytecode" if sv is not None else ""))
                    m = src_mtime + adv
                    os.utime(mpath, (m + fm, m + fm))
                    mod = {"bytes": after[0], "mtime": m, "magic_ok": True, "gen_from": ver}
                    labels.append("i:restamp:%+d" % adv)
                else:
                    if calls:
                        bad(i, "no rewrite due (module mtime %d >= source mtime %d, magic ok) but module_writer was "
                            "called %d time(s)" % (mod["mtime"], src_mtime, len(calls)), "i:writer-called-when-not-due")
                    if after is None or after[0] != mod["bytes"] or after[1] != mod["mtime"] * 10 ** 9 + int(fm * 10 ** 9):
                        bad(i, "no rewrite due (module mtime %d >= source mtime %d, magic ok) but the module file changed: "
                            "before %s mtime %d, after %s mtime_ns %s" % (
                                mod["mtime"], src_mtime, short(mod["bytes"]), mod["mtime"],
                                short(after[0]) if after else "no file", after[1] if after else None),
                            "i:rewritten-when-not-due")
                    if mod["gen_from"] == ver:
                        if not renders(res, kind, ver):
                            sv = stale_version(res, kind, ver) if pyc else None
                            bad(i, "module on disk was generated from the current source; expected render %r, %s"
                                % (expected_output(kind, ver)[:80], describe_res(res)),
                                "i:render-current-module" + (":stale-bytecode" if sv is not None else ""))
                        labels.append("i:notdue:current")
                    else:
                        labels.append("i:notdue:stale-allowed")
                if pending_interesting:
                    interesting_constructs += 1
                    pending_interesting = False
            else:
                raise HarnessError("unknown op %r" % (op,))
    nontrivial = nconstruct >= 2 and interesting_constructs >= 1
    if pyc:
        nontrivial = hazards >= 1
    return nontrivial, labels


def shard_histories(task):
    seed, n, want_sample, pyc = task
    warm()
    ev = core.Evidence()

    def check(case):
        nt, labels = check_history(case)
        ev.case(key=case, nontrivial=nt, labels=sorted(set(labels)) + ["part:i-pyc" if pyc else "part:i"])
        if nt and want_sample:
            ev.sample(case, "history-pyc" if pyc else "history")

    fails, known = core.hyp_search(history_strategy(pyc), check, ev, seed, n, classify=classify, known=core.load_known(PID))
    return ev, fails + list(known.values())


def shard_big_histories(task):
    warm()
    ev = core.Evidence()
    fails = []
    for case in task:
        try:
            nt, labels = check_history(case)
            ev.case(key=case, nontrivial=True, labels=sorted(set(labels)) + ["part:i", "i:big-template:" + case["kind"]])
        except Failure as f:
            fails.append(f)
    return ev, fails


# =================================================================================================================
# (ii) fault enumeration
# =================================================================================================================
S_OLD, S_NEW, S_RETRY, S_FRESH = 1_400_000_001, 1_400_000_002, 1_400_000_003, 1_400_000_004


class Scene:
    """One (kind, depth, state) arrangement on disk that can be reset byte-for-byte."""

    def __init__(self, root, kind, depth, state, tag):
        self.root, self.kind, self.state = root, kind, state
        self.uri = fresh_uri(depth, tag)
        self.src = os.path.join(root, "src", "t.html")
        self.moddir = os.path.join(root, "mods")
        self.mpath = module_path(self.moddir, self.uri)
        self.old = None
        self.new = None
        self.pyc = state in PYC_STATES
        self.w = None  # pyc states: the wall-clock second the arrangement was made in
        if state in ("older", "magic") or self.pyc:
            write_file(self.src, source_text(kind, 0).encode("utf-8"), T0)
            res = construct_in_child(self.src, self.moddir, self.uri, S_OLD)
            st = read_state(self.mpath)
            if not renders(res, kind, 0) or st is None:
                raise Failure({"part": "ii-setup", "kind": kind, "state": state},
                              "fault-free construction of the previous module failed: " + describe_res(res),
                              "ii:fault-free-run-wrong")
            self.old = swap_magic(st[0], 9) if state == "magic" else st[0]
            if state == "pyc-magic":
                # same size as the module regenerated from the next source version, visibly different when run
                self.old = mark_image(swap_magic(st[0], same_width_magic()), 0)
        self.reset()

    def reset(self, moddir=None):
        """pyc states (bytecode enabled): __pycache__ holds valid bytecode of the previous module, written when
        that module file had the mtime of the CURRENT wall-clock second w (py_compile = what an earlier load in this
        second leaves behind); afterwards the module file was either aged to w-5 (pyc-older; source mtime w-2, so a
        rewrite is due and the rewritten file, mtime w, is then not older than the source) or deleted (pyc-orphan;
        source mtime w-10).  The new module has the same size, so a rewrite inside second w produces a file for
        which the old bytecode is still valid unless mako removes it."""
        moddir = moddir or self.moddir
        shutil.rmtree(moddir, ignore_errors=True)
        mpath = module_path(moddir, self.uri)
        if self.pyc:
            wait_for_room_in_second(0.55)
            w = self.w = int(time.time())
            write_file(mpath, self.old, w)
            if self.state == "pyc-magic":
                # pyc-magic: the module in place has another magic number, the mtime of the current second, is not
                # older than the source and has no bytecode yet: mako's own load of it writes the bytecode, the
                # rewrite on the magic-number path then produces a file of the same second and size
                write_file(self.src, source_text(self.kind, 1).encode("utf-8"), w - 10)
                return
            py_compile.compile(mpath, cfile=pyc_path(mpath), doraise=True,
                               invalidation_mode=py_compile.PycInvalidationMode.TIMESTAMP)
            if self.state == "pyc-older":
                os.utime(mpath, (w - 5, w - 5))
                write_file(self.src, source_text(self.kind, 1).encode("utf-8"), w - 2)
            else:
                os.unlink(mpath)
                write_file(self.src, source_text(self.kind, 1).encode("utf-8"), w - 10)
            return
        write_file(self.src, source_text(self.kind, 1).encode("utf-8"), T0 + 10)
        if self.state == "absent":
            os.makedirs(os.path.dirname(mpath))
        elif self.state == "older":
            write_file(mpath, self.old, T0 + 5)
        elif self.state == "magic":
            write_file(mpath, self.old, T0 + 10)

    def same_second(self):
        """pyc states: was the module file now at the path written inside the second of the arrangement?"""
        try:
            return int(os.stat(self.mpath).st_mtime) == self.w
        except OSError:
            return None

    def classify_path(self, data, stamps):
        """-> 'none' | 'old' | 'new' | None (= corrupt)"""
        if data is None:
            return "none"
        if self.old is not None and self.state != "pyc-orphan" and data == self.old:
            return "old"
        for s in stamps:
            if data == restamp(self.new, s):
                return "new"
        return None

    def litter(self):
        out = []
        for d, _, files in os.walk(self.moddir):
            for f in files:
                p = os.path.join(d, f)
                if p != self.mpath and os.path.basename(d) != "__pycache__":
                    out.append(p)
        return out


def write_window(log):
    """Indices (first, last) of the calls between creating the temp file and the move, or None."""
    first = last = None
    for i, (name, arg) in enumerate(log):
        opens_w = name == "open" and any(c in arg.rsplit(" ", 1)[-1] for c in "wax+")
        rm_bytecode = name in ("os.remove", "os.unlink") and "__pycache__" in arg
        if first is None and (name in ("tempfile.mkstemp", "os.open") or opens_w or rm_bytecode):
            first = i
        if first is not None and (rm_bytecode or name in ("os.rename", "os.replace", "shutil.move", "file.close",
                                                          "os.close", "os.link")):
            last = i
    if first is None or last is None:
        return None
    return first, last


def fault_plans(log, fracs):
    for k, (name, _) in enumerate(log):
        for mode in faultfs.modes_for(name):
            if mode.endswith("_mid"):
                for fr in fracs:
                    yield k, mode, fr
            else:
                yield k, mode, "half"


SAME_SECOND_TRIES = 5


def counting_run(scene, writer, depth=None):
    def child(emit):
        fs = faultfs.FaultFS(root=scene.root)
        with fs:
            res = construct(scene.src, scene.moddir, scene.uri, S_NEW, writer, fs=fs, bytecode=scene.pyc)
        emit({"res": res, "log": fs.log})

    for attempt in range(SAME_SECOND_TRIES):
        scene.reset()
        code, out = run_child(child)
        if code != 0 or not out:
            raise HarnessError("counting child exited %r" % code)
        if not scene.pyc or scene.same_second():
            break
    res, log = out[-1]["res"], out[-1]["log"]
    st = read_state(scene.mpath)
    case = {"part": "ii", "kind": scene.kind, "state": scene.state, "writer": writer, "k": None, "mode": None}
    if depth is not None:
        case["depth"] = depth
    if not renders(res, scene.kind, 1) or st is None or stamp_line(S_NEW) not in st[0]:
        stale = scene.pyc and stale_version(res, scene.kind, 1) is not None
        raise Failure(case, "fault-free construction in state %s did not produce/render the new module: %s%s; module path: %s"
                      % (scene.state, describe_res(res),
                         " = the previous source: stale bytecode from __pycache__ was executed" if stale else "",
                         short(st[0]) if st else "no file"),
                      "ii:fault-free-run-wrong" + (":stale-bytecode" if stale else ""))
    scene.new = st[0]
    if scene.pyc and len(scene.new) != len(scene.old):
        raise HarnessError("pyc scene: previous and new module differ in size (%d, %d)" % (len(scene.old), len(scene.new)))
    return log


def run_fault_case(scene, writer, log, k, mode, frac, use_exec, case):
    """One crash point. Raises Failure. Returns dict of labels info."""
    name, arg = log[k]
    die = mode.startswith("die")
    info = {}

    def child_fn(retry):
        def child(emit):
            fs = faultfs.FaultFS(k=k, mode=mode, frac=frac, root=scene.root, on_fire=lambda rec: emit({"fired": rec}))
            with fs:
                res = construct(scene.src, scene.moddir, scene.uri, S_NEW, writer, fs=fs, bytecode=scene.pyc)
            emit({"first": res, "n": fs.n})
            if retry:
                emit({"retry": construct(scene.src, scene.moddir, scene.uri, S_RETRY, False, bytecode=scene.pyc)})
        return child

    def where():
        return "state=%s writer=%s: %s at call #%d %s(%s)%s" % (
            scene.state, writer, mode, k, name, arg, " prefix=" + frac if mode.endswith("_mid") else "")

    def run_faulted(retry):
        scene.reset()
        code, out = run_child(child_fn(retry))
        fired = [o["fired"] for o in out if "fired" in o]
        if not fired or [fired[0]["name"], fired[0]["arg"]] != [name, arg] or fired[0]["idx"] != k:
            raise HarnessError("fault plan misaligned: planned #%d %s(%s), fired %r" % (k, name, arg, fired))
        if code != (faultfs.EXIT_CODE if die else 0):
            raise HarnessError("faulted child exited %r (mode %s)" % (code, mode))
        first = [o["first"] for o in out if "first" in o]
        retry_res = [o["retry"] for o in out if "retry" in o]
        return (first[0] if first else None), (retry_res[0] if retry_res else None)

    def stale_note(res):
        if scene.pyc and stale_version(res, scene.kind, 1) is not None:
            return (" = the previous source: stale bytecode from __pycache__ was executed (module file written in the "
                    "second of the old bytecode: %s)" % scene.same_second()), ":stale-bytecode"
        return "", ""

    def check_raw_state():
        st = read_state(scene.mpath)
        data = st[0] if st else None
        what = scene.classify_path(data, (S_NEW,))
        if scene.pyc:
            # did the hazard materialise?  (complete new module at the path, written in the second of the old bytecode)
            info["same_second"] = scene.same_second() if what == "new" else None
        if what is None:
            pre = ""
            if data is not None and scene.new.startswith(data):
                pre = " (a strict prefix of the new module, %d of %d bytes)" % (len(data), len(scene.new))
            raise Failure(case, "%s: module path holds %s%s; allowed: no file%s, or the complete new module (%d bytes)"
                          % (where(), short(data), pre,
                             ", the complete previous module (%d bytes)" % len(scene.old) if scene.old else "",
                             len(scene.new)), "ii:module-path-corrupt")
        return what

    # --- run A: the faulted construction; for fail modes followed by a retry in the same process
    first, retry = run_faulted(retry=not die)
    if die:
        info["path_after"] = check_raw_state()
    else:
        if first is None:
            raise HarnessError("no result from the failing child")
        info["first"] = first["outcome"]
        if first["outcome"] == "ok" and not renders(first, scene.kind, 1):
            note, suffix = stale_note(first)
            raise Failure(case, "%s: Template() returned normally but %s%s; expected %r" % (
                where(), describe_res(first), note, expected_output(scene.kind, 1)[:80]),
                "ii:faulted-construct-rendered-wrong" + suffix)
        if not renders(retry, scene.kind, 1):
            note, suffix = stale_note(retry)
            raise Failure(case, "%s: a later Template in the same process: %s%s; expected %r" % (
                where(), describe_res(retry), note, expected_output(scene.kind, 1)[:80]),
                "ii:retry-same-process-failed" + suffix)
        st = read_state(scene.mpath)
        if scene.classify_path(st[0] if st else None, (S_NEW, S_RETRY)) != "new":
            raise Failure(case, "%s: after the retry the module path holds %s, expected the complete new module"
                          % (where(), short(st[0]) if st else "no file"), "ii:final-module-incomplete")
        # --- run B: same fault, no retry, so that the raw state is seen by another process
        first_b, _ = run_faulted(retry=False)
        info["path_after"] = check_raw_state()
    info["litter"] = len(scene.litter())
    # --- a fresh Template in a NEW process
    if use_exec:
        fres = construct_in_new_interpreter(scene.src, scene.moddir, scene.uri, S_FRESH, bytecode=scene.pyc)
    else:
        fres = construct_in_child(scene.src, scene.moddir, scene.uri, S_FRESH, bytecode=scene.pyc)
    if not renders(fres, scene.kind, 1):
        note, suffix = stale_note(fres)
        raise Failure(case, "%s: left the module path with %s; a fresh Template in a new process: %s%s; expected %r" % (
            where(), info["path_after"], describe_res(fres), note, expected_output(scene.kind, 1)[:80]),
            "ii:fresh-process-failed" + suffix)
    st = read_state(scene.mpath)
    if scene.classify_path(st[0] if st else None, (S_NEW, S_FRESH)) != "new":
        raise Failure(case, "%s: after a fresh Template the module path holds %s, expected the complete new module"
                      % (where(), short(st[0]) if st else "no file"), "ii:final-module-incomplete")
    return info


def warm():
    """Import everything a construction needs BEFORE forking, so that children do not pay for imports."""
    core.setup_repo()
    import mako.template  # noqa: F401
    import mako.runtime  # noqa: F401


def shard_faults(task):
    kind, depth, state, writer, fracs, exec_policy = task
    warm()
    ev = core.Evidence()
    fails = {}
    with core.TempDir() as root:
        try:
            scene = Scene(root, kind, depth, state, "ii")
            log = counting_run(scene, writer, depth)
        except Failure as f:
            ev.case(key=("ii-setup", kind, depth, state, writer), nontrivial=False, labels=("FAIL:" + f.key,))
            return ev, [f]
        win = write_window(log)
        seq = " ; ".join("%s(%s)" % (n, a) for n, a in log).replace(os.path.basename(scene.uri), "T.html")
        ev.notes["calls[%s,depth=%d,writer=%s]" % (state, depth, int(writer))] = seq
        for k, mode, frac in fault_plans(log, fracs):
            name = log[k][0]
            case = {"part": "ii", "kind": kind, "depth": depth, "state": state, "writer": writer, "k": k, "mode": mode,
                    "frac": frac, "call": log[k]}
            nt = win is not None and win[0] <= k <= win[1]
            use_exec = exec_policy == "all" or (exec_policy == "window-die" and nt and mode.startswith("die")
                                                and frac == "half")
            labels = ["part:ii", "ii:%s:%s:%s" % (name, mode, state), "ii:call:" + name, "ii:mode:" + mode,
                      "ii:state:" + state, "ii:writer:%d" % writer]
            try:
                for attempt in range(SAME_SECOND_TRIES):
                    info = run_fault_case(scene, writer, log, k, mode, frac, use_exec, case)
                    if info.get("same_second") is not False:
                        break
                if scene.pyc:
                    if info.get("same_second"):
                        labels.append("pyc:new-module-in-the-second-of-the-old-bytecode")
                    elif info.get("same_second") is False:
                        labels.append("pyc:missed-the-second")
                        ev.rejected += 1
                        nt = False
                labels.append("ii:path-after:" + info["path_after"])
                if info.get("litter"):
                    labels.append("ii:temp-litter-left")
                if info.get("first"):
                    labels.append("ii:failing-Template():" + info["first"])
                labels.append("ii:fresh:" + ("exec" if use_exec else "fork"))
            except Failure as f:
                labels.append("FAIL:" + f.key)
                fails.setdefault(f.key + ":" + name, f)
            ev.evaluations += 1
            if nt:
                ev.distinct_extra += 1
            for l in labels:
                ev.labels[l] += 1
            if nt and mode == "die_mid" and kind == "plain" and state in ("older", "nodir"):
                ev.sample(case, "fault")
    return ev, list(fails.values())


# =================================================================================================================
# (iii) races
# =================================================================================================================
def run_race(scene, n, stagger):
    """n forked processes released together. -> list of results"""
    scene.reset()
    br, bw = os.pipe()
    kids = []

    def make(i):
        def child(emit):
            os.close(bw)
            os.read(br, 1)  # returns b"" when the parent closes the write end: everybody at once
            if stagger:
                time.sleep(0.0003 * stagger * i)
            emit({"res": construct(scene.src, scene.moddir, scene.uri, S_NEW, False)})
        return child

    for i in range(n):
        kids.append(fork_child(make(i)))
    os.close(br)
    os.close(bw)
    results = []
    for pid, r in kids:
        code, out = collect_child(pid, r)
        if code != 0 or not out:
            raise HarnessError("racing child exited %r" % code)
        results.append(out[-1]["res"])
    return results


def check_race(scene, n, stagger, case):
    results = run_race(scene, n, stagger)
    for i, res in enumerate(results):
        if not renders(res, scene.kind, 1):
            raise Failure(case, "race of %d processes, state=%s: process %d: %s; expected render %r" % (
                n, scene.state, i, describe_res(res), expected_output(scene.kind, 1)[:60]), "iii:racer-failed")
    st = read_state(scene.mpath)
    if scene.classify_path(st[0] if st else None, (S_NEW,)) != "new":
        raise Failure(case, "race of %d processes, state=%s: final module file is %s, expected the complete new module "
                      "(%d bytes)" % (n, scene.state, short(st[0]) if st else "missing", len(scene.new)),
                      "iii:final-module-incomplete")


def shard_races(task):
    n, state, kind, stagger, depth, reps = task
    warm()
    ev = core.Evidence()
    fails = {}
    case = {"part": "iii", "n": n, "state": state, "kind": kind, "stagger": stagger, "depth": depth, "reps": reps}
    with core.TempDir() as root:
        try:
            scene = Scene(root, kind, depth, state, "iii")
            counting_run(scene, False)
        except Failure as f:
            ev.case(key=("iii-setup", n, state, kind), nontrivial=False, labels=("ii:fault-free-run-wrong",))
            return ev, [f]
        for rep in range(reps):
            labels = ["part:iii", "iii:n=%d" % n, "iii:state:" + state, "iii:kind:" + kind, "iii:stagger=%d" % stagger,
                      "iii:depth=%d" % depth]
            try:
                check_race(scene, n, stagger, case)
            except Failure as f:
                labels.append("FAIL:" + f.key)
                fails.setdefault(f.key, f)
            ev.evaluations += 1
            ev.distinct_extra += 1
            for l in labels:
                ev.labels[l] += 1
        if n == 8 and state == "older" and kind == "big":
            ev.sample(case, "race")
    return ev, list(fails.values())


# =================================================================================================================
def fault_tasks(quick, which=("plain", "pyc")):
    tasks = []
    if quick:
        combos = [("plain", 1), ("uni", 0)]
        pyc_combos = [("plain", 1)]
        fracs = ("one", "half", "allbut1")
        pyc_fracs = ("half",)
        policy = "window-die"
    else:
        combos = [("plain", 1), ("uni", 0), ("def", 2), ("ctl", 1), ("big", 0)]
        pyc_combos = [("plain", 1), ("uni", 0), ("def", 2)]
        fracs = pyc_fracs = ("one", "half", "allbut1")
        policy = "all"
    if "pyc" in which:  # first: these shards spend time waiting for the clock
        for (kind, depth), state, writer in itertools.product(pyc_combos, PYC_STATES, (False, True)):
            tasks.append((kind, depth, state, writer, pyc_fracs, policy))
    if "plain" in which:
        for (kind, depth), state, writer in itertools.product(combos, STATES, (False, True)):
            tasks.append((kind, depth, state, writer, fracs, policy))
    return tasks


def race_tasks(quick):
    """(n, state, kind, stagger, depth, reps).  The directory-creation race (state nodir) has a window of a few
    microseconds between os.path.exists and os.makedirs; it gets a deeper directory chain (more mkdir steps to
    collide on) and more repetitions of the cheap template."""
    tasks = []
    for n in range(2, 9):
        for state in STATES:
            if quick:
                tasks.append((n, state, "plain", 0, 1, 2))
                tasks.append((n, state, "big", n % 2, 1, 2))
            else:
                tasks.append((n, state, "plain", 0, 1, 30))
                tasks.append((n, state, "big", 0, 1, 30))
                tasks.append((n, state, "big", 1, 1, 30))
        tasks.append((n, "nodir", "plain", 0, 3, 12 if quick else 120))
        tasks.append((n, "nodir", "plain", 0, 2, 12 if quick else 120))
    return tasks


def run(ctx):
    ev = ctx.ev
    part = getattr(ctx, "part", None)
    if part in (None, "ii", "ii-pyc"):
        ctx.pmap(shard_faults, fault_tasks(ctx.quick, ("pyc",) if part == "ii-pyc" else ("plain", "pyc")))
    if part in (None, "i"):
        ctx.pmap(shard_big_histories, [[c] for c in BIG_HISTORIES])
        n = ctx.pick(150, 3000)
        ctx.pmap(shard_histories, [(ctx.shard_seed(i, "i"), n, i < 2, False) for i in range(16)])
    if part in (None, "pyc", "i-pyc"):
        n = ctx.pick(60, 1000)
        ctx.pmap(shard_histories, [(ctx.shard_seed(i, "pyc"), n, i < 1, True) for i in range(16)])
    if part in (None, "iii"):
        ctx.pmap(shard_races, race_tasks(ctx.quick))
    ev.notes["fault_cases"] = ev.labels.get("part:ii", 0)
    ev.notes["histories"] = ev.labels.get("part:i", 0)
    ev.notes["histories_bytecode_enabled"] = ev.labels.get("part:i-pyc", 0)
    ev.notes["histories_bytecode_hazard_rewrites"] = sum(
        v for k, v in ev.labels.items() if k.startswith("pyc:hazard:"))
    ev.notes["races"] = ev.labels.get("part:iii", 0)
    ev.exhaustive = True
    ev.notes["exhaustive_domains"] = (
        "(ii) every file-system call index of the fault-free run x every applicable mode x prefix fraction, for every "
        "(kind, depth, state, writer) task; (i) and (iii) are sampled")


def classify(f):
    return None


def replay(case):
    warm()
    part = case.get("part")
    try:
        if part == "i":
            # bytecode-enabled histories depend on two writes falling into one second: give a miss a few chances
            for _ in range(SAME_SECOND_TRIES if case.get("pyc") else 1):
                check_history(case)
        elif part in ("ii", "ii-setup"):
            with core.TempDir() as root:
                scene = Scene(root, case["kind"], case.get("depth", 1), case["state"], "rp")
                log = counting_run(scene, case.get("writer", False))
                if part == "ii" and case.get("k") is not None:
                    k = case["k"]
                    want = (case.get("call") or [None])[0]
                    if k >= len(log) or (want is not None and log[k][0] != want):
                        # the tree changed since the replay file was written: find the same call again
                        cand = [i for i, e in enumerate(log) if e[0] == want]
                        if not cand:
                            return None
                        k = cand[0]
                    if case["mode"] not in faultfs.modes_for(log[k][0]):
                        return None
                    run_fault_case(scene, case.get("writer", False), log, k, case["mode"], case.get("frac", "half"),
                                   True, case)
        elif part == "iii":
            with core.TempDir() as root:
                scene = Scene(root, case["kind"], case.get("depth", 1), case["state"], "rp")
                counting_run(scene, False)
                for _ in range(min(400, max(60, case.get("reps", 1) * 10))):
                    check_race(scene, case["n"], case.get("stagger", 0), case)
        else:
            raise HarnessError("unknown replay part %r" % (part,))
    except Failure as f:
        return f
    return None

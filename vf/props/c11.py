"""C11 - compile-time errors name the template and the line of the fault.

Subjects : documents assembled from benign multi-line material (text, CRLF, continuations, comments, <%doc>, multi-line
           expressions and blocks, defs, control structures) with exactly ONE planted fault at a known offset.
Faults   : 30 classes (Python syntax errors in every Python-bearing construct incl. multi-line ones with the fault on a
           chosen line; unterminated ${ / <% ; unknown, mismatched, unopened closing tags; unterminated / mismatched /
           unopened control keywords; illegal ternary; duplicate block; named block in def / call; illegal, missing and
           non-expression attributes) x every one of them planted into each subject x 5 construction paths.
Oracle   : expected (line, col) known by construction; exception type in {SyntaxException, CompileException};
           e.filename / e.source per path; identical on all paths; RichTraceback and the error templates show that line.
"""
import itertools
import os
import re

from vf import core
from vf.core import Failure

PID = "C11"
LEVEL = "fault_enumeration"
RULE = (
    "subject = hypothesis-drawn prefix/suffix material (1-10 units out of 14 kinds, LF/CRLF, optional inline text before the "
    "construct so that its column is >1); fault = each of the fault classes planted once per subject (enumerated), python "
    "faults in multi-line constructs on a drawn line; each (subject, fault) is compiled on 5 paths (string, string+filename, "
    "file, lookup, file+module_directory). non-trivial = the fault is not on line 1 and is preceded by a multi-line "
    "construct, CRLF, a continuation or a leading blank line; distinct by (fault class, prefix, inline column)."
)
ASSUMPTIONS = [
    "'Unclosed tag' (reported at end of input, pinned by test_lexer.py::test_unclosed_tag) and an unterminated filter list "
    "(pinned at the filter's start by test_exceptions.py) are checked for type/filename/source only",
    "for Python faults the offending Python line is the physical line carrying the bad token (`+*`), confirmed per case with CPython's compile()",
]
_k = itertools.count()

BAD = "x +* 1"


# fault builders: -> dict(text=..., at=offset of the construct the error is reported for, dline=physical lines from that
# construct's first line to the offending python line, kind=..., closers=text needed after to keep the rest well formed,
# needs_line_start=bool, pos_checked=bool, line_checked=bool)
def faults(g):
    F = []

    def add(kind, text, at=0, dline=0, line_start=False, pos=True, line=True, exc=("SyntaxException", "CompileException")):
        F.append({"kind": kind, "text": text, "at": at, "dline": dline, "line_start": line_start, "pos": pos, "line": line, "exc": list(exc)})

    k = g.int(0, 2)
    add("expr", "${%s}" % BAD)
    add("expr-multiline", "${[1,\n" + "2,\n" * k + BAD + ",\n3][0]}", dline=1 + k)
    add("expr-leading-newline", "${\n" + "\n" * k + "(" + BAD + ")}", dline=1 + k)
    add("control-if", "% if " + BAD + ":\na\n% endif\n", line_start=True)
    add("control-indented", "   \t% if " + BAD + ":\na\n% endif\n", line_start=True)
    add("control-elif", "% if x:\na\n% elif " + BAD + ":\nb\n% endif\n", at=len("% if x:\na\n"), line_start=True)
    add("control-else-junk", "% if x:\na\n% else " + BAD + ":\nb\n% endif\n", at=len("% if x:\na\n"), line_start=True)
    add("control-except", "% try:\na\n% except (E e):\nb\n% endtry\n", at=len("% try:\na\n"), line_start=True)
    add("control-for", "% for x in (:\na\n% endfor\n", line_start=True)
    add("control-while", "% while " + BAD + ":\na\n% endwhile\n", line_start=True)
    add("control-with", "% with " + BAD + " as w:\na\n% endwith\n", line_start=True)
    add("control-continued", "% if x and \\\n" + "  y and \\\n" * k + "  " + BAD + ":\na\n% endif\n", dline=1 + k, line_start=True)
    pre = ["a = 1", "b = 2", "if a:", "    c = 3"][: g.int(0, 4)]
    post = ["d = 4"] * g.int(0, 2)
    margin = g.pick(["", "    ", "\t", "  "])
    add("block", "<%\n" + "".join(margin + l + "\n" for l in pre) + margin + "z = " + BAD + "\n" + "".join(margin + l + "\n" for l in post) + "%>",
        dline=1 + len(pre))
    add("block-opener-trailing-blank", "<% \n" + margin + "z = " + BAD + "\n%>", dline=1)
    add("block-whitespace-only-line", "<%\n  \t\n" + "\n" * k + margin + "z = " + BAD + "\n%>", dline=2 + k)
    add("module-block-opener-trailing-tab", "<%!\t\n" + margin + "z = " + BAD + "\n%>", dline=1)
    add("expr-opener-trailing-blank", "${ \n" + " \n" * k + "(" + BAD + ")}", dline=1 + k)
    # a fault whose extent covers two lines (missing comma between items on consecutive lines): reported where it begins
    add("block-missing-comma", "<%\nz = [1,\n" + "0,\n" * k + "2\n3,\n4]\n%>", dline=2 + k)
    add("expr-missing-comma", "${f(1,\n" + "0,\n" * k + "2\n3)}", dline=1 + k)
    add("module-block-missing-comma", "<%!\nz = {'a': 1,\n" + "'c': 0,\n" * k + "'b': 2\n'd': 3}\n%>", dline=2 + k)
    add("block-oneline", "<% z = " + BAD + " %>")
    add("block-tagline", "<% a = 1\n" + "b = 2\n" * k + "z = " + BAD + " %>", dline=1 + k)
    add("module-block", "<%!\n" + "".join(margin + l + "\n" for l in pre) + margin + "z = " + BAD + "\n%>", dline=1 + len(pre))
    add("module-block-blank-lines", "<%!\n\n" + "\n" * k + margin + "z = " + BAD + "\n%>", dline=2 + k)
    add("def-signature", '<%def name="d9(a b)">x</%def>')
    add("def-default", '<%%def name="d9(a=%s)">x</%%def>' % BAD)
    add("block-args", '<%%block name="bb9" args="a=%s">x</%%block>' % BAD)
    add("page-args", '<%%page args="a=%s"/>' % BAD)
    # signatures written over several lines, the attribute value starting with line breaks
    add("page-args-leading-newline", '<%page args="\n' + "\n" * k + '    a b,\n    c=1"/>', dline=1 + k)
    add("block-args-leading-newline", '<%block name="bb8" args="\n' + "\n" * k + '    c=1,\n    a b">x</%block>', dline=2 + k)
    add("call-args-leading-newline", '<%call expr="f()" args="\r\n' + "\n" * k + '  a b">x</%call>', dline=1 + k)
    add("nsdef-args-leading-newline", '<%self:f args="\n' + "\n" * k + '  a b,\n  d">x</%self:f>', dline=1 + k)
    add("filter-list", "${x | h, %s}" % "a b")
    add("filter-list-after-newline", "${x |\n" + "\n" * k + " h, a b}", dline=1 + k)
    add("filter-list-multiline-expr", "${[x,\n y][0]\n" + "\n" * k + " | a b}", dline=2 + k)
    # the list itself spans lines, and the whitespace before the "}" is longer than the list's first line
    add("filter-list-spanning-lines", "${x | f(\n" + "     'a',\n" * k + "     a b)\n" + " " * (6 + 3 * k) + "}", dline=1 + k)
    add("filter-list-unindented-second-line", "${x | h,\na b\n" + "\n" * (1 + k) + "  }", dline=1)
    add("filter-list-spanning-lines-after-multiline-expr", "${(x +\n 1) | f(\n 2,\n a b)\n\n       }", dline=3)
    add("attr-expr", '<%%include file="${%s}"/>' % BAD)
    add("call-expr", '<%%call expr="f(%s)">x</%%call>' % BAD)
    add("nscall-attr", '<%%self:f a="${%s}">x</%%self:f>' % BAD)
    add("def-multiline-tag", '<%def\n' + "\n" * k + '  name="d9(a b)">x</%def>', dline=1 + k, line=False)
    add("unterminated-expr", "${x + 1", pos=True)
    add("unterminated-expr-multiline", "${x + 'a'\n  + {'k': 1,  # c\n 'z': (2", pos=True)
    add("unterminated-block", "<% x = 1 ", pos=True)
    add("unterminated-block-multiline", "<% x = 'a'\ny = \"b\"  # c\nz = 1 ", pos=True)
    add("unterminated-filter", "${x | h", pos=False, line=False)
    add("unknown-tag", "<%foo9>x</%foo9>")
    add("unknown-tag-selfclosed", '<%bar9 a="1"/>')
    add("mismatched-close", '<%def name="d9()">x</%call>', at=len('<%def name="d9()">x'))
    add("close-without-open", "x</%def>", at=1)
    add("unclosed-tag", '<%def name="d9()">x', pos=False, line=False)
    add("unterminated-control", "% if x:\na\n", line_start=True)
    add("unterminated-control-nested", "% for a in b:\n% if x:\na\n% endif\n", line_start=True)
    # two control lines still open at the end of the input: the innermost one is named, at its own line
    add("unterminated-control-two-open", "% for a in b:\n" + "x\n" * k + "% if x:\na\n", at=len("% for a in b:\n" + "x\n" * k), line_start=True)
    add("unterminated-control-three-open", "% if y:\n% for a in b:\n" + "x\n" * k + "% while x:\na\n", at=len("% if y:\n% for a in b:\n" + "x\n" * k), line_start=True)
    add("mismatched-control", "% if x:\na\n% endfor\n", at=len("% if x:\na\n"), line_start=True)
    add("end-without-start", "% endif\n", line_start=True)
    add("illegal-ternary", "% for a in b:\nx\n% elif y:\nz\n% endfor\n", at=len("% for a in b:\nx\n"), line_start=True)
    add("invalid-control-line", "% \n", line_start=True)
    add("unsupported-keyword", "% foo x:\na\n% endfoo\n", line_start=True)
    add("duplicate-block", '<%block name="dup9">1</%block>' + "\n" * k + '<%block name="dup9">2</%block>', at=len('<%block name="dup9">1</%block>' + "\n" * k))
    add("duplicate-block-nested", '<%block name="dup7">a' + "\n" * k + '<%block name="dup7">2</%block></%block>', at=len('<%block name="dup7">a' + "\n" * k))
    add("duplicate-block-nested-deeper", '<%block name="dup6">\n<%block>a' + "\n" * k + '<%block name="dup6">x</%block></%block></%block>',
        at=len('<%block name="dup6">\n<%block>a' + "\n" * k))
    add("block-def-clash", '<%def name="dup8()">1</%def><%block name="dup8">2</%block>', at=len('<%def name="dup8()">1</%def>'))
    add("named-block-in-def", '<%def name="d9()">a<%block name="nb9">x</%block></%def>', at=len('<%def name="d9()">a'))
    nbd = '<%def name="d9()">a<%block>b\n' + "c\n" * k + "  "
    add("named-block-in-anon-block-in-def", nbd + '<%block name="nb8">x</%block></%block></%def>', at=len(nbd))
    nbc = '<%call expr="f()">a<%block>\n<%block>b\n' + "c\n" * k  # (anonymous blocks are named after their line: one per line)
    add("named-block-in-anon-blocks-in-call", nbc + '<%block name="nb7">x</%block></%block></%block></%call>', at=len(nbc))
    add("named-block-in-call", '<%call expr="f()">a<%block name="nb9">x</%block></%call>', at=len('<%call expr="f()">a'))
    nsp = '<%namespace name="nq9">\n<%def name="nd9()">d</%def>\n' + "\n" * k + "  "
    add("anon-block-in-namespace", nsp + "<%block>x</%block>\n</%namespace>", at=len(nsp))
    nsp2 = '<%namespace name="nq8"> <%def name="nd8()">d</%def> '
    add("anon-block-in-namespace-same-line", nsp2 + "<%block>x</%block></%namespace>", at=len(nsp2))
    add("illegal-attribute", '<%def name="d9()" foo="1">x</%def>')
    add("missing-attribute", "<%def>x</%def>")
    add("missing-attribute-include", "<%include/>")
    add("expr-in-nonexpr-attr", '<%def name="${x}()">x</%def>')
    add("def-without-parens", '<%def name="d9">x</%def>')
    add("namespace-no-name", '<%namespace file="x.html"/>')
    add("block-with-signature", '<%block name="b9(x)">x</%block>')
    add("anon-block-args", '<%block args="x">x</%block>')
    return F


class G:
    def __init__(self, data):
        self.data = data
        self.pos = 0

    def _b(self):
        if self.pos < len(self.data):
            b = self.data[self.pos]
            self.pos += 1
            return b
        return 0

    def pick(self, seq):
        seq = list(seq)
        return seq[self._b() % len(seq)]

    def chance(self, p):
        return (self._b() % 100) >= 100 - p

    def int(self, a, b):
        return a + self._b() % (b - a + 1)


UNITS = [
    ("text", "plain text\n"), ("crlf", "dos line\r\n"), ("blank", "\n"), ("multitext", "one\ntwo\nthree\n"),
    ("continuation", "joined \\\nline\n"), ("comment", "## a comment\n"), ("doc", "<%doc>\nmulti\nline\n</%doc>\n"),
    ("expr", "${'e'}\n"), ("multiexpr", "${[1,\n 2,\n 3][0]}\n"), ("block", "<%\n    q1 = 1\n    q2 = 2\n%>\n"),
    ("control", "% if True:\n  inner\n% endif\n"), ("def", '<%def name="p{N}()">\n  body\n</%def>\n'),
    ("texttag", "<%text>\n% raw ${x}\n</%text>\n"), ("crlfblock", "<%\r\n    q3 = 1\r\n%>\r\n"), ("percent", "%% literal\n"),
    # characters str.splitlines() takes for line boundaries; the lexer and Python count "\n" only
    ("seps", "page\x0cbreak \x0b \x1c\x1d\x1e \x85 \u2028 \u2029 end\n"), ("formfeed", "\x0c\n"),
]


def build(data):
    g = G(data)
    n = g.int(0, 7)
    prefix = []
    for i in range(n):
        kind, txt = g.pick(UNITS)
        txt = txt.replace("{N}", str(i))
        prefix.append([kind, txt])
    inline = g.pick(["", "", "abc ", "  x", "é—", "\t"])
    suffix = "".join(g.pick(UNITS)[1].replace("{N}", "9%d" % i) for i in range(g.int(0, 2)))
    return {"prefix": prefix, "inline": inline, "suffix": suffix, "fseed": [g._b() for _ in range(6)], "no_final_newline": g.chance(30)}


def assemble(subject, fault):
    pre = "".join(t for _, t in subject["prefix"])
    inline = subject["inline"]
    if fault["line_start"]:
        inline = ""
    head = pre + inline
    suffix = "" if fault["kind"].startswith(("unterminated-", "unclosed-")) else subject["suffix"]
    src = head + fault["text"] + ("\n" if not fault["text"].endswith("\n") else "") + suffix
    if subject.get("no_final_newline") and fault["dline"] == 0 and fault["at"] == 0 and "\n" not in fault["text"].rstrip("\n"):
        # the fault sits on the very last line of a template that does not end with a newline
        src = head + fault["text"].rstrip("\n")
    off = len(head) + fault["at"]
    line = src.count("\n", 0, off) + 1
    col = off - (src.rfind("\n", 0, off) + 1) + 1
    return src, line + fault["dline"], col


def compile_paths(src, d, k):
    """yield (pathname, expected filename, callable that compiles)"""
    from mako.lookup import TemplateLookup
    from mako.template import Template

    fn = os.path.join(d, "t%d.html" % k)
    with open(fn, "wb") as fh:
        fh.write(src.encode("utf-8"))
    moddir = os.path.join(d, "mod")
    yield "string", None, lambda: Template(src)
    yield "string+filename", "given.mako", lambda: Template(src, filename="given.mako")
    yield "file", fn, lambda: Template(filename=fn)
    yield "lookup", fn, lambda: TemplateLookup(directories=[d]).get_template("t%d.html" % k)
    yield "module_directory", fn, lambda: Template(filename=fn, module_directory=moddir)
    # a module directory shared with a lookup over ANOTHER root that served the same URI first (its module file is newer
    # than this file): the module is regenerated from this file, and the error names this file
    ra, rb, md2 = os.path.join(d, "ra%d" % k), os.path.join(d, "rb%d" % k), os.path.join(d, "mod2_%d" % k)
    os.makedirs(ra)
    os.makedirs(rb)
    with open(os.path.join(ra, "page%d.html" % k), "w") as fh:
        fh.write("good template of the other root\n")
    TemplateLookup(directories=[ra], module_directory=md2).get_template("page%d.html" % k)
    fnb = os.path.join(rb, "page%d.html" % k)
    with open(fnb, "wb") as fh:
        fh.write(src.encode("utf-8"))
    old = os.stat(os.path.join(md2, "page%d.html.py" % k)).st_mtime - 100
    os.utime(fnb, (old, old))
    yield "module_directory-other-root", fnb, lambda: TemplateLookup(directories=[rb], module_directory=md2).get_template("page%d.html" % k)
    # compiled as a side effect of rendering another template that includes / inherits / imports it
    for how, outer in (("include", 'o1\no2\n<%%include file="t%d.html"/>\n'), ("inherit", '<%%inherit file="t%d.html"/>\nbody\n'),
                       ("namespace", 'o1\n<%%namespace name="n" file="t%d.html"/>\n${n.body()}\n')):
        ofn = os.path.join(d, "outer_%s_%d.html" % (how, k))
        with open(ofn, "w") as fh:
            fh.write(outer % k)
        yield "via-" + how, fn, (lambda ofn=ofn: TemplateLookup(directories=[d]).get_template(os.path.basename(ofn)).render())


def check_case(case, ev=None, tmp=None):
    from mako import exceptions as mexc

    subject, fault = case["subject"], case["fault"]
    src, eline, ecol = assemble(subject, fault)
    results = []
    own = None
    if tmp is None:
        own = core.TempDir()
        tmp = own.__enter__()
    try:
        for pname, efile, fn in compile_paths(src, tmp, next(_k)):
            try:
                fn()
            except (mexc.SyntaxException, mexc.CompileException) as e:
                kind = type(e).__name__
                rt = mexc.RichTraceback(error=e)
                txt = htm = None
                if pname in ("string", "file", "via-include"):
                    try:
                        txt = mexc.text_error_template().render(error=e, traceback=e.__traceback__)
                    except Exception as e2:
                        txt = "ERROR-TEMPLATE-FAILED %r" % e2
                if pname in ("lookup", "via-include", "via-inherit") and case.get("html", True):
                    try:
                        htm = mexc.html_error_template().render_unicode(error=e, traceback=e.__traceback__)
                    except Exception as e2:
                        htm = "ERROR-TEMPLATE-FAILED %r" % e2
                results.append((pname, efile, kind, e.lineno, e.pos, e.filename, e.source, rt.lineno, rt.source, txt, htm))
            except Exception as e:
                raise Failure(case, "fault %s on path %s raised %s: %s\n--- source ---\n%s" % (fault["kind"], pname, type(e).__name__, str(e)[:200], src),
                              "wrong-exception:%s:%s" % (fault["kind"], type(e).__name__))
            else:
                raise Failure(case, "fault %s on path %s compiled without error\n--- source ---\n%s" % (fault["kind"], pname, src),
                              "no-exception:%s" % fault["kind"])
    finally:
        if own is not None:
            own.__exit__(None, None, None)
    tag = "\n--- source (expected line %d col %d) ---\n%s" % (eline, ecol, src)
    for (pname, efile, kind, lineno, pos, filename, source, rtl, rts, txt, htm) in results:
        if kind not in fault["exc"]:
            raise Failure(case, "fault %s path %s: exception %s" % (fault["kind"], pname, kind) + tag, "exception-class:" + fault["kind"])
        if fault["line"] and lineno != eline:
            raise Failure(case, "fault %s path %s: reported line %r, fault is on line %d" % (fault["kind"], pname, lineno, eline) + tag, "line:" + fault["kind"])
        if fault["pos"] and fault["line"] and pos != ecol:
            raise Failure(case, "fault %s path %s: reported column %r, construct begins at column %d" % (fault["kind"], pname, pos, ecol) + tag, "column:" + fault["kind"])
        if filename != efile:
            raise Failure(case, "fault %s path %s: e.filename %r, expected %r" % (fault["kind"], pname, filename, efile) + tag, "filename:" + pname)
        s2 = source.decode("utf-8") if isinstance(source, bytes) else source
        if s2 != src:
            raise Failure(case, "fault %s path %s: e.source is not the template text (%r...)" % (fault["kind"], pname, (s2 or "")[:60]) + tag, "source:" + pname)
        if rtl != lineno:
            raise Failure(case, "fault %s path %s: RichTraceback.lineno %r != e.lineno %r" % (fault["kind"], pname, rtl, lineno) + tag, "richtraceback-lineno")
        if fault["line"] and txt is not None:
            if ("line %d" % eline) not in txt and ("line: %d" % eline) not in txt:
                raise Failure(case, "fault %s path %s: text error template does not name line %d: %r" % (fault["kind"], pname, eline, txt[-300:]) + tag, "text-template-line")
        if fault["line"] and htm is not None:
            import html as _html

            lines = src.split("\n")
            shown = lines[eline - 1].strip() if eline - 1 < len(lines) else ""
            plain = _html.unescape(re.sub(r"<[^>]+>", "", htm))
            squash = lambda z: re.sub(r"\s+", "", z)
            if shown and squash(shown) not in squash(plain):
                raise Failure(case, "fault %s path %s: html error template does not show the faulty line %r" % (fault["kind"], pname, shown) + tag, "html-template-line")
            # with pygments the page marks ONE line as the line in error (number + text)
            m = re.search(r'<table class="error syntax-highlightedtable">(.*?)</table>', htm, re.S)
            if m:
                mn = re.search(r'<td class="linenos">(.*?)</td>', m.group(1), re.S)
                mc = re.search(r'<td class="code">(.*?)</td>', m.group(1), re.S)
                num = _html.unescape(re.sub(r"<[^>]+>", "", mn.group(1))).strip() if mn else None
                code = _html.unescape(re.sub(r"<[^>]+>", "", mc.group(1))) if mc else ""
                if num != str(eline) or squash(code) != squash(lines[eline - 1] if eline - 1 < len(lines) else ""):
                    raise Failure(case, "fault %s path %s: html error template marks line %s %r as the line in error, the fault is on line %d %r"
                                  % (fault["kind"], pname, num, code.strip(), eline, shown) + tag, "html-template-error-line")
    first = results[0]
    for r in results[1:]:
        if (r[2], r[3], r[4]) != (first[2], first[3], first[4]):
            raise Failure(case, "fault %s: path %s reports %r, path %s reports %r" % (fault["kind"], first[0], first[2:5], r[0], r[2:5]) + tag,
                          "paths-differ:" + fault["kind"])
    return eline, ecol


def nontrivial(subject, eline):
    kinds = {k for k, _ in subject["prefix"]}
    return eline > 1 and bool(kinds & {"multitext", "continuation", "doc", "multiexpr", "block", "control", "def", "texttag", "crlf", "crlfblock", "blank"})


def run_subject(subject, ev, fails, tmp, only=None):
    g = G(bytes(subject["fseed"]))
    for fault in faults(g):
        if only and fault["kind"] not in only:
            continue
        case = {"subject": subject, "fault": fault, "html": (len(fails) + ev.evaluations) % 5 == 0 or bool(subject.get("no_final_newline"))}
        try:
            eline, ecol = check_case(case, ev, tmp)
        except Failure as f:
            if f.key not in fails:
                fails[f.key] = f
            eline = 0
        ev.case(key=[fault["kind"], subject["prefix"], subject["inline"]], nontrivial=nontrivial(subject, eline),
                labels=("fault:" + fault["kind"],))
    if len(ev.samples) < 3 and subject["prefix"]:
        f0 = faults(G(bytes(subject["fseed"])))[12]
        src, l, c = assemble(subject, f0)
        ev.sample({"fault": f0["kind"], "source": src, "expected_line": l, "expected_col": c}, "s%d" % len(ev.samples))


def shard(task):
    seed, n = task
    core.setup_repo()
    ev = core.Evidence()
    fails = {}
    from hypothesis import strategies as st

    with core.TempDir() as tmp:
        core.hyp_search(st.binary(min_size=40, max_size=40).map(build), lambda s: run_subject(s, ev, fails, tmp), ev, seed, n, shrink=False)
    out = []
    for f in fails.values():
        out.append(_minimise(f))
    return ev, out


def _minimise(f):
    """drop prefix units / inline text / suffix while the same key fails"""
    import copy

    case = copy.deepcopy(f.case)
    key = f.key

    def fails(c):
        try:
            check_case(c)
        except Failure as g:
            return g if g.key == key else None
        return None

    best = f
    changed = True
    while changed:
        changed = False
        for i in range(len(case["subject"]["prefix"])):
            c = copy.deepcopy(case)
            del c["subject"]["prefix"][i]
            g = fails(c)
            if g:
                case, best, changed = c, g, True
                break
        for field in ("inline", "suffix"):
            if case["subject"][field]:
                c = copy.deepcopy(case)
                c["subject"][field] = ""
                g = fails(c)
                if g:
                    case, best, changed = c, g, True
    return best


def run(ctx):
    n = ctx.pick(4, 150)
    ctx.pmap(shard, [(ctx.shard_seed(i), n) for i in range(16)])
    ctx.ev.notes["fault_classes"] = len(faults(G(b"")))


def replay(case):
    core.setup_repo()
    try:
        check_case(case)
    except Failure as f:
        return f
    return None

"""C13 - an exception at any point leaves the render state consistent.

Subjects  : tgen programs (defs buffered/filtered/decorated, captures, calls with content, loops with `loop`,
            <%text filter>, anonymous blocks) that render without raising.
Faults    : every position of every body list as raise point (${boom(Boom)}; variants: <% raise %>, raising filter,
            raising argument evaluation), one at a time  x  every wrappable node as `% try/% except Boom` handler
            position (only pairs whose handler actually catches, decided by the reference)  +  unhandled modes:
            plain render (same exception object propagates), render_context + context.write("tail"),
            error_handler returning True, format_exceptions, second render of the same Template.
Oracle    : reference interpreter with Python exceptions (clause A20): text written directly stays, abandoned
            buffers are discarded, later output goes to the buffer current at the handler's level, caller / loop are
            restored (the rest of the program prints them).
"""
import copy
import io
import itertools

from vf import core
from vf.core import Failure
from vf.gen import tenv, tgen, tprog, trun

PID = "C13"
LEVEL = "fault_enumeration"
RULE = (
    "subject = generated program that renders cleanly; fault = one raise point (every index of every body list; kinds "
    "expr-boom, py-raise, arg-eval, raising filter) x one handler (every expr/control/block/call node wrapped in % try/"
    "% except Boom with a marker; only pairs where the reference says the handler catches, at most 24 per subject chosen "
    "by a fixed stride) + 4 unhandled raise points per subject x modes {render: same exception object, render_context + "
    "write('tail'), error_handler->True, format_exceptions, second render}. evaluations = mako executions. non-trivial = "
    "the raise point has >=2 lexical ancestors among {flagged def, call body, loop, block, with} or lies inside a callable "
    "invoked from elsewhere, and the handler is not the innermost enclosing wrappable node; distinct by (program, raise, handler, mode)."
)
ASSUMPTIONS = [
    "handlers are `% try/% except Boom` around one node; `% finally` is not generated",
    "programs with `return` inside buffered/filtered callables are excluded (known finding C05-early-return-drops-buffered-content)",
    "include_error_handler is exercised by C07's include programs, not here",
]
FEATURES = {"control", "py", "def", "block", "ccall", "capture", "flags", "nested_def", "decorator", "texttag", "loop", "with"}

H_MARK = "«H»"
QUICK = [True]


def _with_probes(prog):
    """append plain calls of every def that works with and without content: after any handled exception `caller` must be
    what it was (nothing), so they print "(nc)" """
    body = list(prog["body"])
    for n in prog["body"]:
        if n["t"] == "def" and n["body"] and n["body"][0].get("t") == "if" and n["body"][0]["arms"][0][0] == "caller" \
                and "*" not in n["sig"] and not n.get("decorator"):
            req = [p.strip() for p in n["sig"].split(",") if p.strip() and "=" not in p]
            body.append({"t": "text", "s": "|probe:"})
            body.append({"t": "expr", "e": "%s(%s)" % (n["name"], ", ".join("%s='s'" % p for p in req)), "__probe": True})
    return dict(prog, body=body)


def strategy():
    return tprog.programs(FEATURES, max_depth=3, ndefs=(1, 3), body_len=(2, 5), optional_caller=75).map(_with_probes)


# ---- addressing nodes ----------------------------------------------------
def lists_of(prog):
    """yield (path, list, ancestors) for every body list; path navigates from prog; ancestors = node types"""
    out = []

    def walk(lst, path, anc):
        out.append((path, lst, anc))
        for i, n in enumerate(lst):
            t = n["t"]
            a2 = anc + [t + (":flag" if (n.get("buffered") or n.get("filter") or n.get("decorator")) else "")]
            if t == "if":
                for j, arm in enumerate(n["arms"]):
                    walk(arm[1], path + [i, "arms", j, 1], a2)
                if n.get("else") is not None:
                    walk(n["else"], path + [i, "else"], a2)
            elif t == "try":
                walk(n["body"], path + [i, "body"], a2)
                for j, h in enumerate(n["handlers"]):
                    walk(h[1], path + [i, "handlers", j, 1], a2)
            elif t == "ccall":
                walk(n["body"], path + [i, "body"], a2)
                for j, d in enumerate(n["defs"]):
                    walk(d["body"], path + [i, "defs", j, "body"], a2 + ["def"])
            else:
                for k in ("body", "else"):
                    if isinstance(n.get(k), list):
                        walk(n[k], path + [i, k], a2)

    walk(prog["body"], ["body"], [])
    return out


def get(prog, path):
    cur = prog
    for p in path:
        cur = cur[p]
    return cur


RAISE_KINDS = ["expr", "iterloop", "pysc", "py", "arg", "textfilter", "capnc", "expr"]
UNDEF_NAME = "missing_name_zq"


def raise_node(kind):
    if kind == "py":
        return {"t": "py", "code": ["raise Boom('py')"], "oneline": True}
    if kind == "arg":
        return {"t": "expr", "e": "str(boom(Boom))"}
    if kind == "iterloop":
        # the exception comes out of the iterable of a loop that has a loop context of its own: nothing was entered yet, so
        # nothing may be left - `loop` of an enclosing loop is what it was
        return {"t": "for", "target": "zq9", "iter": "boom(Boom)", "body": [{"t": "expr", "e": "loop.index"}], "else": None,
                "ind": "", "sp": " ", "uses_loop": True}
    if kind == "textfilter":
        # the filter of a <%text> section raises after the section's buffer was pushed: the writer of the enclosing
        # callable must be the one it had before
        return {"t": "texttag", "s": "raw ${x}", "filter": ["boomf"]}
    if kind == "capnc":
        # capture() refuses a non-callable before it has set anything up: nothing may be left behind
        return {"t": "expr", "e": "capture(42)"}
    if kind == "pysc":
        # a plain Python function made caller-aware with runtime.supports_caller: it pushes a caller frame of its own
        return {"t": "expr", "e": "pysc(context)"}
    if kind == "undef":
        # under strict_undefined the NameError is raised on entry of the callable that reads the name, before its body
        # runs; planted only as the FIRST node of a def / block body, where "on entry" and "at this node" coincide
        return {"t": "expr", "e": UNDEF_NAME}
    return {"t": "expr", "e": "boom(Boom)"}


WRAPPABLE = {"expr", "if", "for", "while", "with", "block", "ccall", "texttag"}


def plant(prog, rpath, ridx, kind, hpath=None, hidx=None):
    """copy of prog with a raise node inserted at (rpath, ridx) and optionally node (hpath, hidx) wrapped in try"""
    p = copy.deepcopy(prog)
    rpath = list(rpath)
    if hpath is not None:
        hpath = list(hpath)
        hl = get(p, hpath)
        node = hl[hidx]
        hl[hidx] = {"t": "try", "body": [node], "handlers": [["(Boom, NameError, Exception)" if kind == "capnc" else "(Boom, NameError)",
                                                              [{"t": "text", "s": H_MARK}]]], "ind": "", "sp": " "}
        # right after the handler: a def that works with and without content is called plainly - `caller` must be restored
        probes = [n for n in p["body"] if n.get("t") == "expr" and n.get("__probe")]
        inside_def = False
        cur = p
        for step in hpath:
            cur = cur[step]
            if isinstance(cur, dict) and cur.get("t") == "def":
                inside_def = True  # a probe inside a def could call that very def: unbounded recursion
        if probes and not inside_def:
            hl.insert(hidx + 1, dict(probes[0]))
            if rpath[:len(hpath)] == hpath and len(rpath) > len(hpath) and isinstance(rpath[len(hpath)], int) and rpath[len(hpath)] > hidx:
                rpath[len(hpath)] += 1
            elif rpath == hpath and ridx > hidx:
                ridx += 1
        n = len(hpath)
        if rpath[:n] == hpath and len(rpath) > n and rpath[n] == hidx:
            rpath = hpath + [hidx, "body", 0] + rpath[n + 1:]
    lst = get(p, rpath)
    marker = raise_node(kind)
    marker["__raise"] = True
    lst.insert(ridx, marker)
    return p


def ref_run(prog, mode="render"):
    ctx = tenv.make_ctx()
    ctx["context"] = None
    ctx["pysc"] = lambda c: ctx["boom"](tenv.Boom, "pysc")
    it = tgen.Interp(prog, ctx, filters=tenv.ref_filters(ctx))
    try:
        out = it.render()
        return ("ok", out, out)
    except tgen._Ctl:
        raise core.HarnessError("control flow escaped the reference")
    except Exception as e:
        if "reference step limit" in str(e):
            return ("reject",)
        return ("exc", type(e).__name__, "".join(it.bufs[0]))


def mako_run(src, mode, uri, strict=False):
    """-> outcome tuple, mode specific"""
    from mako import exceptions as mexc
    from mako.runtime import Context
    from mako.template import Template
    from mako.util import FastEncodingBuffer

    ctx = tenv.make_ctx()
    pre = tenv.Boom("prebuilt")
    pre.__cause__ = KeyError("the real reason")  # (raise Boom(..) from KeyError(..): the chain belongs to the object)
    ctx["boom"] = lambda cls=None, msg="boom": (_ for _ in ()).throw(pre)
    from mako import runtime as _rt

    ctx["pysc"] = _rt.supports_caller(lambda context: ctx["boom"]())
    ctx["boomf"] = lambda s: ctx["boom"]()
    kw = {}
    handled = []
    if mode == "error_handler":
        def eh(context, error):
            handled.append(error)
            return True
        kw["error_handler"] = eh
    if mode == "format_exceptions":
        kw["format_exceptions"] = True
    if strict:
        kw["strict_undefined"] = True
    if mode == "handler_declines":
        # any false return value declines (a handler that only logs returns None)
        declined = [None, 0, "", [], False][len(src) % 5]

        def eh3(context, error):
            handled.append(error)
            return declined
        kw["error_handler"] = eh3
    if mode in ("handler_declines_baseexc", "error_handler_baseexc", "context_baseexc"):
        pre = SystemExit(3) if len(src) % 2 else KeyboardInterrupt("stop", 2)
        ctx["boom"] = lambda cls=None, msg="boom": (_ for _ in ()).throw(pre)

        def eh2(context, error):
            handled.append(error)
            return mode == "error_handler_baseexc"
        if mode != "context_baseexc":
            kw["error_handler"] = eh2
    # format_exceptions: all four combinations of render() / render_unicode() and with / without an inherited layout
    variant = (len(src) % 4) if mode == "format_exceptions" else 0
    try:
        if variant & 2:
            from mako.lookup import TemplateLookup

            lk = TemplateLookup(imports=tenv.IMPORTS, **kw)
            lk.put_string("/c13base_%s" % uri.strip("/"), "BASE[${next.body()}]END")
            lk.put_string(uri, '<%%inherit file="/c13base_%s"/>\n' % uri.strip("/") + src)
            t = lk.get_template(uri)
        else:
            t = Template(src, uri=uri, imports=tenv.IMPORTS, **kw)
    except Exception as e:
        return ("compile-exc", type(e).__name__, str(e)[:200])
    if mode in ("render", "error_handler", "format_exceptions", "handler_declines_baseexc", "handler_declines", "error_handler_baseexc"):
        try:
            out = t.render(**ctx) if variant & 1 else t.render_unicode(**ctx)
            if isinstance(out, bytes):
                out = out.decode("utf-8")
            if variant & 2:
                return ("ok", out, handled, pre, "inherit")
            return ("ok", out, handled, pre)
        except BaseException as e:
            if isinstance(e, trun._Timeout):
                raise
            return ("exc", e, pre)
    if mode == "second":
        r = []
        for _ in range(2):
            c2 = tenv.make_ctx()
            try:
                r.append(("ok", t.render_unicode(**c2)))
            except Exception as e:
                r.append(("exc", type(e).__name__))
        return ("second", r)
    if mode in ("context", "context_baseexc"):
        buf = FastEncodingBuffer()
        c = Context(buf, **ctx)
        exc = None
        try:
            t.render_context(c)
        except BaseException as e:
            if isinstance(e, trun._Timeout) or (mode == "context" and not isinstance(e, Exception)):
                raise
            exc = e
        depth = len(c._buffer_stack)
        cdepth = len(c.caller_stack)
        nextc = c.caller_stack.nextcaller
        try:
            c.write("tail")
            value = buf.getvalue()
        except Exception as e:
            value = "CONTEXT-WRITE-FAILED: %r" % (e,)  # e.g. the buffer stack was popped too far
        return ("context", exc, value, depth, cdepth, nextc, pre)
    raise AssertionError(mode)


_uri = itertools.count()


def check_case(case, ev=None, want_caught=False):
    """case: {"prog":base, "rpath":..,"ridx":..,"kind":..,"hpath":..|None,"hidx":..,"mode":..}"""
    prog = plant(case["prog"], case["rpath"], case["ridx"], case["kind"], case.get("hpath"), case.get("hidx"))
    mode = case["mode"]
    src, _ = tgen.emit(prog)
    ref = ref_run(prog)
    if ref[0] == "reject":
        return None
    uri = "/c13_%d.html" % next(_uri)
    try:
        with trun.cpu_guard():
            got = mako_run(src, mode, uri, strict=(case["kind"] == "undef"))
    except trun._Timeout:
        raise Failure(case, "mako did not finish within %.0f s CPU (reference terminates)\n--- source ---\n%s" % (trun.MAKO_CPU_LIMIT_S, src),
                      "mako-does-not-terminate")
    if got[0] == "compile-exc":
        raise Failure(case, "planted program does not compile: %s\n--- source ---\n%s" % (got[1:], src), "compile:" + got[1])
    tag = "\n--- source ---\n" + src
    if mode == "render":
        if ref[0] == "ok":
            if got[0] != "ok":
                raise Failure(case, "reference renders %r (handler catches) but mako raised %r%s" % (ref[1], got[1], tag), "handled:raised:" + type(got[1]).__name__)
            if got[1] != ref[1]:
                raise Failure(case, "after the handled exception mako rendered %r, reference %r%s" % (got[1], ref[1], tag), "handled:output-differs")
        else:
            if got[0] == "ok":
                raise Failure(case, "reference raises %s but mako rendered %r%s" % (ref[1], got[1], tag), "unhandled:swallowed")
            if type(got[1]).__name__ != ref[1] and not (ref[1] == "NameError" and isinstance(got[1], NameError)):
                raise Failure(case, "reference raises %s, mako raises %r%s" % (ref[1], got[1], tag), "unhandled:other-exception:" + type(got[1]).__name__)
            if ref[1] == "Boom" and case["kind"] not in ("py", "undef") and got[1] is not got[2]:
                raise Failure(case, "the exception that propagated is not the original object: %r%s" % (got[1], tag), "unhandled:not-same-object")
            if ref[1] == "Boom" and case["kind"] not in ("py", "undef") and not isinstance(got[1].__cause__, KeyError):
                raise Failure(case, "the exception object propagated but lost its chain: __cause__ %r%s" % (got[1].__cause__, tag), "unhandled:object-changed")
    elif mode == "error_handler":
        if got[0] != "ok":
            raise Failure(case, "error_handler returned True but render raised %r%s" % (got[1], tag), "error_handler:raised")
        exp = ref[1] if ref[0] == "ok" else ref[2]
        if got[1] != exp:
            raise Failure(case, "with error_handler->True mako returned %r, expected the direct output so far %r%s" % (got[1], exp, tag), "error_handler:output-differs")
        if ref[0] == "exc" and (len(got[2]) != 1 or (ref[1] == "Boom" and case["kind"] not in ("py", "undef") and got[2][0] is not got[3])):
            raise Failure(case, "error_handler calls: %r%s" % (got[2], tag), "error_handler:calls")
    elif mode == "handler_declines":
        if ref[0] == "exc":
            if got[0] != "exc":
                raise Failure(case, "error_handler returned a false value but the render returned %r%s" % (got[1], tag), "handler-declines:swallowed")
            if ref[1] == "Boom" and case["kind"] not in ("py", "undef") and got[1] is not got[2]:
                raise Failure(case, "error_handler declined but %r propagated instead of the original object%s" % (got[1], tag), "handler-declines:not-same-object")
            if ref[1] == "Boom" and case["kind"] not in ("py", "undef") and (not isinstance(got[1].__cause__, KeyError) or got[1].args != ("prebuilt",)):
                raise Failure(case, "error_handler declined and the exception object propagated, but changed: __cause__ %r (was KeyError('the real reason')), "
                              "args %r%s" % (got[1].__cause__, got[1].args, tag), "handler-declines:object-changed")
        elif got[:2] != ("ok", ref[1]):
            raise Failure(case, "mako rendered %r, reference %r%s" % (got[:2], ref[1], tag), "handled:output-differs")
    elif mode == "handler_declines_baseexc":
        # the reference raises Boom at that point; mako is given a pre-built SystemExit / KeyboardInterrupt instead, which no
        # `% except (Boom, NameError)` catches: it must propagate as the very same object when the error_handler declines
        if got[0] != "exc":
            raise Failure(case, "a SystemExit/KeyboardInterrupt raised in the template was swallowed: %r%s" % (got[:2], tag), "baseexc:swallowed")
        if got[1] is not got[2]:
            raise Failure(case, "error_handler returned False but %r propagated instead of the original %r%s" % (got[1], got[2], tag), "baseexc:not-same-object")
    elif mode == "error_handler_baseexc":
        # an error_handler that accepts whatever it is given, a KeyboardInterrupt / SystemExit included: the render returns the
        # direct output so far, as for any other exception
        if got[0] != "ok":
            raise Failure(case, "error_handler returned True but render raised %r%s" % (got[1], tag), "error_handler:raised")
        if got[1] != ref[2]:
            raise Failure(case, "with error_handler->True for a %s mako returned %r, expected the direct output so far %r%s"
                          % (type(got[3]).__name__, got[1], ref[2], tag), "error_handler:output-differs")
        # (for an exception that is not an Exception the handler is given its class: what it receives is not part of the statement)
        if len(got[2]) != 1 or (got[2][0] is not got[3] and got[2][0] is not type(got[3])):
            raise Failure(case, "error_handler calls: %r%s" % (got[2], tag), "error_handler:calls")
    elif mode == "format_exceptions":
        if got[0] != "ok":
            raise Failure(case, "format_exceptions set but render raised %r%s" % (got[1], tag), "format_exceptions:raised")
        if ref[0] == "exc":
            if ref[1] not in got[1]:
                raise Failure(case, "error page does not name %s: %r%s" % (ref[1], got[1][:200], tag), "format_exceptions:no-type")
        elif got[1] != (("BASE[\n" + ref[1] + "]END") if got[-1] == "inherit" else ref[1]):
            raise Failure(case, "mako rendered %r, reference %r%s" % (got[1], ref[1], tag), "handled:output-differs")
    elif mode == "second":
        r = got[1]
        exp = ("ok", ref[1]) if ref[0] == "ok" else ("exc", ref[1])
        for k, one in enumerate(r):
            if one != exp:
                raise Failure(case, "render #%d of the same Template gave %r, expected %r%s" % (k + 1, one, exp, tag), "second-render-differs")
    elif mode in ("context", "context_baseexc"):
        _, exc, value, depth, cdepth, nextc, pre = got
        if mode == "context_baseexc" and exc is not pre:
            raise Failure(case, "a %s raised in the template did not propagate out of render_context as the same object: %r%s"
                          % (type(pre).__name__, exc, tag), "baseexc:not-same-object")
        if ref[0] == "ok":
            if exc is not None:
                raise Failure(case, "reference renders but render_context raised %r%s" % (exc, tag), "handled:raised:" + type(exc).__name__)
            exp = ref[1] + "tail"
        else:
            if exc is None:
                raise Failure(case, "reference raises %s but render_context returned%s" % (ref[1], tag), "unhandled:swallowed")
            exp = ref[2] + "tail"
        if value != exp:
            raise Failure(case, "after render_context, write('tail') gives buffer %r, expected %r%s" % (value, exp, tag), "context:tail-misplaced")
        if depth != 1:
            raise Failure(case, "buffer stack depth %d after render_context%s" % (depth, tag), "context:buffer-stack-depth")
        if cdepth != 0:
            raise Failure(case, "caller stack depth %d after render_context%s" % (cdepth, tag), "context:caller-stack-depth")
    return ref


def subject_cases(prog):
    """enumerate fault cases for one subject; returns list of case dicts (mode assigned round-robin)"""
    ls = lists_of(prog)
    raise_points = []
    for path, lst, anc in ls:
        for i in range(len(lst) + 1):
            raise_points.append((path, i, anc))
    wraps = []
    for path, lst, anc in ls:
        for i, n in enumerate(lst):
            if n["t"] in WRAPPABLE:
                wraps.append((path, i, anc))
    handled = []
    unhandled = []
    # bound the (raise point x handler) product explored by the reference: fixed strides, no randomness
    RP, WR = (20, 12) if QUICK[0] else (40, 24)
    if len(raise_points) > RP:
        st_ = len(raise_points) / float(RP)
        raise_points = [raise_points[int(i * st_)] for i in range(RP)]
    if len(wraps) > WR:
        st_ = len(wraps) / float(WR)
        wraps = [wraps[int(i * st_)] for i in range(WR)]
    for ri, (rpath, ridx, ranc) in enumerate(raise_points):
        kind = RAISE_KINDS[ri % len(RAISE_KINDS)]
        if ridx == 0 and len(rpath) >= 2 and rpath[-1] == "body" and ri % 2 == 0:
            holder = get(prog, rpath[:-1])
            if isinstance(holder, dict) and holder.get("t") == "def":  # (names read in an anonymous block are fetched on entry of the ENCLOSING callable)
                kind = "undef"
        base = plant(prog, rpath, ridx, kind)
        r0 = ref_run(base)
        if r0[0] != "exc" or r0[1] not in ("Boom", "NameError", "RuntimeException"):
            continue  # raise point not executed (dead branch / uncalled def)
        unhandled.append((rpath, ridx, kind, ranc))
        catching = []
        for (hpath, hidx, hanc) in wraps:
            p2 = plant(prog, rpath, ridx, kind, hpath, hidx)
            r = ref_run(p2)
            if r[0] == "ok" and H_MARK in r[1]:
                catching.append((hpath, hidx, hanc))
        for k, (hpath, hidx, hanc) in enumerate(catching):
            innermost = k == len(catching) - 1
            handled.append({"prog": prog, "rpath": rpath, "ridx": ridx, "kind": kind, "hpath": hpath, "hidx": hidx,
                            "nt": _nontrivial(ranc, rpath, hpath) and not (innermost and len(catching) > 1)})
    return handled, unhandled


NEST = {"def:flag", "ccall", "for", "block", "block:flag", "with", "while", "def"}


def _nontrivial(ranc, rpath, hpath):
    depth = sum(1 for a in ranc if a in NEST)
    lexical = list(hpath) == list(rpath)[:len(hpath)]
    return depth >= 2 or not lexical


def run_subject(prog, ev, fails, quick):
    base = ref_run(prog)
    if base[0] != "ok":
        ev.rejected += 1
        return
    handled, unhandled = subject_cases(prog)
    K = 24 if quick else 60
    if len(handled) > K:
        step = len(handled) / float(K)
        handled = [handled[int(i * step)] for i in range(K)]
    U = 4 if quick else 10
    if len(unhandled) > U:
        step = len(unhandled) / float(U)
        unhandled = [unhandled[int(i * step)] for i in range(U)]
    cases = []
    hmodes = ["render", "render", "context", "second", "render", "error_handler"]
    for i, h in enumerate(handled):
        nt = h.pop("nt")
        cases.append((dict(h, mode=hmodes[i % len(hmodes)]), nt))
    for (rpath, ridx, kind, ranc) in unhandled:
        for mode in ("render", "context", "error_handler", "format_exceptions", "second", "handler_declines") + (("handler_declines_baseexc", "error_handler_baseexc", "context_baseexc") if kind in ("expr", "arg") else ()):
            cases.append(({"prog": prog, "rpath": rpath, "ridx": ridx, "kind": kind, "hpath": None, "hidx": None, "mode": mode},
                          sum(1 for a in ranc if a in NEST) >= 2))
    for case, nt in cases:
        try:
            check_case(case)
        except Failure as f:
            if f.key not in fails:
                fails[f.key] = f
        ev.case(key=[case["rpath"], case["ridx"], case["kind"], case["hpath"], case["hidx"], case["mode"], core.fp(case["prog"])],
                nontrivial=nt, labels=("mode:" + case["mode"], "handled" if case["hpath"] is not None else "unhandled", "kind:" + case["kind"]))
    if cases and len(ev.samples) < 3:
        c = cases[len(cases) // 2][0]
        src, _ = tgen.emit(plant(c["prog"], c["rpath"], c["ridx"], c["kind"], c.get("hpath"), c.get("hidx")))
        if len(src) < 900:
            ev.sample({"source": src, "mode": c["mode"], "raise_at": [c["rpath"], c["ridx"]], "handler_at": [c["hpath"], c["hidx"]]}, "s%d" % len(ev.samples))
    ev.label("subjects")


def shard(task):
    seed, n, quick = task
    QUICK[0] = quick
    core.setup_repo()
    ev = core.Evidence()
    fails = {}

    def check(prog):
        run_subject(prog, ev, fails, quick)

    core.hyp_search(strategy(), check, ev, seed, n, shrink=False)
    out = []
    for f in fails.values():
        out.append(_minimise(f))
    return ev, out


def _minimise(f):
    case = f.case
    key = f.key

    def still(prog):
        # the planted paths must stay valid: only accept candidates where paths still resolve
        try:
            c = dict(case, prog=prog)
            check_case(c)
        except Failure as g:
            return g.key == key
        except Exception:
            return False
        return False

    # shrink only nodes that are not on the raise / handler paths: simplest is to try deleting trailing siblings
    try:
        small = trun.shrink_prog(case["prog"], still, budget_s=15.0, max_evals=150)
        check_case(dict(case, prog=small))
    except Failure as g:
        return g
    except Exception:
        return f
    return f


# ---- a def rendered on its own (get_def) under the template's error handling options --------------------------------------
GETDEF_SRC = ('<%def name="foo(x)">before ${x} ${boom()} after</%def>'
              '<%def name="outer()">outer-start <%def name="inner()" buffered="True">partial ${boom()}</%def>${inner()} end</%def>'
              '<%def name="fine(x)">fine ${x}</%def>body')


def check_getdef_handlers(ev, fails):
    """get_def(name).render*() honours error_handler / format_exceptions like a render of the whole template: the handler is
    consulted once with the exception; accepted -> the direct output so far followed by what the handler wrote; declined ->
    the same exception object propagates.  Expectations by construction."""
    from mako.lookup import TemplateLookup
    from mako.template import Template

    k = 0
    for via in ("Template", "lookup"):
        for accept in (True, False):
            for dname, dkw, so_far in (("foo", {"x": 2}, "before 2 "), ("outer", {}, "outer-start "), ("fine", {"x": 3}, None)):
                for how in ("render_unicode", "render"):
                    k += 1
                    seen = []
                    pre = tenv.Boom("prebuilt")

                    def handler(context, error):
                        seen.append(error)
                        if accept:
                            context.write("[handled %s]" % type(error).__name__)
                        return accept

                    def boom():
                        raise pre

                    if via == "Template":
                        t = Template(GETDEF_SRC, uri="/c13gd_%d.html" % k, error_handler=handler)
                    else:
                        lk = TemplateLookup(error_handler=handler)
                        lk.put_string("/c13gd_%d.html" % k, GETDEF_SRC)
                        t = lk.get_template("/c13gd_%d.html" % k)
                    case = {"part": "getdef-handler", "via": via, "accept": accept, "def": dname, "how": how}
                    try:
                        got = ("ok", getattr(t.get_def(dname), how)(boom=boom, **dkw))
                    except BaseException as e:  # noqa: BLE001
                        got = ("exc", e)
                    if so_far is None:
                        want_ok, want_calls = "fine 3", 0
                    else:
                        want_ok, want_calls = (so_far + "[handled Boom]") if accept else None, 1
                    problem = None
                    if want_ok is not None:
                        if got != ("ok", want_ok):
                            problem = "expected %r, got %r" % (want_ok, got)
                    elif got[0] != "exc" or got[1] is not pre:
                        problem = "the handler declined: expected the original exception object to propagate, got %r" % (got,)
                    if problem is None and (len(seen) != want_calls or (seen and seen[0] is not pre)):
                        problem = "error_handler consulted %d time(s) with %r, expected %d with the exception raised" % (len(seen), seen, want_calls)
                    if problem:
                        f = Failure(case, "%s(error_handler=..).get_def(%r).%s(): %s\n--- source ---\n%s" % (via, dname, how, problem, GETDEF_SRC),
                                    "getdef:error_handler")
                        fails.setdefault(f.key, f)
                    ev.case(key=["getdef-handler", via, accept, dname, how], nontrivial=so_far is not None, labels=("getdef-handler",))
    # format_exceptions: the def rendered on its own gives an error page naming the exception
    t = Template(GETDEF_SRC, uri="/c13gdf.html", format_exceptions=True)

    def boom2():
        raise tenv.Boom("page")
    try:
        page = t.get_def("foo").render_unicode(x=1, boom=boom2)
    except BaseException as e:  # noqa: BLE001
        page = "RAISED %r" % (e,)
    if "Boom" not in page or page.startswith("RAISED"):
        f = Failure({"part": "getdef-handler", "format_exceptions": True}, "format_exceptions=True, get_def('foo').render_unicode(): expected an error page "
                    "naming Boom, got %r" % page[:200], "getdef:format_exceptions")
        fails.setdefault(f.key, f)
    ev.case(key=["getdef-handler", "format_exceptions"], nontrivial=True, labels=("getdef-handler",))


def run(ctx):
    fails = {}
    core.setup_repo()
    check_getdef_handlers(ctx.ev, fails)
    for f in fails.values():
        ctx.fail(f)
    n = ctx.pick(16, 160)
    ctx.pmap(shard, [(ctx.shard_seed(i), n, ctx.quick) for i in range(16)])


def classify(f):
    return None


def replay(case):
    core.setup_repo()
    if case.get("part") == "getdef-handler":
        fails = {}
        check_getdef_handlers(core.Evidence(), fails)
        return next((f for f in fails.values() if f.case == case), None)
    try:
        check_case(case)
    except Failure as f:
        return f
    return None

"""C20 - message extraction finds every translatable string at its template line.

Templates are built physical line by physical line from a JSON plan (vf.gen.c20_build), so the line,
function name, message(s) and translator comments of every planted gettext call are known by
construction. Both extractors (mako.ext.babelplugin.extract and LinguaMakoExtractor) are compared with
that expectation in both directions.

Parts:  known  fixed corpus exercising every layout class behind a known finding (strict oracle)
        search hypothesis search over plans; failures whose key the corpus has already established
               (same layout class AND exactly the observation the finding predicts) are counted in
               excluded_known and the search continues behind them.
"""
import collections
import io
import os

from vf import core
from vf.core import Failure
from vf.gen import c20_build

PID = "C20"
LEVEL = "exploration"
RULE = (
    "templates built line by line from a plan: 1-7 (quick) / 1-9 (thorough) top-level items (nested <=2 levels in "
    "def/block/call/ns:def/control bodies) drawn from: ${expr} (single line with text around it / several per line / bracketed multi-line / "
    "`${` newline expr newline `}`), ${x | f(call)}, control lines if/elif/else/for/while/with/try-except with 0-2 "
    "backslash continuation lines, <% %> and <%! %> blocks (inline or multi-line, leading blank lines, margins 0-8, "
    "if/def/blank statements), <%def name=sig>, <%block args>, <%page args/>, <%call expr>, <%self:x a=\"${call}\">, "
    "with attributes broken over lines; calls _(), gettext(), ngettext() with unique ids, ASCII or non-ASCII in "
    "utf-8/cp1251/latin-1 declared by option input_encoding / option encoding / coding comment; LF or CRLF; decoys in "
    "text, <%text>, <%doc>, ## comments, plain ns:def attributes; translator comment runs (1-3 lines, configured or "
    "other tag) at distance 0-2 before any construct. Non-trivial = the template contains a call on a line other "
    "than the first line of a multi-line construct, or a call in a signature/filter/attribute position, or a "
    "translator comment at distance > 0; distinct by template text."
)
ASSUMPTIONS = [
    "the line of a call is the physical template line holding the call text; every generated call is written on one "
    "physical line (Babel's and Lingua's Python extractors define the line of a call spanning lines differently)",
    "Babel is driven as mako.ext.babelplugin.extract(fileobj, {'_': None, 'gettext': None, 'ngettext': (1, 2)}, tags, "
    "options); Lingua as LinguaMakoExtractor(config)(path, options) like test_linguaplugin.py (lingua itself passes a "
    "path); a bytes fileobj is used for Lingua only behind the lingua-file-encoding finding",
    "Lingua Message objects carry no function name: for Lingua the function is checked only through msgid_plural",
    "when a configured-tag comment run ends on the line before a construct, that construct is the only one on its line "
    "and only indentation precedes it (usage.rst and test_babelplugin disagree about text before the construct; "
    "test_babelplugin pins that only the first of two constructs on the line gets the comment)",
    "translator comments are ## lines only; <%doc> blocks and Python # comments are never placed where they could "
    "act as translator comments (the statement is silent about them)",
    "gettext calls in attributes the statement does not name (include args, def filter=, cache_key, call/ns:def args=) "
    "are not generated",
    "Lingua comments are compared after whitespace normalisation (the plugin joins lines with blanks)",
    "an extractor exception counts only if mako itself compiles the template (otherwise it is a harness error)",
    "backslash continuation is generated only on opening control keywords (if/for/while/with): mako's code generator "
    "emits invalid Python for a continued `% elif`/`% except` line, so such templates do not compile",
    "a failure is attributed to a catalogued finding (KEY2ID) only if the call has the finding's layout class AND the "
    "observation is exactly what the finding predicts; anything else gets a generic <extractor>:<class>:<kind> key",
]

KW = {"_": None, "gettext": None, "ngettext": (1, 2)}

KEY2ID = {
    "filter-call-missing": "C20-filter-args-not-extracted",
    "continuation-line-early": "C20-control-continuation-line",
    "ns-attr-line": "C20-nsdef-attr-line",
    "tag-attr-line": "C20-tag-attr-later-line",
    "lingua-line-early": "C20-lingua-lines-early",
    "lingua-block-leading-lines": "C20-lingua-block-leading-blank-lines",
    "lingua-except-missing": "C20-lingua-except-ignored",
    "babel-input-encoding": "C20-babel-input-encoding-crash",
    "lingua-file-encoding": "C20-lingua-file-encoding-ignored",
    "comment-split-block": "C20-comment-block-not-contiguous",
    "comment-stale-leak": "C20-stale-comment-leaks",
}


def classify(f):
    return KEY2ID.get(f.key)


# ---------------------------------------------------------------------------
# driving the extractors
# ---------------------------------------------------------------------------
class _LinguaOptions:
    keywords = []
    domain = None
    comment_tag = True


_state = {"lingua": False, "n": 0, "dir": None}


def _nonutf8(raw):
    return raw["enc"] != "utf-8" and not raw["src"].isascii()


def _bytes(raw):
    return raw["src"].encode(raw["enc"])


def _babel_obs(raw, extra=None):
    from mako.ext.babelplugin import extract

    opts = {}
    if raw["decl"] == "opt_input":
        opts["input_encoding"] = raw["enc"]
    elif raw["decl"] == "opt_enc":
        opts["encoding"] = raw["enc"]
    if extra:
        opts.update(extra)
    if raw.get("btext") and raw["decl"] in ("none", "coding"):
        fobj = io.StringIO(raw["src"], newline="")
    else:
        fobj = io.BytesIO(_bytes(raw))
    out = []
    for lineno, func, messages, comments in extract(fobj, dict(KW), list(raw["tags"]), opts):
        if not isinstance(messages, (tuple, list)):
            messages = (messages,)
        out.append({"line": lineno, "func": func, "msgs": [m for m in messages if m is not None],
                    "comments": list(comments)})
    return out


def _lingua_obs(raw, via):
    from mako.ext.linguaplugin import LinguaMakoExtractor

    if not _state["lingua"]:
        from lingua.extractors import register_extractors

        register_extractors()
        _state["lingua"] = True
    # (Lingua's option is one string: tags separated by white space - one blank, several, a tab, a trailing blank)
    tj = raw.get("tagjoin", " ")
    cfg = {"comment-tags": tj.join(raw["tags"]) + (" " if tj == "  " else "")}
    if raw["decl"] in ("opt_input", "opt_enc"):
        cfg["encoding"] = raw["enc"]
    plugin = LinguaMakoExtractor(cfg)
    if via == "path":
        if _state["dir"] is None or _state.get("pid") != os.getpid() or not os.path.isdir(_state["dir"]):
            # (a pool worker runs several shards one after the other; the temp roots of a shard are removed when it ends)
            _state["dir"] = core.tmp_root()
            _state["pid"] = os.getpid()
        _state["n"] += 1
        path = os.path.join(_state["dir"], "t%d.mako" % _state["n"])
        with open(path, "wb") as fh:
            fh.write(_bytes(raw))
        try:
            msgs = list(plugin(path, _LinguaOptions()))
        finally:
            os.unlink(path)
    else:
        msgs = list(plugin("t.mako", _LinguaOptions(), io.BytesIO(_bytes(raw))))
    out = []
    for m in msgs:
        ms = [m.msgid] + ([m.msgid_plural] if m.msgid_plural else [])
        out.append({"line": m.location[1], "func": None, "msgs": ms, "comments": m.comment or ""})
    return out


def _compiles(raw):
    """Is this a template mako itself accepts? (lex + code generation + Python compile, nothing executed)"""
    from mako import codegen
    from mako import lexer

    kw = {}
    if raw["decl"] in ("opt_input", "opt_enc"):
        kw["input_encoding"] = raw["enc"]
    node = lexer.Lexer(_bytes(raw), **kw).parse()
    src = codegen.compile(node, "memory:c20", default_filters=["str"], buffer_filters=(), imports=None,
                          future_imports=None, source_encoding=None, generate_magic_comment=False,
                          strict_undefined=False, enable_loop=True, reserved_names=frozenset())
    compile(src, "c20", "exec")


# ---------------------------------------------------------------------------
# oracle
# ---------------------------------------------------------------------------
def _line_keys(e, ext, got):
    exp = e["line"]
    shapes = e["shapes"]
    b, shape_key = exp, None
    if "ns_later" in shapes:
        b, shape_key = e["first"], "ns-attr-line"
    elif "attr_later" in shapes:
        b, shape_key = exp - e["off"], "tag-attr-line"
    if shape_key and got == b:
        return [shape_key]
    if ext == "babel":
        if "cont" in shapes and got == exp - 1:
            return ["continuation-line-early"]
        return ["babel:wrong-line:" + e["kind"]]
    lead = e["lead"]
    if got == exp - 1 - lead:
        return ["lingua-line-early"]
    if shape_key and got == b - 1 - lead:
        return [shape_key, "lingua-line-early"]
    if lead and got == exp - lead:
        return ["lingua-block-leading-lines"]
    if "cont" in shapes and got == exp - 2:
        return ["continuation-line-early", "lingua-line-early"]
    return ["lingua:wrong-line:" + e["kind"]]


def compare(raw, ext, obs):
    """-> [(key, detail)] : every way the observed extraction differs from the layout map."""
    fails = []
    by = collections.OrderedDict()
    for o in obs:
        by.setdefault(o["msgs"][0] if o["msgs"] else None, []).append(o)
    firsts = set()
    for e in raw["calls"]:
        m0 = e["msgs"][0]
        firsts.add(m0)
        where = "%s call %s(%r) written on line %d (%s)" % (ext, e["func"], e["msgs"], e["line"], e["kind"])
        got = by.get(m0, [])
        if not got:
            if "filter" in e["shapes"]:
                key = "filter-call-missing"
            elif ext == "lingua" and "except" in e["shapes"]:
                key = "lingua-except-missing"
            else:
                key = "%s:missing:%s" % (ext, e["kind"])
            fails.append((key, where + " was not extracted"))
            continue
        if len(got) > 1:
            fails.append(("%s:duplicated:%s" % (ext, e["kind"]),
                          where + " extracted %d times at lines %s" % (len(got), [o["line"] for o in got])))
        o = got[0]
        if list(o["msgs"]) != list(e["msgs"]):
            fails.append(("%s:wrong-message:%s" % (ext, e["func"]), where + " reported with messages %r" % (o["msgs"],)))
        if ext == "babel" and o["func"] != e["func"]:
            fails.append(("babel:wrong-func:%s" % e["kind"], where + " reported with function name %r" % (o["func"],)))
        if o["line"] != e["line"]:
            for k in _line_keys(e, ext, o["line"]):
                fails.append((k, where + " reported at line %r" % (o["line"],)))
        if ext == "babel":
            eq = lambda lines: list(o["comments"]) == list(lines)
        else:
            norm = " ".join(o["comments"].split())
            eq = lambda lines: norm == " ".join(" ".join(lines).split())
        # (Lingua's Python extractor has comment handling of its own for Python comments written in the code it is given;
        # a comment inside the construct is not a ## translator comment, what Lingua does with it is not judged)
        own = ext == "lingua" and e.get("pycomment") and eq(list(e["comments"]) + [e["pycomment"]])
        if not eq(e["comments"]) and not own:
            runs = (e.get("stale") or {}).get(ext) or []
            # pending runs of earlier message-less constructs; any non-empty tail of that chain (whole runs) counts as
            # the stale-comment layout, so that the label does not depend on which other findings are fixed
            tails = [[l for r in runs[k:] for l in r] for k in range(len(runs))]
            split_obs = e.get("split_obs")
            if split_obs is not None and eq(split_obs):
                keys = ["comment-split-block"]
            elif split_obs is not None and any(eq(t + list(split_obs)) for t in tails):
                keys = ["comment-split-block", "comment-stale-leak"]
            elif any(eq(t + list(e["comments"])) for t in tails):
                keys = ["comment-stale-leak"]
            elif not e["comments"]:
                keys = ["%s:wrong-comment:unexpected%s" % (ext, ":far" if e.get("tc_far") else "")]
            elif not o["comments"]:
                keys = ["%s:wrong-comment:lost" % ext]
            else:
                keys = ["%s:wrong-comment:differs" % ext]
            for key in keys:
                fails.append((key, where + " expected translator comments %r, got %r" % (e["comments"], o["comments"])))
    for m0, got in by.items():
        if m0 in firsts:
            continue
        o = got[0]
        if m0 in raw["decoys"]:
            fails.append(("%s:decoy-extracted:%s" % (ext, raw["decoys"][m0]),
                          "%s extracted %r (line %r) which is written inside %s, not in a Python-bearing construct"
                          % (ext, o["msgs"], o["line"], raw["decoys"][m0])))
        else:
            fails.append(("%s:spurious" % ext, "%s extracted %r (line %r) which no planted call contains"
                          % (ext, o["msgs"], o["line"])))
    return fails


def _crash(raw, ext, e):
    try:
        _compiles(raw)
    except Exception as e2:
        raise core.HarnessError("generated template is not accepted by mako itself (%s: %s); extractor said %r\n%s"
                                % (type(e2).__name__, e2, e, raw["src"]))
    return ("%s:crash:%s" % (ext, type(e).__name__),
            "%s extractor raised %s: %s" % (ext, type(e).__name__, str(e)[:200]))


def evaluate(raw):
    """Strict oracle: -> [(key, detail)] over both extractors."""
    fails = []
    # Babel
    try:
        fails += compare(raw, "babel", _babel_obs(raw))
    except Exception as e:
        if isinstance(e, (UnicodeError, LookupError)) and raw["decl"] == "opt_input" and _nonutf8(raw):
            fails.append(("babel-input-encoding",
                          "babel extract(..., options={'input_encoding': %r}) raised %s: %s"
                          % (raw["enc"], type(e).__name__, str(e)[:160])))
            try:  # look behind it: same template, encoding also passed as 'encoding'
                fails += compare(raw, "babel", _babel_obs(raw, {"encoding": raw["enc"]}))
            except Exception as e2:
                fails.append(_crash(raw, "babel", e2))
        else:
            fails.append(_crash(raw, "babel", e))
    # Lingua
    try:
        fails += compare(raw, "lingua", _lingua_obs(raw, "path"))
    except (Exception, SystemExit) as e:
        if isinstance(e, UnicodeError) and _nonutf8(raw):
            fails.append(("lingua-file-encoding",
                          "LinguaMakoExtractor(%s)(path, options) on a %s file raised %s: %s"
                          % ("{'encoding': %r}" % raw["enc"] if raw["decl"] != "coding" else "coding comment",
                             raw["enc"], type(e).__name__, str(e)[:160])))
            try:  # look behind it: hand the bytes over as fileobj
                fails += compare(raw, "lingua", _lingua_obs(raw, "fileobj"))
            except (Exception, SystemExit) as e2:
                fails.append(_crash(raw, "lingua", e2))
        else:
            fails.append(_crash(raw, "lingua", e))
    return fails


def _case(raw, key):
    c = dict(raw)
    c["key"] = key
    return c


def _fmt(raw, detail):
    return "%s | template %r (enc=%s decl=%s tags=%s)" % (detail, raw["src"][:1500], raw["enc"], raw["decl"], raw["tags"])


# ---------------------------------------------------------------------------
# known-finding corpus
# ---------------------------------------------------------------------------
def _P(items, nl="\n", enc="utf-8", decl="none", tags=("TRANSLATORS:",), **kw):
    d = {"nl": nl, "enc": enc, "decl": decl, "tags": list(tags), "items": items}
    d.update(kw)
    return d


def _c(f="_", **kw):
    d = {"f": f}
    d.update(kw)
    return d


def corpus():
    T = {"k": "text", "w": 0}
    tc0 = {"tag": 0, "n": 1, "dist": 0}
    out = [
        ("lingua-lines", _P([T, {"k": "expr", "calls": [_c()]}])),
        ("lingua-lines", _P([{"k": "code", "stmts": [{"calls": [_c()]}, {"calls": [_c("gettext")]}], "margin": 2}])),
        ("lingua-lines", _P([{"k": "expr", "calls": [_c()], "multi": 2, "lead_blank": 1}])),
        ("lingua-lines-blanks", _P([{"k": "expr", "calls": [_c()], "multi": 2, "lead_blank": 1, "wsb": 1},
                                    {"k": "code", "stmts": [{"t": "assign", "calls": [_c()]}], "lead_blank": 1, "wsb": 3}])),
        ("filter", _P([T, {"k": "filt", "calls": [_c()]}])),
        ("filter", _P([T, {"k": "filt", "calls": [_c(), _c("gettext"), _c("ngettext")], "ml": True, "pf": 2}, T])),
        ("filter", _P([T, {"k": "filt", "calls": [_c(), _c("gettext")], "nlpipe": 2, "pf": 1, "head": [_c()]}, T])),
        ("filter", _P([{"k": "filt", "calls": [_c("gettext", q='"')], "head": [_c()], "pf": 1}], nl="\r\n")),
        ("filter", _P([{"k": "def", "args": [{}], "body": [{"k": "filt", "calls": [_c("ngettext")], "tc": tc0}]}])),
        ("cont", _P([T, T, {"k": "ctl", "kw": "for", "head": {"pieces": [{"brk": 1}, {"c": _c()}]}, "body": [T]}])),
        ("cont", _P([{"k": "ctl", "kw": "if", "head": {"pieces": [{"brk": 1}, {"brk": 1}, {"c": _c("gettext")}]},
                      "body": [T]}], nl="\r\n")),
        ("cont", _P([{"k": "ctl", "kw": "while", "head": {"pieces": [{"c": _c(), "brk": 1}, {"c": _c("ngettext")}],
                                                           "sp": 0}, "body": [T], "ind": 1}])),
        ("ns_later", _P([T, {"k": "ns", "attrs": [{"c": _c()}, {"c": _c("gettext"), "brk": 1}], "body": [T]}])),
        ("ns_later", _P([{"k": "ns", "attrs": [{"t": "lit"}, {"c": _c(), "brk": 1, "mixed": 1}], "selfclose": 1}])),
        ("attr_later", _P([T, {"k": "def", "args": [{"c": _c()}], "later": 1, "body": [T]}])),
        ("attr_later", _P([{"k": "page", "args": [{}, {"c": _c()}, {"c": _c("gettext")}], "brks": [1], "later": 1}])),
        ("attr_later", _P([{"k": "block", "args": [{"c": _c()}], "later": 1, "body": [T]}])),
        ("attr_later", _P([{"k": "call", "pieces": [{"c": _c()}], "later": 1, "body": [T]}])),
        ("except", _P([T, {"k": "ctl", "kw": "try", "body": [T], "exc": {"pieces": [{"c": _c()}]}, "body2": [T]}])),
        ("split", _P([{"k": "expr", "calls": [_c()], "tc": {"tag": 0, "n": 1, "dist": 1, "gap": "text", "split": 1}}])),
        ("split", _P([{"k": "expr", "calls": [_c()], "tc": {"tag": 0, "n": 2, "dist": 1, "gap": "blank", "split": 1,
                                                             "n2": 2}}])),
        ("stale", _P([{"k": "expr", "calls": [], "tc": tc0}, {"k": "expr", "calls": [_c()], "tc": tc0}])),
        ("stale", _P([{"k": "ctl", "kw": "if", "head": {"pieces": [{}], "tc": tc0}, "body": [T, {
            "k": "code", "inline": 1, "stmts": [{"calls": [_c("gettext")]}], "tc": {"tag": 0, "n": 2, "dist": 0}}]}])),
        ("babel-input-encoding", _P([T, {"k": "expr", "calls": [_c(na=True)]}], enc="cp1251", decl="opt_input")),
        ("babel-input-encoding", _P([{"k": "code", "stmts": [{"calls": [_c(na=True)]}]}], enc="latin-1",
                                    decl="opt_input")),
        ("lingua-file-encoding", _P([T, {"k": "expr", "calls": [_c(na=True)]}], enc="cp1251", decl="opt_enc")),
        ("lingua-file-encoding", _P([{"k": "expr", "calls": [_c("gettext", na=True)]}], enc="latin-1", decl="coding")),
    ]
    return out


def run_corpus(ev):
    """-> (active keys, failures). Strict evaluation of the fixed corpus."""
    active = set()
    fails = {}
    for name, plan in corpus():
        raw, labels = c20_build.build(plan)
        res = evaluate(raw)
        ev.case(key=("corpus", raw["src"]), nontrivial=True, labels=["corpus:" + name])
        for key, detail in res:
            if key in KEY2ID:
                active.add(key)
                ev.excluded_known[KEY2ID[key]] += 1
            if key not in fails:
                fails[key] = Failure(_case(raw, key), _fmt(raw, detail), key)
    return active, list(fails.values())


# ---------------------------------------------------------------------------
# search
# ---------------------------------------------------------------------------
def plan_strategy(max_items, max_depth):
    from hypothesis import strategies as st

    b = st.booleans()
    callspec = st.fixed_dictionaries({
        "f": st.sampled_from(["_", "_", "gettext", "ngettext"]),
        "q": st.sampled_from(["'", '"']),
        "na": st.sampled_from([False, False, True]),
        "form": st.integers(0, 3),
        "pad": b,
    })
    calls1 = st.lists(callspec, min_size=1, max_size=3)
    calls0 = st.lists(callspec, min_size=0, max_size=2)
    tc = st.one_of(
        st.none(), st.none(), st.none(),
        st.fixed_dictionaries({
            "tag": st.sampled_from([0, 0, 0, 1, -1]), "n": st.integers(1, 3), "dist": st.sampled_from([0, 0, 0, 1, 2]),
            "gap": st.sampled_from(["blank", "text"]), "sp": st.integers(0, 2), "trail": st.integers(0, 1), "na": b,
            "split": st.sampled_from([False] * 7 + [True]), "n2": st.integers(1, 2),
        }))
    text = st.fixed_dictionaries({"k": st.just("text"), "w": st.integers(0, 20), "decoy": b, "blank": st.sampled_from(
        [False, False, False, True]), "q": st.sampled_from(["'", '"']), "f": st.sampled_from(["_", "gettext"]), "na": b})
    cdecoy = st.fixed_dictionaries({"k": st.just("cdecoy"), "w": b, "guard": b, "q": st.sampled_from(["'", '"'])})
    doc = st.fixed_dictionaries({"k": st.just("doc"), "more": b})
    texttag = st.fixed_dictionaries({"k": st.just("texttag"), "more": b})
    expr = st.fixed_dictionaries({
        "k": st.just("expr"), "calls": st.lists(callspec, min_size=0, max_size=3), "tc": tc, "multi": st.sampled_from([0, 0, 0, 1, 1, 2]), "pre": b, "post": b,
        "w": st.integers(0, 5), "flt": st.integers(0, 2), "more": st.lists(calls0, max_size=2), "call_first": b,
        "lead_blank": st.integers(0, 2), "wsb": st.sampled_from([0, 0, 1, 2, 3])})
    filt = st.fixed_dictionaries({"k": st.just("filt"), "calls": calls1, "head": calls0, "pf": st.integers(0, 2), "tc": tc,
                                  "ml": st.booleans(), "nlpipe": st.sampled_from([0, 0, 1, 2]), "fcmt": st.sampled_from([0, 0, 0, 1, 2])})
    piece = st.fixed_dictionaries({"c": st.one_of(st.none(), callspec, callspec), "brk": st.sampled_from(
        [False, False, True]), "wrap": b})
    pieces = st.lists(piece, min_size=1, max_size=4)
    stmt = st.fixed_dictionaries({"t": st.sampled_from(["assign", "assign", "if", "def", "callstmt", "blank"]),
                                  "calls": calls0, "q": st.sampled_from(["'", '"']), "else": b})
    arg = st.fixed_dictionaries({"c": st.one_of(st.none(), callspec, callspec), "dflt": b})
    args = st.lists(arg, min_size=0, max_size=4)
    brks = st.lists(st.integers(0, 1), min_size=1, max_size=3)
    q = st.sampled_from(['"', '"', "'"])

    def items(depth):
        leaf = [text, text, cdecoy, doc, texttag, expr, expr, expr, filt]
        code = st.fixed_dictionaries({
            "k": st.just("code"), "module": b, "inline": st.sampled_from([False, False, True]), "tc": tc,
            "stmts": st.lists(stmt, min_size=1, max_size=5), "lead_blank": st.integers(0, 2), "wsb": st.sampled_from([0, 0, 1, 2, 3]),
            "margin": st.sampled_from([0, 2, 4, 8]), "pre": b, "post": b})
        leaf += [code, code]
        if depth >= max_depth:
            body = st.lists(st.one_of(text, expr), max_size=2)
        else:
            body = st.deferred(lambda: st.lists(items(depth + 1), max_size=3))
        head = st.fixed_dictionaries({"pieces": pieces, "tc": tc, "sp": st.integers(0, 2)})
        elif_ = st.fixed_dictionaries({"pieces": pieces, "tc": tc, "sp": st.integers(0, 2), "body": body})
        ctl = st.fixed_dictionaries({
            "k": st.just("ctl"), "kw": st.sampled_from(["if", "if", "for", "while", "with", "try"]), "head": head,
            "exc": head, "body": body, "body2": body, "elifs": st.lists(elif_, max_size=2), "else": b, "ind": b})
        tagcommon = {"tc": tc, "q": q, "later": st.sampled_from([False, False, True]), "pre": b, "ind": b,
                     "brks": brks, "body": body}
        deft = st.fixed_dictionaries(dict(tagcommon, k=st.just("def"), args=args, extra=b, extra2=b, brk2=b))
        block = st.fixed_dictionaries(dict(tagcommon, k=st.just("block"), args=args, named=b))
        page = st.fixed_dictionaries(dict(tagcommon, k=st.just("page"), args=args, extra=b))
        callt = st.fixed_dictionaries(dict(tagcommon, k=st.just("call"), pieces=pieces, args=b, brk2=b))
        nsattr = st.fixed_dictionaries({"t": st.sampled_from(["call", "call", "lit", "decoy"]), "c": callspec, "brk": b,
                                        "mixed": b})
        ns = st.fixed_dictionaries(dict(tagcommon, k=st.just("ns"), attrs=st.lists(nsattr, min_size=1, max_size=4),
                                        args=b, brk2=b, selfclose=b))
        allk = leaf + [ctl, ctl, deft, block, callt, ns]
        if depth == 0:
            allk.append(page)
        return st.one_of(*allk)

    encdecl = st.sampled_from([
        ("utf-8", "none"), ("utf-8", "none"), ("utf-8", "opt_input"), ("utf-8", "opt_enc"), ("utf-8", "coding"),
        ("cp1251", "opt_input"), ("cp1251", "opt_enc"), ("cp1251", "coding"),
        ("latin-1", "opt_input"), ("latin-1", "opt_enc"), ("latin-1", "coding"),
    ])
    return st.fixed_dictionaries({
        "nl": st.sampled_from(["\n", "\n", "\r\n"]),
        "encdecl": encdecl,
        "tags": st.sampled_from([["TRANSLATORS:"], ["TRANSLATORS:"], ["L10N:", "TRANSLATORS:"], ["xx"], []]),
        "tagjoin": st.sampled_from([" ", " ", "  ", "\t"]),
        "items": st.lists(items(0), min_size=1, max_size=max_items),
        "eof_nl": st.sampled_from([True, True, True, False]),
        "btext": st.sampled_from([False, False, True]),
    })


NONTRIVIAL_KINDS = {"expr-ml", "filter", "ctl-cont", "def-sig", "block-args", "page-args", "call-expr", "ns-attr"}


def check_plan(plan, ev, active):
    plan = dict(plan)
    plan["enc"], plan["decl"] = plan.pop("encdecl")
    raw, labels = c20_build.build(plan)
    raw["btext"] = bool(plan.get("btext"))
    if not raw["calls"] and not raw["decoys"]:
        ev.rejected += 1
        return
    res = evaluate(raw)
    keep = []
    for key, detail in res:
        if key in active:
            ev.excluded_known[KEY2ID[key]] += 1
        else:
            keep.append((key, detail))
    lab = ["call:" + c["kind"] for c in raw["calls"]]
    lab += sorted({x for c in raw["calls"] for x in c["ctx"]})
    lab += sorted({"shape:" + x for c in raw["calls"] for x in c["shapes"]})
    lab += list(labels.elements())
    lab += ["nl:" + ("crlf" if plan["nl"] == "\r\n" else "lf"), "enc:%s/%s" % (plan["enc"], plan["decl"]),
            "nonascii" if not raw["src"].isascii() else "ascii", "tags:%d" % len(plan["tags"])]
    if any(c["comments"] for c in raw["calls"]):
        lab.append("comment-attached")
    nt = any((c["kind"] in NONTRIVIAL_KINDS) or (c["kind"] in ("code", "module") and c["lead"] > 0)
             for c in raw["calls"]) or any(
        l.startswith("tc:") and l.endswith(("d1", "d2")) for l in labels)
    ev.case(key=raw["src"], nontrivial=nt, labels=lab)
    if nt and len(raw["src"]) < 700:
        ev.sample({"src": raw["src"], "enc": raw["enc"], "decl": raw["decl"],
                   "expected": [[c["line"], c["func"], c["msgs"], c["comments"]] for c in raw["calls"]]},
                  "k%d" % (len(raw["calls"]) % 6))
    if core.fp(raw["src"]) % 8 == 0:
        try:
            _compiles(raw)
        except Exception as e:
            raise core.HarnessError("generated template rejected by mako: %s: %s\n%s" % (type(e).__name__, e, raw["src"]))
    if keep:
        keep.sort()
        key, detail = keep[0]
        raise Failure(_case(raw, key), _fmt(raw, detail), key)


def shard_search(task):
    seed, n, max_items, max_depth, active = task
    core.setup_repo()
    ev = core.Evidence()
    active = set(active)
    fails, known = core.hyp_search(plan_strategy(max_items, max_depth), lambda p: check_plan(p, ev, active), ev, seed, n,
                                   classify=classify, known=core.load_known(PID))
    return ev, fails + list(known.values())


def run(ctx):
    ev = ctx.ev
    part = getattr(ctx, "part", None)
    active = set()
    if part in (None, "known", "search"):
        active, fails = run_corpus(ev)
        for f in fails:
            ctx.fail(f)
        ev.notes["known_shapes_active"] = sorted(active)
    if part in (None, "search"):
        n = ctx.pick(160, 4000)
        shards = ctx.pick(16, 32)
        tasks = [(ctx.shard_seed(i, "search"), n, ctx.pick(7, 9), 2, sorted(active)) for i in range(shards)]
        ctx.pmap(shard_search, tasks)


def replay(case):
    core.setup_repo()
    raw = dict(case)
    want = raw.pop("key", None)
    res = evaluate(raw)
    if not res:
        return None
    res.sort()
    for key, detail in res:
        if key == want:
            return Failure(case, _fmt(raw, detail), key)
    # the recorded failure is gone; report another one only if it is not one of the catalogued layout findings
    for key, detail in res:
        if key not in KEY2ID:
            return Failure(case, _fmt(raw, detail), key)
    return None

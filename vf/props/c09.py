"""C09 - template lookup never escapes its configured directories.

Domain : a scratch tree  d/p1/p2/p3/p4/T/{root,root2,outside,rootx,mod}  where every file that is not below a
         configured root carries a secret marker (also T/secret.html, T/a.html, T/sub/a.html and secret.html/a.html
         in every ancestor p1..p4, so that over-climbing '..' chains still land on an existing outside file).
         URIs = every sequence of <=3 (quick) / <=4 (thorough, two configurations) segments over SEGS x separator
         per gap x leading x trailing, plus two structured families ('climb': k x '..' + short tail, 'abs': the
         absolute file-system path of an outside/inside file behind every leading spelling) and hypothesis-drawn
         URIs of <=8 segments.  Each URI is used (i) in get_template / has_template, (ii) from calling templates
         stored at depth 0..3 as file= of <%include> <%inherit> <%namespace name=> <%namespace import=> and as the
         argument of local.get_namespace / local.get_template / local.include_file - the URI is either passed in
         through the render context (file="${context['u']}", bulk) or written literally into the calling template
         (sampled).  Configurations: module_directory on/off or a modulename_callable, one or two roots, 7 spellings of the roots.
Oracle : TemplateLookupException (incl. subclasses)  OR  a Template whose realpath(filename) is inside realpath of
         a configured root; no rendered output / Template.source contains the marker; a sys.addaudithook hook
         (active only while mako runs) sees no open() of a file of the scratch tree outside the configured roots
         and the module directory, and no open-for-write / mkdir / rename / remove / mkstemp outside the module
         directory (such operations are also BLOCKED by the hook so that a broken tree cannot litter the real
         file system); after each shard the scratch tree is walked: nothing new outside T/mod, no marker in T/mod.
"""
import itertools
import os
import posixpath
import sys

from vf import core
from vf.core import Failure

PID = "C09"
LEVEL = "exploration"
RULE = (
    "cases = (configuration, URI, route). URIs: all sequences of <=3 (quick) / <=4 (thorough, for the default and one "
    "two-root configuration) segments over {a.html sub .. . '' ..a.html a.html.. outside secret.html rootx root} x "
    "separator per gap {/ // \\} x leading {'' / // \\ \\/ /\\} x trailing {'' /}; family 'climb' = prefix {'' sub . ..a.html ... ..sub} + "
    "k in 1..5 '..' + tail of <=2 segments; family 'cancel' = n names + (n-1 | n | n+1) '..' with different separators in the two runs; family 'abs' = every leading spelling + absolute path of each file of the "
    "scratch tree with / // or \\ as separator; hypothesis-drawn URIs of <=8 segments (free-form, targeted at an "
    "existing outside file, absolute) run as sequences of 1-4 steps on one lookup. Routes: get_template and "
    "has_template directly; 7 calling-template kinds (include, inherit, namespace name=, namespace import=, "
    "local.get_namespace, local.get_template, local.include_file) x caller depth 0..3 x 5 spellings of the caller's own "
    "URI, URI passed dynamically (quick: every URI x every depth, kind rotating; thorough: x every kind) or written "
    "literally into the caller (strided sample + hypothesis). Configurations: module_directory on/off/modulename_callable x one/two roots "
    "x root spellings {plain, trailing /, /./ and /., x/../ and sub/.., relative ./root/, cwd '.', // prefix} (quick: "
    "4 of the 28 for the full sweep and 3 more for the families, thorough: all 28). non-trivial = the URI contains '..', a backslash or a doubled/leading separator "
    "AND a naive join+normpath of it (raw, backslash-mapped, leading-separator-stripped) against a root or the "
    "caller's directory lands on an existing file outside every configured root, i.e. the escape would succeed "
    "without the guard; distinct by URI string (fingerprints)."
)
ASSUMPTIONS = [
    "POSIX only; symlinks inside a root and Windows drive spellings are not generated",
    "the empty URI is not sent through calling templates: TemplateLookup.adjust_uri('') raises IndexError (uri[0]); "
    "the statement only speaks about URIs that resolve outside the roots, the empty URI resolves to the root "
    "directory itself, so this region is not generated (counted as rejected)",
    "os.stat()/isfile() probes of outside paths are not 'content reaching a template' and are not audited",
    "opens of files outside the scratch tree (python's own imports) are ignored for reading; writes are not",
]

MARK = "S3CR3T-c09-7d1f4e"
SEGS = ["a.html", "sub", "..", ".", "", "..a.html", "a.html..", "outside", "secret.html", "rootx", "root"]
SEPS = ["/", "//", "\\"]
LEADS = ["", "/", "//", "\\", "\\/", "/\\"]
TRAILS = ["", "/"]
KINDS = ["include", "inherit", "namespace", "nsimport", "get_namespace", "get_template", "include_file"]
SPELLS = ["plain", "trailing", "dot", "dotdot", "relative", "cwd", "dslash", "rootcwd"]  # rootcwd: the process works in "/"
NCSPELL = 5
TPH = "{T}"  # placeholder for the absolute path of the scratch tree inside a URI

DYN = {
    "include": "<%include file=\"${context['u']}\"/>",
    "inherit": "<%inherit file=\"${context['u']}\"/>body",
    "namespace": "<%namespace name=\"ns\" file=\"${context['u']}\"/>${ns.leak()}",
    "nsimport": "<%namespace file=\"${context['u']}\" import=\"leak\"/>${leak()}",
    "get_namespace": "<% n = local.get_namespace(context['u']) %>${n.leak()}",
    "get_template": "<% t = local.get_template(context['u']) %>${t.render()}",
    "include_file": "<% local.include_file(context['u']) %>",
}


def literal_caller(kind, uri):
    if kind == "include":
        return '<%%include file="%s"/>' % uri
    if kind == "inherit":
        return '<%%inherit file="%s"/>body' % uri
    if kind == "namespace":
        return '<%%namespace name="ns" file="%s"/>${ns.leak()}' % uri
    if kind == "nsimport":
        return '<%%namespace file="%s" import="leak"/>${leak()}' % uri
    if kind == "get_namespace":
        return "<%% n = local.get_namespace(%r) %%>${n.leak()}" % uri
    if kind == "get_template":
        return "<%% t = local.get_template(%r) %%>${t.render()}" % uri
    if kind == "include_file":
        return "<%% local.include_file(%r) %%>" % uri
    raise core.HarnessError("unknown kind %r" % kind)


# ---- scratch tree --------------------------------------------------------
ROOT_FILES = ["a.html", "sub/a.html", "sub/sub/a.html", "sub/sub/sub/a.html", "..a.html", "a.html..", "secret.html",
              "outside/secret.html", "sub/secret.html"]
ROOT2_FILES = ["a.html", "secret.html", "rootx/a.html", "sub/secret.html", "root/a.html", "sub/sub/secret.html"]
T_OUTSIDE = ["secret.html", "a.html", "..a.html", "a.html..", "sub/a.html", "sub/secret.html", "outside/secret.html",
             "outside/a.html", "outside/sub/a.html", "rootx/a.html", "rootx/secret.html", "rootx/sub/a.html"]
NEST = ["p1", "p2", "p3", "p4", "T"]


def inside_text(tag):
    return 'INSIDE[%s]<%%def name="leak()">INSIDE-DEF[%s]</%%def>' % (tag, tag)


OUT_TEXT = MARK + '<%def name="leak()">' + MARK + "-def</%def>"


class AuditBlocked(Exception):
    """raised by the audit hook to stop a write outside the module directory"""


_A = {"on": False, "installed": False, "events": None, "top": None, "allow_r": (), "allow_w": ()}
_O_WRITE = os.O_WRONLY | os.O_RDWR | os.O_CREAT | os.O_TRUNC | os.O_APPEND
_PATH_EVENTS = {
    "os.mkdir": (0,), "os.rmdir": (0,), "os.remove": (0,), "os.rename": (0, 1), "os.link": (0, 1),
    "os.symlink": (1,), "os.truncate": (0,), "os.chmod": (0,), "os.chown": (0,), "os.utime": (0,),
    "tempfile.mkstemp": (0,), "tempfile.mkdtemp": (0,), "shutil.move": (0, 1), "shutil.copyfile": (1,),
    "shutil.rmtree": (0,),
}


def _under(path, bases):
    for b in bases:
        if path == b or path.startswith(b + os.sep):
            return True
    return False


def _rp(p):
    try:
        p = os.fspath(p)
    except TypeError:
        return None
    if isinstance(p, bytes):
        p = os.fsdecode(p)
    return os.path.realpath(p)


def _hook(event, args):
    if not _A["on"]:
        return
    if event != "open" and event not in _PATH_EVENTS:
        return
    _A["on"] = False
    block = None
    try:
        if event == "open":
            p = _rp(args[0])
            if p is None:
                return
            mode, flags = args[1], args[2]
            if isinstance(flags, int):
                write = bool(flags & _O_WRITE)
            else:
                write = bool(mode) and any(c in str(mode) for c in "wax+")
            if write:
                if not _under(p, _A["allow_w"]):
                    _A["events"].append(("write-outside", "open", p))
                    block = p
            elif _under(p, (_A["top"],)) and not _under(p, _A["allow_r"]):
                _A["events"].append(("read-outside", "open", p))
        else:
            for i in _PATH_EVENTS[event]:
                if i >= len(args):
                    continue
                p = _rp(args[i])
                if p is not None and not _under(p, _A["allow_w"]):
                    _A["events"].append(("write-outside", event, p))
                    block = p
    finally:
        _A["on"] = True
    if block is not None:
        raise AuditBlocked("%s on %s blocked by the C09 harness" % (event, block))


def _install_hook():
    # sys.addaudithook is permanent: install once per process, gate with _A["on"]
    if not _A["installed"]:
        # a lazy import inside mako must not try to write a .pyc next to its source while the gate is closed
        # (the sandbox sets PYTHONDONTWRITEBYTECODE=1 anyway; this makes the check independent of it)
        sys.dont_write_bytecode = True
        sys.addaudithook(_hook)
        _A["installed"] = True


class _Modname:
    """modulename_callable: one module file per (filename, uri) inside the module directory"""

    def __init__(self, moddir):
        self.moddir = moddir

    def __call__(self, filename, uri):
        import hashlib

        return os.path.join(self.moddir, "m_%s.py" % hashlib.md5(("%s\0%s" % (filename, uri)).encode("utf-8", "replace")).hexdigest())


class Env:
    """One scratch tree + lookups for one configuration."""

    def __init__(self, cfg):
        core.setup_repo()
        from mako.lookup import TemplateLookup

        self.cfg = cfg
        self.two = bool(cfg.get("two"))
        self.spell = cfg.get("spell", "plain")
        self._td = core.TempDir()
        self.top = os.path.realpath(self._td.__enter__())
        self.T = os.path.join(self.top, *NEST)
        self.oldcwd = None
        self.closed = False
        try:
            self._build()
            dirs = [self._spell_root("root")] + ([self._spell_root("root2")] if self.two else [])
            self.dirs = dirs
            # "mod": False | True (module_directory) | "callable" (modulename_callable placing modules in T/mod)
            self.moddir = os.path.join(self.T, "mod") if cfg.get("mod") else None
            self.lookup_kw = {"module_directory": self.moddir}
            if cfg.get("mod") == "callable":
                self.lookup_kw = {"modulename_callable": _Modname(self.moddir)}
            if self.spell in ("relative", "cwd"):
                self.oldcwd = os.getcwd()
                os.chdir(self.T if self.spell == "relative" else os.path.join(self.T, "root"))
            elif self.spell == "rootcwd":
                # a daemon / container: nothing about containment may depend on the working directory
                self.oldcwd = os.getcwd()
                os.chdir("/")
            self.roots = [os.path.join(self.T, "root")] + ([os.path.join(self.T, "root2")] if self.two else [])
            self.allow_w = (os.path.join(self.T, "mod"),) if self.moddir else ()
            self.allow_r = tuple(self.roots) + self.allow_w
            self.events = []
            mk = lambda: TemplateLookup(directories=list(dirs), **self.lookup_kw)
            self.Lg, self.Lh, self.Lc = mk(), mk(), mk()
            self.callers = {}
            self.nlit = 0
            self.snapshot = self._walk()
            _install_hook()
            self._self_test()
            if "sane" not in _A:
                _A["sane"] = self._sanity()
            self.sanity_problem = _A["sane"]
        except BaseException:
            self.close()
            raise

    # -- construction ---------------------------------------------------
    def _write(self, path, text):
        os.makedirs(os.path.dirname(path), exist_ok=True)
        with open(path, "w") as fh:
            fh.write(text)

    def _build(self):
        T = self.T
        self.outside_files = set()
        self.inside_files = set()
        p = self.top
        for name in NEST[:-1]:
            p = os.path.join(p, name)
            for f in ("secret.html", "a.html"):
                self._write(os.path.join(p, f), OUT_TEXT)
                self.outside_files.add(os.path.join(p, f))
        for f in T_OUTSIDE:
            self._write(os.path.join(T, f), OUT_TEXT)
            self.outside_files.add(os.path.join(T, f))
        for f in ROOT_FILES:
            self._write(os.path.join(T, "root", f), inside_text("root/" + f))
            self.inside_files.add(os.path.join(T, "root", f))
        if self.two:
            for f in ROOT2_FILES:
                self._write(os.path.join(T, "root2", f), inside_text("root2/" + f))
                self.inside_files.add(os.path.join(T, "root2", f))
        for d in range(4):
            for k in KINDS:
                self._write(os.path.join(T, "root", *(["sub"] * d), "c_%s.html" % k), DYN[k])

    def _spell_root(self, name):
        T = self.T
        s = self.spell
        if s in ("plain", "rootcwd"):
            return T + "/" + name
        if s == "trailing":
            return T + "/" + name + "/"
        if s == "dot":
            return T + "/./" + name + "/."
        if s == "dotdot":
            return T + "/x/../" + name + "/sub/.."
        if s == "relative":
            return "./" + name + "/"
        if s == "cwd":
            return "." if name == "root" else "../" + name
        if s == "dslash":
            return "/" + T + "//" + name
        raise core.HarnessError("unknown root spelling %r" % s)

    def _walk(self):
        out = set()
        mod = os.path.join(self.T, "mod")
        for dp, dns, fns in os.walk(self.top):
            if dp == mod:
                dns[:] = []
                continue
            for n in dns + fns:
                out.add(os.path.join(dp, n))
        out.discard(mod)
        return out

    def _self_test(self):
        """positive control of the audit gate: an outside read and a blocked outside write must be seen."""
        self._arm()
        try:
            with open(os.path.join(self.T, "outside", "secret.html")) as fh:
                fh.read(1)
            try:
                os.mkdir(os.path.join(self.T, "audit-selftest"))
                blocked = False
            except AuditBlocked:
                blocked = True
        finally:
            _A["on"] = False
        kinds = sorted(e[0] for e in self.events)
        if kinds != ["read-outside", "write-outside"] or not blocked:
            raise core.HarnessError("audit hook self-test failed: %r blocked=%r" % (self.events, blocked))
        del self.events[:]

    def _sanity(self):
        """once per process: every calling-template kind, in both forms, hands the URI string unchanged to
        lookup.adjust_uri (recorded on a throw-away lookup) and shows the content of an inside target."""
        from mako.lookup import TemplateLookup

        probe = "sub\\..//.\\a.html\\"
        for kind in KINDS:
            for literal in (False, True):
                L = TemplateLookup(directories=list(self.dirs), **self.lookup_kw)
                got = []
                orig = L.adjust_uri
                L.adjust_uri = lambda uri, rel, orig=orig, got=got: (got.append(uri), orig(uri, rel))[1]
                if literal:
                    self.nlit += 1
                    name = "cl%d_%s.html" % (self.nlit, kind)
                    path = os.path.join(self.T, "root", "sub", name)
                    self._write(path, literal_caller(kind, probe))
                    self.snapshot.add(path)
                    st, out = self.gated(lambda: L.get_template("/sub/" + name).render_unicode())
                else:
                    st, out = self.gated(lambda: L.get_template("/sub/c_%s.html" % kind).render_unicode(u=probe))
                del self.events[:]
                if st != "ok" or got[:1] != [probe] or "INSIDE" not in out or "root/sub/a.html" not in out:
                    # (gated: a broken tree must not write anywhere.)  Not raised here so that a broken tree is
                    # still reported through its violations; run() raises HarnessError if nothing else was found.
                    return "calling template %s (literal=%s) does not deliver the URI: adjust_uri saw %r, result %s %r" % (
                        kind, literal, got, st, out)
        return None

    def _arm(self):
        _A["events"] = self.events
        _A["top"] = self.top
        _A["allow_r"] = self.allow_r
        _A["allow_w"] = self.allow_w
        _A["on"] = True

    # -- gated calls ------------------------------------------------------
    def gated(self, fn, *a, **kw):
        from mako import exceptions

        self._arm()
        try:
            return "ok", fn(*a, **kw)
        except exceptions.TemplateLookupException as e:
            return "tle", e
        except AuditBlocked as e:
            return "blocked", e
        except Exception as e:
            return "other", e
        finally:
            _A["on"] = False

    def inside(self, filename):
        return _under(os.path.realpath(filename), self.roots)

    def expand(self, step):
        uri = step["uri"]
        if TPH in uri:
            uri = uri.replace(TPH, step.get("tsep", "/").join(self.T.strip("/").split("/")))
        return uri

    def caller_uri(self, name, depth, cspell):
        base = "sub/" * depth + name
        if cspell == 0:
            return "/" + base
        if cspell == 1:
            return base
        if cspell == 2:
            return "//" + base
        if cspell == 3:
            return "\\" + base.replace("/", "\\")
        if cspell == 4:
            return "/sub/../" + base
        raise core.HarnessError("unknown caller spelling %r" % cspell)

    def caller(self, kind, depth, cspell, literal_uri=None):
        if literal_uri is None:
            key = (kind, depth, cspell)
            t = self.callers.get(key)
            if t is None:
                # the caller's own lookup is gated as well: a broken tree must not write module files anywhere
                st, t = self.gated(self.Lc.get_template, self.caller_uri("c_%s.html" % kind, depth, cspell))
                if st != "ok":
                    return st, t
                self.callers[key] = t
            return "ok", t
        self.nlit += 1
        name = "cl%d_%s.html" % (self.nlit, kind)
        path = os.path.join(self.T, "root", *(["sub"] * depth), name)
        self._write(path, literal_caller(kind, literal_uri))
        self.snapshot.add(path)
        return self.gated(self.Lc.get_template, self.caller_uri(name, depth, cspell))

    # -- non-trivial rule: naive resolution lands on an existing outside file --
    def naive_outside(self, uri, caller_dir=None):
        if ".." not in uri and "\\" not in uri and "//" not in uri and not uri.startswith("/"):
            return False
        outside = self.outside_files
        vs = {uri, uri.replace("\\", "/")}
        ws = set()
        for v in vs:
            ws.add(v)
            ws.add(v.lstrip("/"))
            ws.add(v.lstrip("/\\"))
        for R in self.roots:
            bases = [R]
            if caller_dir:
                bases.append(R + "/" + caller_dir)
            for B in bases:
                for w in ws:
                    if posixpath.normpath(B + "/" + w) in outside:
                        return True
                    if w.startswith("/") and posixpath.normpath(w) in outside:
                        return True
        return False

    def resolves_outside(self, uri, caller_dir=None):
        """True when EVERY reading of the URI (backslashes as separators or not, leading separators kept or
        stripped, relative to the caller's directory or to the root) leaves every configured root: such a URI
        "resolves outside" whatever the reading, so the statement demands TemplateLookupException for it."""
        vs = {uri, uri.replace("\\", "/")}
        ws = set()
        for v in vs:
            ws.update((v, v.lstrip("/"), v.lstrip("/\\")))
        for R in self.roots:
            bases = [R]
            if caller_dir:
                bases.append(R + "/" + caller_dir)
            for B in bases:
                for w in ws:
                    if _under(posixpath.normpath(B + "/" + w), self.roots):
                        return False
        return True

    # -- end of shard --------------------------------------------------------
    def final_check(self, case):
        now = self._walk()
        extra = sorted(now - self.snapshot)
        if extra:
            raise Failure(case, "files/directories created outside module_directory: %r" % extra[:5],
                          "fs:created-outside-module-directory")
        mod = os.path.join(self.T, "mod")
        if not self.moddir and os.path.exists(mod):
            raise Failure(case, "module directory %s created although module_directory=None" % mod,
                          "fs:created-outside-module-directory")
        if self.moddir:
            mb = MARK.encode()
            for dp, dns, fns in os.walk(mod):
                for n in fns:
                    with open(os.path.join(dp, n), "rb") as fh:
                        if mb in fh.read():
                            raise Failure(case, "module file %s contains the content of an outside file"
                                          % os.path.join(dp, n)[len(self.top):], "fs:marker-in-module-file")

    def close(self):
        if self.closed:
            return
        self.closed = True
        _A["on"] = False
        if self.oldcwd is not None:
            os.chdir(self.oldcwd)
        self._td.__exit__(None, None, None)


# ---- oracle for one step ----------------------------------------------------
def _case(env, step):
    # the steps just before this one (same lookups) belong to the replay form: what a lookup remembers from an earlier
    # request must not change the verdict of a later one, so a failure may need its predecessors to show
    prev = [s for s in getattr(env, "recent", [])[-6:] if s is not step]
    return {"cfg": env.cfg, "steps": prev + [step]}


def _rel_events(env):
    evs = list(env.events)
    del env.events[:]
    return [(k, e, p[len(env.top):] if p.startswith(env.top) else p) for k, e, p in evs]


def _fail(env, case, detail, key):
    """raise the Failure for an escape symptom; audit observations of the same step go into the detail"""
    rel = _rel_events(env)
    if rel:
        detail += " [audit: %r]" % (rel[:4],)
    raise Failure(case, detail, key)


def _audit_failure(env, case, what):
    """Symptom order within one step is fixed (returned template outside > marker in output/source > audited
    read > audited write > other exception) so that the key of a failure does not depend on what an earlier step
    left in the lookup's cache."""
    if not env.events:
        return
    rel = _rel_events(env)
    if any(k == "read-outside" for k, _, _ in rel):
        raise Failure(case, "%s: opened a file outside the configured directories: %r" % (what, rel[:4]),
                      "audit:outside-file-opened")
    raise Failure(case, "%s: file-system modification outside module_directory (blocked by the harness): %r"
                  % (what, rel[:4]), "audit:write-outside-module-directory")


def _lookup_label(e):
    return "rejected-by-guard" if "cannot be relative outside" in str(e) else "not-found"


def _check_template(env, case, what, t):
    from mako.template import Template

    if not isinstance(t, Template):
        _fail(env, case, "%s returned %r, not a Template" % (what, type(t)), "returned-non-template")
    fn = t.filename
    if fn is None or not env.inside(fn):
        _fail(env, case, "%s returned a Template with filename %r (realpath %r), outside the configured roots %r"
              % (what, fn, fn and os.path.realpath(fn)[len(env.top):], env.dirs), "escape:template-outside-roots")
    st, out = env.gated(t.render_unicode)
    if st == "ok" and MARK in out:
        _fail(env, case, "%s: rendered output %r contains the outside marker" % (what, out[:80]), "escape:marker-in-output")
    st2, src = env.gated(lambda: t.source)
    if st2 == "ok" and src is not None and MARK in src:
        _fail(env, case, "%s: Template.source contains the outside marker" % what, "escape:marker-in-source")
    _audit_failure(env, case, what + " + render + .source")
    if st not in ("ok", "tle"):
        raise Failure(case, "%s: rendering the returned template raised %s: %s" % (what, type(out).__name__, out),
                      "other-exception:render:" + type(out).__name__)


def run_step(env, step, ev):
    """Run one step through the oracle; raises Failure. Records evidence."""
    mode = step["mode"]
    uri = env.expand(step)
    case = _case(env, step)
    if not hasattr(env, "recent"):
        env.recent = []
    env.recent.append(step)
    del env.recent[:-8]
    del env.events[:]
    if mode == "direct":
        nt = env.naive_outside(uri)
        st, r = env.gated(env.Lg.get_template, uri)
        what = "get_template(%r)" % uri
        if st == "ok":
            _check_template(env, case, what, r)
            lab = "served-inside"
            if env.resolves_outside(uri):
                _fail(env, case, "%s returned the template %r although the URI resolves outside every configured "
                      "directory under every reading (expected TemplateLookupException)" % (what, r.filename[len(env.top):]),
                      "escape:served-uri-resolving-outside")
        _audit_failure(env, case, what)
        if st == "tle":
            lab = _lookup_label(r)
        elif st != "ok":
            raise Failure(case, "%s raised %s: %s (expected TemplateLookupException or a Template)"
                          % (what, type(r).__name__, r), "other-exception:get_template:" + type(r).__name__)
        ev.case(key=uri, nontrivial=nt, labels=("direct:" + lab,) + (("nontrivial:direct:" + lab,) if nt else ()))
        # has_template on an independent lookup of the same configuration
        st, r = env.gated(env.Lh.has_template, uri)
        what = "has_template(%r)" % uri
        if st == "ok" and r is True:
            st2, t2 = env.gated(env.Lh.get_template, uri)
            if st2 == "ok":
                _check_template(env, case, what + " is True; get_template", t2)
            _audit_failure(env, case, what + " is True; get_template")
            if st2 == "tle":
                # has_template is documented as "get_template would not raise": True for a URI that get_template refuses
                # tells the caller that a file exists where the lookup must not look
                raise Failure(case, "%s is True although get_template raises TemplateLookupException (%s)%s"
                              % (what, t2, "; the URI resolves to an existing file outside the configured directories" if nt else ""),
                              "has_template-true-for-refused-uri")
            if st2 not in ("ok", "tle"):
                raise Failure(case, "%s True, then get_template raised %s: %s" % (what, type(t2).__name__, t2),
                              "other-exception:get_template:" + type(t2).__name__)
            hl = "true"
        _audit_failure(env, case, what)
        if st != "ok":
            raise Failure(case, "%s raised %s: %s (expected a bool)" % (what, type(r).__name__, r),
                          "other-exception:has_template:" + type(r).__name__)
        if r is False:
            hl = "false"
        elif r is not True:
            raise Failure(case, "%s returned %r" % (what, r), "returned-non-bool")
        ev.case(key=uri, nontrivial=nt, labels=("has_template:" + hl,))
        return lab
    if mode == "caller":
        if uri == "":
            ev.rejected += 1
            return "rejected"
        kind, depth, cspell = step["kind"], step["depth"], step.get("cspell", 0)
        literal = bool(step.get("literal"))
        st, t = env.caller(kind, depth, cspell, uri if literal else None)
        _audit_failure(env, case, "loading the calling template for %s at depth %d" % (kind, depth))
        if st != "ok":
            # only a broken tree gets here; run() turns this into a harness error if nothing else was found
            ev.label("caller-unavailable")
            ev.notes["caller_unavailable_example"] = "%s: %s" % (type(t).__name__, t)
            ev.rejected += 1
            return "rejected"
        cdir = posixpath.dirname(env.caller_uri("x", depth, cspell).replace("\\", "/")).lstrip("/")
        nt = env.naive_outside(uri, cdir)
        what = "%s of %r from caller %r%s" % (kind, uri, t.uri, " (literal)" if literal else "")
        if literal:
            st, r = env.gated(t.render_unicode)
        else:
            st, r = env.gated(t.render_unicode, u=uri)
        if st == "ok" and MARK in r:
            _fail(env, case, "%s: output %r contains the outside marker" % (what, r[:80]), "escape:marker-in-output")
        _audit_failure(env, case, what)
        if st == "ok":
            if "INSIDE" not in r:
                raise core.HarnessError("caller produced neither inside nor outside content: %r -> %r" % (case, r))
            lab = "served-inside"
            if env.resolves_outside(uri, cdir):
                raise Failure(case, "%s: produced %r although the URI resolves outside every configured directory "
                              "under every reading (expected TemplateLookupException)" % (what, r[:60]),
                              "escape:served-uri-resolving-outside")
        elif st == "tle":
            lab = _lookup_label(r)
        else:
            raise Failure(case, "%s raised %s: %s (expected TemplateLookupException or output)"
                          % (what, type(r).__name__, r), "other-exception:caller:" + type(r).__name__)
        form = "literal" if literal else "dynamic"
        ev.case(key=uri, nontrivial=nt,
                labels=("caller:" + lab, "kind:" + kind, "depth:%d" % depth, "cspell:%d" % cspell, "form:" + form)
                + (("nontrivial:caller:%s:depth%d" % (lab, depth),) if nt else ()))
        return lab
    if mode == "shared":
        # another lookup, over a directory OUTSIDE the configured ones, shares the module directory and has compiled a file of
        # its own under the same URI (its module file is newer than the inside file)
        from mako.lookup import TemplateLookup

        if env.cfg.get("mod") is not True:
            ev.rejected += 1
            return "rejected"
        Lout = TemplateLookup(directories=[env.T], **env.lookup_kw)
        # (on a broken tree the preparation itself may fail: then there is nothing to judge in this step; the failures of
        # such a tree show in the other families)
        try:
            seen = Lout.get_template(uri).render_unicode()
        except Exception:  # noqa: BLE001
            seen = ""
        if MARK not in seen:
            ev.rejected += 1
            ev.label("shared-step-unavailable")
            return "rejected"
        del env.events[:]
        L2 = TemplateLookup(directories=list(env.dirs), **env.lookup_kw)
        what = "get_template(%r) after a lookup over %r compiled its own %r into the shared module directory" % (uri, env.T[len(env.top):], uri)
        if step.get("kind") == "include":
            st, t = env.gated(L2.get_template, env.caller_uri("c_include.html", 0, 0))
            _audit_failure(env, case, "loading the calling template for " + what)
            if st != "ok":
                ev.rejected += 1
                ev.label("shared-step-unavailable")
                return "rejected"
            st, r = env.gated(t.render_unicode, u=uri)
            if st == "ok" and MARK in r:
                _fail(env, case, "include from %s: output %r contains the outside marker" % (what, r[:80]), "escape:marker-in-output")
            _audit_failure(env, case, what)
            if st != "ok":
                raise Failure(case, "include from %s raised %s: %s" % (what, type(r).__name__, r), "other-exception:caller:" + type(r).__name__)
        else:
            st, r = env.gated(L2.get_template, uri)
            if st != "ok":
                raise Failure(case, "%s raised %s: %s (the URI names a file inside the configured directories)" % (what, type(r).__name__, r),
                              "other-exception:get_template:" + type(r).__name__)
            _check_template(env, case, what, r)
        ev.case(key=["shared", uri, step.get("kind")], nontrivial=True, labels=("shared-module-directory",))
        return "served-inside"
    raise core.HarnessError("unknown mode %r" % mode)


def _note_sanity(env, ev):
    if env.sanity_problem and not ev.labels.get("caller-unavailable"):
        ev.label("caller-unavailable")
        ev.notes["caller_unavailable_example"] = env.sanity_problem


def run_case(case, ev):
    """A whole case (configuration + steps) on a fresh tree; raises Failure."""
    if "shard" in case:
        ev2, fails = SHARDS[case["shard"][0]](case["shard"][1])
        if fails:
            raise fails[0]
        return
    env = Env(case["cfg"])
    try:
        _note_sanity(env, ev)
        for step in case["steps"]:
            try:
                run_step(env, step, ev)
            except Failure as f:
                f.case = case
                raise
        env.final_check(case)
    finally:
        env.close()


# ---- URI enumeration ---------------------------------------------------------
def sweep_uris(n, seg0=None):
    first = SEGS if seg0 is None else [seg0]
    for s0 in first:
        for rest in itertools.product(SEGS, repeat=n - 1):
            segs = (s0,) + rest
            for seps in itertools.product(SEPS, repeat=n - 1):
                body = segs[0]
                for sp, sg in zip(seps, rest):
                    body += sp + sg
                for lead in LEADS:
                    for trail in TRAILS:
                        yield lead + body + trail


def climb_uris():
    tails = list(sweep_tails())
    for pre in ("", "sub", ".", "..a.html", "...", "..sub"):  # (names that merely begin with dots are names)
        for k in range(1, 6):
            for sp in SEPS:
                ups = sp.join([".."] * k)
                head = (pre + sp + ups) if pre else ups
                for lead in ("", "/", "\\"):
                    for tsp in (sp, "/"):
                        for tail in tails:
                            yield lead + head + tsp + tail


def cancel_uris():
    """n directory names and n-1 / n / n+1 '..' segments, the two runs joined by DIFFERENT separators: a URI that stays
    inside (or just leaves) only if names and '..' are counted the same way by every component that looks at it"""
    for n in (1, 2, 3):
        for sn in SEPS:
            for su in SEPS:
                for j in SEPS:
                    for ups in (n - 1, n, n + 1):
                        head = sn.join(["sub"] * n) + (j + su.join([".."] * ups) if ups else "")
                        for lead in ("", "/", "\\"):
                            for tsp in ("/", "\\"):
                                for tail in ("a.html", "sub" + tsp + "a.html", "secret.html"):
                                    yield lead + head + tsp + tail


BLANKS = [" ", "\t", "\n", "\r\n", "\x0b", "\xa0", "\u2003"]  # (characters str.strip() removes; the last two non-ASCII)


def blank_uris():
    """climbing URIs with white space before the first / after the last character, and around the first separator:
    a component that trims the URI must not disagree with a component that does not"""
    for k in (1, 2, 3, 4):
        for sp in SEPS:
            ups = sp.join([".."] * k)
            for pre in ("", "sub" + sp):
                for lead in ("", "/", "//", "\\"):
                    for tail in ("secret.html", "a.html", "outside" + sp + "secret.html", "sub" + sp + "a.html"):
                        core_ = lead + pre + ups + sp + tail
                        for ws in BLANKS:
                            yield ws + core_
                            yield ws + core_ + ws
                            yield core_ + ws
                            if lead:
                                yield lead + ws + pre + ups + sp + tail


def sweep_tails():
    for s in SEGS:
        if s not in ("", "."):
            yield s
    for a in ("sub", "outside", "rootx", "root", ".."):
        for sp in SEPS:
            for b in ("a.html", "secret.html", "sub/a.html", "..a.html"):
                yield a + sp + b


def abs_steps(env_files):
    """URIs that are the absolute path of a scratch-tree file (placeholder {T} expanded per tree)."""
    for rel in env_files:
        for tsep in SEPS:
            relx = tsep.join(rel.split("/"))
            for lead in LEADS + ["///", "./", "../", "sub/../"]:
                for mid in (tsep, tsep + ".." + tsep + "T" + tsep, tsep + "root" + tsep + ".." + tsep):
                    yield {"uri": lead + TPH + mid + relx, "tsep": tsep}


ABS_RELS = T_OUTSIDE[:8] + ["root/a.html", "root/sub/a.html", "mod/a.html.py", "mod/sub/a.html.py"]


def _combo(i, depth):
    kind = KINDS[(i + depth) % len(KINDS)]
    cspell = 0 if (i // 3) % 2 == 0 else 1 + (i // 6) % (NCSPELL - 1)
    return kind, cspell


# ---- shards ------------------------------------------------------------------------
def _record(fails, f):
    old = fails.get(f.key)
    if old is None or len(f.case["steps"][-1]["uri"]) < len(old.case["steps"][-1]["uri"]):
        fails[f.key] = f


def _steps_for(task):
    """yield the steps of a sweep task: (family, arg, routes)"""
    fam, arg, routes = task["fam"], task.get("arg"), task["routes"]
    if fam == "sweep":
        gen = ({"uri": u} for u in sweep_uris(arg[0], arg[1]))
    elif fam == "climb":
        gen = ({"uri": u} for i, u in enumerate(climb_uris()) if i % arg[1] == arg[0])
    elif fam == "abs":
        gen = abs_steps(ABS_RELS)
    elif fam == "cancel":
        gen = ({"uri": u} for u in cancel_uris())
    elif fam == "shared":
        for u in ("/a.html", "/sub/a.html", "/secret.html", "a.html", "sub/a.html"):
            for kind in ("direct", "include"):
                yield {"uri": u, "mode": "shared", "kind": kind}
        return
    elif fam == "blank":
        gen = ({"uri": u} for i, u in enumerate(blank_uris()) if i % arg[1] == arg[0])
    else:
        raise core.HarnessError("unknown family %r" % fam)
    seen = set()
    i = 0
    part, of = task.get("split", (0, 1))
    for base in gen:
        k = (base["uri"], base.get("tsep"))
        if k in seen:
            continue
        seen.add(k)
        i += 1
        if i % of != part:
            continue
        if "direct" in routes:
            yield dict(base, mode="direct")
        if "callers" in routes:  # every depth, kind and caller spelling rotating
            # (deepest caller first for every other URI: what one caller resolved must not be reused for a shallower one)
            for depth in (range(4) if i % 2 else range(3, -1, -1)):
                kind, cspell = _combo(i, depth)
                yield dict(base, mode="caller", kind=kind, depth=depth, cspell=cspell)
        if "callers-all" in routes:  # every depth x every kind, caller spelling rotating
            for depth in range(4):
                for j, kind in enumerate(KINDS):
                    yield dict(base, mode="caller", kind=kind, depth=depth, cspell=_combo(i + j, depth)[1])
        if "literal" in routes:
            stride, off = task["stride"], task["offset"]
            for depth in range(4):
                for j, kind in enumerate(KINDS):
                    if (i * 28 + depth * 7 + j) % stride == off:
                        yield dict(base, mode="caller", kind=kind, depth=depth, cspell=_combo(i + j, depth)[1], literal=True)


def shard_sweep(task):
    core.setup_repo()
    ev = core.Evidence()
    fails = {}
    env = Env(task["cfg"])
    last = None
    try:
        _note_sanity(env, ev)
        for step in _steps_for(task):
            try:
                lab = run_step(env, step, ev)
                if last is None and lab == "rejected-by-guard":
                    last = dict(step, result=lab, cfg=task["cfg"])
            except Failure as f:
                _record(fails, f)
                ev.label("FAIL:" + f.key)
        try:
            env.final_check({"shard": ["sweep", task]})
        except Failure as f:
            fails.setdefault(f.key, f)
    finally:
        env.close()
    if last is not None:
        ev.sample(last, "%s/%s/%s" % (task["fam"], task["cfg"]["spell"], ",".join(task["routes"])))
    return ev, list(fails.values())


def case_strategy():
    from hypothesis import strategies as st

    seg = st.sampled_from(SEGS + ["..", "..", "sub", "...", "mod", "a.html.py", "root2", " ", "..\\..", "%2e%2e"])
    sep = st.sampled_from(SEPS + ["/", "/", "\\/", "/\\", "///", "\\\\", "/./", "/.//"])
    lead = st.sampled_from(LEADS + ["", "", "///", "\\\\", "./", "../", "..\\", ".\\", "/./", "/../"])
    trail = st.sampled_from(TRAILS + ["", "\\", "/.", "/.."])

    def join(parts, lead_, trail_):
        out = lead_
        for i, (sg, sp) in enumerate(parts):
            out += sg + (sp if i < len(parts) - 1 else "")
        return out + trail_

    free = st.builds(join, st.lists(st.tuples(seg, sep), min_size=1, max_size=8), lead, trail)

    target = st.sampled_from([f for f in T_OUTSIDE] + ["../secret.html", "../../a.html", "mod/a.html.py", "root2/a.html"])

    def make_targeted(pre, ups, noise, tgt, seps, lead_, trail_):
        # prefix of inside directories, enough '..' (plus noise) to leave the root from a caller of depth<=3, then
        # the path of an existing outside file - each gap with its own separator
        mid = [".."] * ups
        for nz, pos in noise:
            mid.insert(min(pos, len(mid)), nz)
        segs = pre + mid + tgt.split("/")
        return join([(sg, seps[i % len(seps)]) for i, sg in enumerate(segs)], lead_, trail_)

    targeted = st.builds(
        make_targeted,
        st.lists(st.sampled_from(["sub", ".", "", "a.html", "root", "sub/..", "outside"]), max_size=3),
        st.integers(1, 6),
        st.lists(st.tuples(st.sampled_from([".", "", "sub/..", "x/.."]), st.integers(0, 6)), max_size=2),
        target, st.lists(sep, min_size=14, max_size=14), lead, trail)

    absolute = st.builds(
        lambda ld, tsep, rel, mid: {"uri": ld + TPH + mid.replace("/", tsep) + tsep.join(rel.split("/")), "tsep": tsep},
        lead, st.sampled_from(SEPS), st.sampled_from(ABS_RELS), st.sampled_from(["/", "/../T/", "/root/../", "//", "/./"]))

    uri = st.one_of(free.map(lambda u: {"uri": u}), targeted.map(lambda u: {"uri": u}), targeted.map(lambda u: {"uri": u}),
                    absolute)
    route = st.one_of(
        st.just({"mode": "direct"}),
        st.builds(lambda k, d, c, l: {"mode": "caller", "kind": k, "depth": d, "cspell": c, "literal": l},
                  st.sampled_from(KINDS), st.integers(0, 3), st.sampled_from([0, 0, 1, 2, 3, 4]), st.booleans()),
    )
    step = st.builds(lambda u, r: dict(u, **r), uri, route)
    cfg = st.builds(lambda s, m, t: {"spell": s, "mod": m, "two": t}, st.sampled_from(SPELLS),
                    st.sampled_from([False, True, True, "callable"]), st.booleans())
    return st.builds(lambda c, s: {"cfg": c, "steps": s}, cfg, st.lists(step, min_size=1, max_size=4))


def shard_random(task):
    seed, n = task
    core.setup_repo()
    ev = core.Evidence()

    def check(case):
        run_case(case, ev)
        if len(case["steps"]) > 1:
            ev.sample(case, "random")

    fails, known = core.hyp_search(case_strategy(), check, ev, seed, n, classify=classify, known=core.load_known(PID))
    return ev, fails + list(known.values())


SHARDS = {"sweep": shard_sweep}

QUICK_CFGS = [  # direct sweep in the quick tier
    {"spell": "plain", "mod": True, "two": False},
    {"spell": "trailing", "mod": "callable", "two": True},
    {"spell": "relative", "mod": False, "two": False},
    {"spell": "cwd", "mod": False, "two": True},
]
QUICK_FAM_CFGS = [  # structured families in the quick tier: the remaining root spellings
    {"spell": "dotdot", "mod": True, "two": False},
    {"spell": "dslash", "mod": False, "two": True},
    {"spell": "dot", "mod": True, "two": True},
    {"spell": "rootcwd", "mod": True, "two": False},
]
DEFAULT_CFG = QUICK_CFGS[0]
SECOND_CFG = {"spell": "trailing", "mod": False, "two": True}


def all_cfgs():
    return [{"spell": s, "mod": m, "two": t} for s in SPELLS for m in (True, False, "callable") for t in (False, True)]


def _sweep_tasks(cfg, nmax, routes, split=1, **extra):
    tasks = [dict(cfg=cfg, fam="sweep", arg=[n, None], routes=routes, **extra) for n in (1, 2)]
    for n in range(3, nmax + 1):
        tasks += [dict(cfg=cfg, fam="sweep", arg=[n, s0], routes=routes, split=[j, split], **extra)
                  for s0 in SEGS for j in range(split)]
    return tasks


def _cost(task):
    """rough relative cost of a sweep task, to start the long ones first"""
    per = {"direct": 2, "callers": 10, "callers-all": 70, "literal": 1}
    w = sum(per[r] for r in task["routes"])
    if task["fam"] == "sweep":
        n = task["arg"][0]
        size = len(SEGS) ** (n - 1 if task["arg"][1] is not None else n) * len(SEPS) ** (n - 1)
        size /= task.get("split", (0, 1))[1]
    elif task["fam"] == "shared":
        return -1
    elif task["fam"] in ("climb", "cancel", "blank"):
        size = 3000
    else:
        size = 300
    return -w * size


def run(ctx):
    ev = ctx.ev
    part = getattr(ctx, "part", None)
    parts = part.split(",") if part else None
    want = lambda p: parts is None or p in parts
    tasks = []
    big = []
    if want("direct"):
        for cfg in (QUICK_CFGS if ctx.quick else all_cfgs()):
            tasks += _sweep_tasks(cfg, 3, ["direct"])
        if not ctx.quick:
            for cfg in (DEFAULT_CFG, SECOND_CFG):
                # split 6 ways: bounds the number of templates one lookup (one worker) holds
                big += [dict(cfg=cfg, fam="sweep", arg=[4, s0], routes=["direct"], split=[j, 6])
                        for s0 in SEGS for j in range(6)]
    if want("families"):
        fam_cfgs = QUICK_FAM_CFGS if ctx.quick else all_cfgs()
        for cfg in fam_cfgs:
            tasks += [dict(cfg=cfg, fam="climb", arg=[i, 8], routes=["direct", "callers"]) for i in range(8)]
            tasks.append(dict(cfg=cfg, fam="abs", routes=["direct", "callers"]))
            tasks.append(dict(cfg=cfg, fam="cancel", routes=["direct", "callers"]))
            tasks += [dict(cfg=cfg, fam="blank", arg=[i, 4], routes=["direct", "callers"]) for i in range(4)]
        for cfg in ([c for c in QUICK_CFGS + QUICK_FAM_CFGS if c["mod"] is True] if ctx.quick else [c for c in all_cfgs() if c["mod"] is True]):
            tasks.append(dict(cfg=cfg, fam="shared", routes=[]))
    if want("callers"):
        if ctx.quick:
            tasks += _sweep_tasks(QUICK_CFGS[0], 3, ["callers"], split=2)
        else:
            for cfg in (QUICK_CFGS[0], SECOND_CFG, QUICK_FAM_CFGS[0]):
                tasks += _sweep_tasks(cfg, 3, ["callers-all"], split=8)
    if want("literal"):
        # strided sample of the product URI x kind x depth with the URI written into the calling template
        stride = ctx.pick(797, 71)
        for cfg in (QUICK_CFGS[0], QUICK_CFGS[2]):
            tasks += _sweep_tasks(cfg, 3, ["literal"], stride=stride, offset=ctx.seed % stride)
    # longest tasks first
    ctx.pmap(shard_sweep, sorted(big + tasks, key=_cost))
    if want("random"):
        n = ctx.pick(250, 4000)
        ctx.pmap(shard_random, [(ctx.shard_seed(i, "random"), n) for i in range(16)])
    if ev.labels.get("caller-unavailable") and not ctx.failures:
        raise core.HarnessError("calling templates could not be loaded %d times (%s) and no violation was found"
                                % (ev.labels["caller-unavailable"], ev.notes.get("caller_unavailable_example")))
    ev.exhaustive = parts is None or "direct" in parts
    ev.notes["exhaustive_domains"] = (
        "all URIs of <=3 segments (11 segments x 3 separators x 6 leads x 2 trails = %d strings incl. duplicates) for "
        "%d configurations via get_template+has_template%s; the same URIs from calling templates at every depth 0..3"
        % (sum(len(SEGS) ** n * len(SEPS) ** (n - 1) * len(LEADS) * len(TRAILS) for n in (1, 2, 3)),
           len(QUICK_CFGS) if ctx.quick else len(all_cfgs()),
           "" if ctx.quick else "; <=4 segments for the default and one two-root configuration"))


def classify(f):
    return None


def replay(case):
    core.setup_repo()
    ev = core.Evidence()
    try:
        run_case(case, ev)
    except Failure as f:
        return f
    return None

"""C10 - escaping filters neutralise markup for every input and are invertible.

Domain : every code point (thorough) / stride sample (quick); all strings len<=3 over 14
         markup-significant characters; hypothesis text mixing markup, entity fragments and
         arbitrary Unicode; x charsets for the htmlentityreplace handler, direct and via Template.
Oracle : inverse functions + forbidden-character scan + per-character expected encoding.
"""
import html
import itertools
import re
from html.entities import codepoint2name, name2codepoint
from urllib.parse import unquote_plus

from vf import core
from vf.core import Failure

PID = "C10"
LEVEL = "exploration"
RULE = (
    "cases = (filter, input string): every code point U+0000..U+10FFFF minus surrogates (thorough; quick = all "
    "below U+3000 + every 37th above) as a 1-char string and embedded as 'a<c>b', every string of length<=3 over "
    "the alphabet < > \" ' & ; # x a 1 SP LF e-acute euro, and hypothesis-drawn text mixing those with arbitrary "
    "Unicode and entity fragments; filters h x u entity trim decode.<enc> and the htmlentityreplace error handler "
    "for ascii/latin-1/cp1251/shift_jis/utf-8 (str.encode and Template(output_encoding=..).render). "
    "non-trivial = the input contains a character the filter must change (for the handler: an unencodable "
    "character; trim: leading/trailing whitespace; decode: non-str input); distinct by (filter, input) - the sweeps "
    "enumerate each pair once, random cases are de-duplicated by fingerprint."
)
ASSUMPTIONS = [
    "CPython html.entities tables, urllib.parse.unquote_plus and codec tables are the trusted inverses",
    "numeric character references are decoded as chr(int) (XML rule), named ones via name2codepoint",
]

CHARSETS = ["ascii", "latin-1", "cp1251", "shift_jis", "utf-8"]
ALPHA = ["<", ">", '"', "'", "&", ";", "#", "x", "a", "1", " ", "\n", "é", "€"]
URL_SAFE = set("ABCDEFGHIJKLMNOPQRSTUVWXYZabcdefghijklmnopqrstuvwxyz0123456789_.-~%+")
HX_ENT = re.compile(r"&(amp|lt|gt|#34|#39|quot|apos);")
HX_MAP = {"amp": "&", "lt": "<", "gt": ">", "#34": '"', "#39": "'", "quot": '"', "apos": "'"}
REF = re.compile(r"&(#\d+|#x[0-9A-Fa-f]+|[A-Za-z][A-Za-z0-9]*);")


def _filters():
    from mako import filters

    return filters


def decode_ref(ref):
    """Decode one '&...;' reference by the XML rule."""
    m = REF.fullmatch(ref)
    if not m:
        return None
    body = m.group(1)
    if body.startswith("#x"):
        return chr(int(body[2:], 16))
    if body.startswith("#"):
        return chr(int(body[1:]))
    cp = name2codepoint.get(body)
    return None if cp is None else chr(cp)


def fail(filt, s, detail, key):
    return Failure({"filter": filt, "input": [ord(c) for c in s] if isinstance(s, str) else repr(s)},
                   "%s(%r): %s" % (filt, s, detail), key)


# ---- oracles ----------------------------------------------------------
def check_hx(name, fn, s):
    out = str(fn(s))
    for c in "<>\"'":
        if c in out:
            raise fail(name, s, "output %r contains %r" % (out, c), name + ":forbidden-char")
    # every & begins one of the entities the filter emits
    stripped = HX_ENT.sub("", out)
    if "&" in stripped:
        raise fail(name, s, "output %r has a bare &" % out, name + ":bare-amp")
    back = HX_ENT.sub(lambda m: HX_MAP[m.group(1)], out)
    if back != s:
        raise fail(name, s, "entity-decoding %r gives %r" % (out, back), name + ":not-invertible")
    if html.unescape(out) != s and not _html5_quirk(s):
        raise fail(name, s, "html.unescape(%r) = %r" % (out, html.unescape(out)), name + ":not-invertible-html")
    return any(c in s for c in "<>\"'&")


def _html5_quirk(s):
    # html.unescape re-interprets pre-existing legacy references such as "&#x80;" only if the & survived,
    # which it does not (it is escaped), so no quirk applies; kept for clarity.
    return False


def check_u(fn, s):
    out = fn(s)
    bad = set(out) - URL_SAFE
    if bad:
        raise fail("u", s, "output %r has unsafe chars %r" % (out, sorted(bad)), "u:unsafe-char")
    if re.search(r"%(?![0-9A-Fa-f]{2})", out):
        raise fail("u", s, "output %r has malformed percent escape" % out, "u:bad-percent")
    back = unquote_plus(out, encoding="utf-8", errors="strict")
    if back != s:
        raise fail("u", s, "unquote_plus(%r) = %r" % (out, back), "u:not-invertible")
    return out != s


def check_entity(F, s):
    out = F.html_entities_escape(s)
    exp = "".join("&%s;" % codepoint2name[ord(c)] if ord(c) in codepoint2name else c for c in s)
    if out != exp:
        raise fail("entity", s, "got %r expected %r" % (out, exp), "entity:wrong-output")
    back = F.html_entities_unescape(out)
    if back != s:
        raise fail("entity", s, "html_entities_unescape(%r) = %r" % (out, back), "entity:not-invertible")
    return out != s


def check_trim(F, s):
    out = F.trim(s)
    i = s.find(out) if out else None
    if out:
        if out[0].isspace() or out[-1].isspace():
            raise fail("trim", s, "output %r keeps outer whitespace" % out, "trim:kept-ws")
        # locate: lead = maximal whitespace prefix
        lead = len(s) - len(s.lstrip())
        trail = len(s.rstrip())
        if s[lead:trail] != out:
            raise fail("trim", s, "output %r is not the input minus outer whitespace" % out, "trim:changed")
    else:
        if s.strip() != "":
            raise fail("trim", s, "output empty for non-blank input", "trim:changed")
    return out != s


def check_decode(F, enc, x, expect):
    try:
        # the decoder is looked up, then decoders for other charsets are looked up, then it is called: what
        # decode.<enc> means is fixed when it is written, not when it is used
        dec = getattr(F.decode, enc)
        for other in ("ascii", "latin1", "utf_16", "cp1251"):
            getattr(F.decode, other)
        out = dec(x)
    except Exception as e:
        raise fail("decode." + enc, x, "raised %r" % e, "decode:raised")
    if type(out) is not str or out != expect:
        raise fail("decode." + enc, x, "got %r expected %r" % (out, expect), "decode:wrong")


def handler_expected(s, cs):
    """list of (char, bytes-or-None)"""
    parts = []
    for c in s:
        try:
            parts.append((c, c.encode(cs)))
        except UnicodeEncodeError:
            parts.append((c, None))
    return parts


def check_handler_bytes(s, cs, out, via):
    """out must be the per-character concatenation."""
    name = "htmlentityreplace/%s/%s" % (cs, via)
    if not isinstance(out, bytes):
        raise fail(name, s, "result is %r, not bytes" % type(out), "handler:type")
    pos = 0
    nontrivial = False
    for c, b in handler_expected(s, cs):
        if b is not None:
            if out[pos:pos + len(b)] != b:
                raise fail(name, s, "at byte %d expected %r for %r, output %r" % (pos, b, c, out), "handler:wrong-bytes")
            pos += len(b)
        else:
            nontrivial = True
            m = re.compile(rb"&(#\d+|#x[0-9A-Fa-f]+|[A-Za-z][A-Za-z0-9]*);").match(out, pos)
            if not m:
                raise fail(name, s, "at byte %d expected a reference for %r, output %r" % (pos, c, out), "handler:no-reference")
            dec = decode_ref(m.group(0).decode("ascii"))
            if dec != c:
                raise fail(name, s, "reference %r decodes to %r, not %r" % (m.group(0), dec, c), "handler:wrong-reference")
            pos = m.end()
    if pos != len(out):
        raise fail(name, s, "trailing bytes %r in %r" % (out[pos:], out), "handler:trailing")
    return nontrivial


def check_handler(s, cs, ev=None, with_template=False):
    try:
        out = s.encode(cs, "htmlentityreplace")
    except Exception as e:
        raise fail("htmlentityreplace/%s/encode" % cs, s, "raised %r" % e, "handler:raised")
    nt = check_handler_bytes(s, cs, out, "encode")
    if with_template:
        from mako.template import Template

        try:
            t = Template("${v}", output_encoding=cs, encoding_errors="htmlentityreplace", default_filters=[])
            out2 = t.render(v=s)
        except Exception as e:
            raise fail("htmlentityreplace/%s/template" % cs, s, "raised %r" % e, "handler:raised")
        check_handler_bytes(s, cs, out2, "template")
        # the same through a def rendered on its own and through a lookup-wide configuration
        try:
            from mako.lookup import TemplateLookup

            t2 = Template('<%def name="cell(v)">${v}</%def>', output_encoding=cs, encoding_errors="htmlentityreplace", default_filters=[])
            out3 = t2.get_def("cell").render(v=s)
            lk = TemplateLookup(output_encoding=cs, encoding_errors="htmlentityreplace", default_filters=[])
            lk.put_string("/c10cell.html", '<%def name="cell(v)">${v}</%def>${v}')
            out4 = lk.get_template("/c10cell.html").render(v=s)
            out5 = lk.get_template("/c10cell.html").get_def("cell").render(v=s)
        except Exception as e:
            raise fail("htmlentityreplace/%s/get_def" % cs, s, "raised %r" % e, "handler:raised:get_def")
        check_handler_bytes(s, cs, out3, "get_def")
        check_handler_bytes(s, cs, out4, "lookup")
        check_handler_bytes(s, cs, out5, "lookup-get_def")
    return nt


def check_all_str(F, s, ev, with_template=False, dedupe=True):
    """Run every string filter on s."""
    def rec(name, nt):
        if dedupe:
            ev.case(key=(name, s), nontrivial=nt, labels=(name,))
        else:
            ev.evaluations += 1
            ev.labels[name] += 1
            if nt:
                ev.distinct_extra += 1

    # a history, not only a call: the same text was escaped before as a trusted markupsafe.Markup value (which h passes
    # through by design); what h answers for the plain string afterwards must not depend on that
    try:
        import markupsafe

        F.html_escape(markupsafe.Markup(s))
        F.xml_escape(markupsafe.Markup(s))
    except Exception:  # noqa: BLE001 - only the plain-string calls below are judged
        pass
    rec("h", check_hx("h", F.html_escape, s))
    rec("x", check_hx("x", F.xml_escape, s))
    rec("u", check_u(F.url_escape, s))
    rec("entity", check_entity(F, s))
    rec("trim", check_trim(F, s))
    for cs in CHARSETS:
        rec("handler/" + cs, check_handler(s, cs, with_template=with_template))


# ---- shards -----------------------------------------------------------
def _collect(fn, *a):
    try:
        fn(*a)
        return None
    except Failure as f:
        return f


def shard_codepoints(task):
    lo, hi, stride_from, stride = task
    core.setup_repo()
    F = _filters()
    ev = core.Evidence()
    fails = {}
    cp = lo
    while cp < hi:
        if not (0xD800 <= cp <= 0xDFFF):
            c = chr(cp)
            for s in (c, "a" + c + "b"):
                try:
                    check_all_str(F, s, ev, dedupe=False)
                except Failure as f:
                    fails.setdefault(f.key, f)
            if cp % 64 == 0 or cp < 0x100:
                f = _collect(check_handler, c + "<" + c, "latin-1", None, True)
                if f:
                    fails.setdefault(f.key, f)
                ev.evaluations += 1
        cp += 1 if cp < stride_from else stride
    if lo == 0:
        ev.sample({"filter": "all", "input": "each code point c as 'c' and 'a'+c+'b'", "range": [lo, hi]}, "cp")
    return ev, list(fails.values())


def shard_short_strings(task):
    n, idx, of = task
    core.setup_repo()
    F = _filters()
    ev = core.Evidence()
    fails = {}
    for i, tup in enumerate(itertools.product(ALPHA, repeat=n)):
        if i % of != idx:
            continue
        s = "".join(tup)
        try:
            check_all_str(F, s, ev, with_template=(i % 7 == 0), dedupe=False)
        except Failure as f:
            fails.setdefault(f.key, f)
    if idx == 0:
        ev.sample({"filter": "all", "input": "".join(tup)}, "short%d" % n)
    return ev, list(fails.values())


def shard_long_strings(task):
    """the filters have no length limit: runs of 30..400 significant characters, pure and mixed"""
    core.setup_repo()
    F = _filters()
    ev = core.Evidence()
    fails = {}
    units = list("&<>\"'") + ["<b>&", "&amp;", "\u00e9&", "a\n ", "\u00bd<", "%+ ", "&#65;"]
    for u in units:
        for n in (30, 31, 32, 33, 34, 63, 64, 65, 100, 257, 400):
            s = (u * n)[:max(n, len(u))]
            try:
                check_all_str(F, s, ev, with_template=(n in (33, 100)), dedupe=False)
            except Failure as f:
                fails.setdefault(f.key, f)
    ev.sample({"filter": "all", "input": "<b>&" * 33}, "long")
    return ev, list(fails.values())


def shard_random(task):
    seed, n = task
    core.setup_repo()
    F = _filters()
    from hypothesis import strategies as st

    ev = core.Evidence()
    frag = st.sampled_from(ALPHA + ["&amp", "&#x", "&lt;", "&#38;", "&euro;", "&#x20AC;", "%41", "+", "\r\n", "\t", " ", "　"])
    uni = st.characters(blacklist_categories=("Cs",))
    text = st.lists(st.one_of(frag, uni, st.text(uni, max_size=5)), max_size=12).map("".join)

    def check(s):
        check_all_str(F, s, ev, with_template=True)
        if len(ev.samples) < 3 and len(s) > 4:
            ev.sample({"filter": "all", "input": s}, "rnd%d" % len(ev.samples))

    fails, known = core.hyp_search(text, check, ev, seed, n)

    # decode.<enc> on str / bytes / other objects
    class Obj:
        def __init__(self, v):
            self.v = v

        def __str__(self):
            return self.v

    encs = ["utf8", "utf_8", "latin1", "cp1251", "ascii", "shift_jis"]

    def check_dec(args):
        enc, s, kind = args
        try:
            _check_dec(enc, s, kind)
        except Failure as f:
            f.case = {"filter": "decode." + enc, "kind": kind, "text": [ord(c) for c in s]}
            raise

    def _check_dec(enc, s, kind):
        if kind == "str":
            check_decode(F, enc, s, s)
        elif kind == "bytes":
            try:
                b = s.encode(enc)
            except UnicodeEncodeError:
                ev.rejected += 1
                return
            check_decode(F, enc, b, s)
        elif kind == "int":
            n_ = len(s)
            check_decode(F, enc, n_, str(n_))
        elif kind == "none":
            check_decode(F, enc, None, "None")
        else:
            check_decode(F, enc, Obj(s), s)
        ev.case(key=("decode", enc, s, kind), nontrivial=kind != "str", labels=("decode/" + kind,))

    f2, _ = core.hyp_search(
        st.tuples(st.sampled_from(encs), st.text(uni, max_size=8), st.sampled_from(["str", "bytes", "int", "none", "obj"])),
        check_dec, ev, seed + 1, max(50, n // 4))
    return ev, fails + f2


# ---- target charsets that are not stateless ASCII supersets: stateful ISO-2022 / HZ, EBCDIC, UTF-16 -------------------
EXTRA_CHARSETS = ["iso2022_jp", "iso2022_kr", "hz", "cp037", "cp500", "utf-16", "utf-16-le", "utf-32"]
EXTRA_ALPHA = ["日", "本", "한", "é", "€", "я", "a", "<", "&", ";", "\U0001f600"]


def check_handler_text(s, cs, out, via):
    """oracle for charsets whose bytes are not a per-character concatenation: the output decodes in that charset to the
    input with each unencodable character replaced by a reference that decodes back to it"""
    name = "htmlentityreplace/%s/%s" % (cs, via)
    if not isinstance(out, bytes):
        raise fail(name, s, "result is %r, not bytes" % type(out), "handler:type")
    try:
        text = out.decode(cs)
    except Exception as e:
        raise fail(name, s, "output %r does not decode as %s: %r" % (out, cs, e), "handler:output-undecodable")
    pos = 0
    nontrivial = False
    for c in s:
        try:
            ok = c.encode(cs).decode(cs) == c
        except UnicodeError:
            ok = False
        if ok:
            if text[pos:pos + 1] != c:
                raise fail(name, s, "decoded output %r: expected %r at %d" % (text, c, pos), "handler:wrong-text")
            pos += 1
        else:
            nontrivial = True
            m = REF.match(text, pos)
            if not m or decode_ref(m.group(0)) != c:
                raise fail(name, s, "decoded output %r: expected a reference to %r at %d" % (text, c, pos), "handler:no-reference")
            pos = m.end()
    if pos != len(text):
        raise fail(name, s, "decoded output %r has trailing text %r" % (text, text[pos:]), "handler:trailing")
    return nontrivial


def shard_extra_charsets(task):
    cs, n = task
    core.setup_repo()
    from mako.template import Template

    _filters()  # registers the error handler
    ev = core.Evidence()
    fails = {}
    t = Template("${v}", output_encoding=cs, encoding_errors="htmlentityreplace", default_filters=[])
    for k in range(1, n + 1):
        for i, tup in enumerate(itertools.product(EXTRA_ALPHA, repeat=k)):
            s = "".join(tup)
            try:
                try:
                    out = s.encode(cs, "htmlentityreplace")
                except Exception as e:
                    raise fail("htmlentityreplace/%s/encode" % cs, s, "raised %r" % e, "handler:raised")
                nt = check_handler_text(s, cs, out, "encode")
                if i % 5 == 0:
                    try:
                        out2 = t.render(v=s)
                    except Exception as e:
                        raise fail("htmlentityreplace/%s/template" % cs, s, "raised %r" % e, "handler:raised")
                    check_handler_text(s, cs, out2, "template")
                ev.evaluations += 1
                ev.labels["handler-text/" + cs] += 1
                if nt:
                    ev.distinct_extra += 1
            except Failure as f:
                fails.setdefault(f.key, f)
    ev.sample({"filter": "htmlentityreplace", "charset": cs, "input": "日本é"}, "extra-" + cs)
    return ev, list(fails.values())


def run(ctx):
    ev = ctx.ev
    # (1) code points
    if ctx.quick:
        tasks = [(0, 0x3000, 0x3000, 1)]
        step = (0x110000 - 0x3000) // 15 + 1
        tasks += [(lo, min(lo + step, 0x110000), 0, 37) for lo in range(0x3000, 0x110000, step)]
    else:
        step = 0x110000 // 64
        tasks = [(lo, min(lo + step, 0x110000), 0x110000, 1) for lo in range(0, 0x110000, step)]
    ctx.pmap(shard_codepoints, tasks)
    # (2) all strings len<=3 over ALPHA
    ctx.pmap(shard_short_strings, [(1, 0, 1), (2, 0, 1)] + [(3, i, 8) for i in range(8)])
    ctx.pmap(shard_long_strings, [0])
    ctx.pmap(shard_extra_charsets, [(cs, ctx.pick(3, 4)) for cs in EXTRA_CHARSETS])
    # (3) random
    n = ctx.pick(400, 6000)
    ctx.pmap(shard_random, [(ctx.shard_seed(i), n) for i in range(ctx.pick(4, 16))])
    # the sweeps enumerate each (filter, input) once, so their non-trivial count is distinct by construction
    ev.notes["sweep_distinct_nontrivial"] = ev.distinct_extra
    ev.notes["random_distinct_nontrivial"] = len(ev.nontrivial)
    ev.exhaustive = not ctx.quick
    ev.notes["exhaustive_domains"] = (
        "strings of length<=3 over the 14-char alphabet (both tiers); all code points (thorough only)")


def classify(f):
    if f.key.startswith("handler:") and "b'" in f.detail:
        return "C10-handler-str-of-bytes"
    return None


class _Obj:
    def __init__(self, v):
        self.v = v

    def __str__(self):
        return self.v


def replay_decode(F, case):
    enc = case["filter"].split(".", 1)[1]
    s = "".join(chr(c) for c in case["text"])
    kind = case["kind"]
    try:
        if kind == "str":
            check_decode(F, enc, s, s)
        elif kind == "bytes":
            check_decode(F, enc, s.encode(enc), s)
        elif kind == "int":
            check_decode(F, enc, len(s), str(len(s)))
        elif kind == "none":
            check_decode(F, enc, None, "None")
        else:
            check_decode(F, enc, _Obj(s), s)
    except Failure as f:
        f.case = case
        return f
    return None


def replay(case):
    core.setup_repo()
    F = _filters()
    if case.get("filter", "").startswith("decode.") and "kind" in case:
        return replay_decode(F, case)
    s = case["input"]
    if isinstance(s, list):
        s = "".join(chr(c) for c in s)
    ev = core.Evidence()
    filt = case["filter"]
    try:
        if filt.startswith("decode."):
            return None
        parts = filt.split("/")
        if parts[0] == "htmlentityreplace" and len(parts) == 3 and parts[1] in EXTRA_CHARSETS:
            from mako.template import Template

            cs = parts[1]
            check_handler_text(s, cs, s.encode(cs, "htmlentityreplace"), "encode")
            t = Template("${v}", output_encoding=cs, encoding_errors="htmlentityreplace", default_filters=[])
            check_handler_text(s, cs, t.render(v=s), "template")
            return None
        check_all_str(F, s, ev, with_template=True)
    except Failure as f:
        return f
    return None

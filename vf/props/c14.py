"""C14 - lookup serves fresh, stable, correctly prioritised templates over time.

Domain : histories (<= 40 ops) of {advance clock, write / delete / break / make-unreadable / fix a template file
         in directory i, get_template, has_template, put_string, put_template (of a text template, or of a
         file-backed Template under an alias URI), render} over 1..3 directories
         and 8 URIs on a simulated whole-second clock (vf.gen.fsim), x filesystem_checks on/off x
         collection_size in {-1,1,2,4} x module_directory on/off.  Driven by a hypothesis
         RuleBasedStateMachine; every op is recorded as plain data, the replay re-executes the list.
Oracle : a model of the files, of the cache and (when a module directory is used) of the module files,
         written from the property statement.  For every get_template it yields a list of *acceptable
         outcomes*: SAME (the cached object, no Template construction), LOAD(dir, version) (a new object
         whose .filename lies in `dir` and which renders that version), or an exception class.  One
         acceptable outcome = a MUST verdict, several = EITHER (the model then adopts what it observed).
"""
import os
import shutil
import time

from vf import core
from vf.core import Failure

PID = "C14"
LEVEL = "exploration"
RULE = (
    "case = (configuration, op list <= 40) drawn by a hypothesis rule-based state machine whose rules pick URIs and "
    "files with knowledge of the model state (existing files, cached URIs, the URI touched last); configuration = "
    "filesystem_checks x collection_size {-1,1,2,4} x module_directory (one shard per combination, exhaustive) x "
    "1..3 directories x hot-URI-set size. non-trivial = the history contains (a) a modification of a template file "
    "after it was loaded through the lookup followed by a fetch of that URI, or (b) an LRU eviction, or (c) a "
    "failed load (compile error / unreadable) followed by a fix and a successful load of the same URI, or (d) a "
    "file-backed Template registered with put_template under an alias URI whose source file is modified later and "
    "which is then fetched at least twice (reload + same object); distinct by hash of (configuration, op list)."
)
ASSUMPTIONS = [
    "time is the simulated whole-second clock of vf.gen.fsim (mako.codegen.time, mako.util.timeit, os.utime mtimes, "
    "module files re-stamped after shutil.move); ops are atomic, the clock never ticks inside an op",
    "'unreadable' = util.read_file/open raise PermissionError for the path while os.stat/isfile succeed",
    "single thread (concurrency is C16); templates have no include/inherit/namespace edges (C07)",
    "where the statement is silent the model accepts several outcomes instead of guessing: change within the "
    "second of the compile; a file of the same URI changed in another directory while the URI is cached; a module "
    "file whose generation second equals the source's mtime second (module staleness proper is C15; a module "
    "generated from ANOTHER directory's file and newer than the file being loaded is NOT excused, see STRICT_XDIR); "
    "permission flips; which exception class an unreadable file raises (OSError or TemplateLookupException); LRU "
    "eviction of a put_string/put_template entry (the statement bounds the cache including such entries, so the "
    "entry is gone afterwards - counted under event:put_entry_evicted)",
    "LRU recency of put_string/put_template over an existing key is taken as either the old or the new stamp",
    "put_template of a file-backed Template (op put_file): the entry's source file is the template's filename, "
    "independent of the directory search for the alias URI; staleness / vanished / failed-compile rules are those "
    "of directory-loaded entries, a reload must come from that file (no re-scan alternative) and, like every "
    "template loaded by the lookup, carry uri == the requested URI (usage.rst); once dropped, the alias URI is "
    "resolved by directory search again; the put Template is built in memory (no module_directory of its own)",
]

NURI = 8
# (two names merely CONTAIN two dots: they are ordinary file names below the root)
URI_TAILS = ["/u0.html", "/u1..v2.html", "/u2.html", "/u3.txt", "/s/u4.html", "/s/u5..txt", "/s/t/u6.html", "/s/t/u7.html"]
DIR_NAMES = ["d0", "dir1_with_a_longer_name", "d2x"]  # configured order is what counts, whatever the names look like
MAXOPS = 40
CHUNK = 50  # machines per hypothesis run
CSIZES = [-1, 1, 2, 4]
CONFIGS = [(fs, cs, md) for fs in (True, False) for cs in CSIZES for md in (False, True)]  # 16

GOOD_KINDS = 3
BROKEN_KINDS = 3

# A module file is addressed by URI only, so two directories holding the same URI share one module file.  When the
# file now being loaded lies in another directory than the one the module was generated from and is strictly older
# than the module, the statement's "served from the first configured directory that contains it" admits no excuse
# (no same-second ambiguity): serving the module's content is reported under its own key.
STRICT_XDIR = True
XDIR_KEY = "priority:module-of-other-directory"
XDIR_ID = "C14-module-file-shared-across-directories"


def good_text(kind, tok):
    if kind == 0:
        return "%s\n" % tok
    if kind == 1:
        return "${'%s'}\n" % tok
    return "<%%def name='f()'>%s</%%def>${f()}\n" % tok


def rendered(tok):
    return "%s\n" % tok


def broken_text(kind, tok):
    if kind == 0:
        return "%s ${ 1 + }\n" % tok
    if kind == 1:
        return "%% if x:\n%s\n" % tok
    return "%s <%%def>x</%%def>\n" % tok


class Violation(AssertionError):
    """An oracle miss; carries the replay case."""

    def __init__(self, key, detail, case=None):
        super().__init__(detail)
        self.key = key
        self.detail = detail
        self.case = case


_world_counter = [0]


class FileM:
    __slots__ = ("ver", "mtime", "broken", "unreadable", "text")

    def __init__(self, ver, mtime, broken, text):
        self.ver = ver  # version token; None for a broken file
        self.mtime = mtime
        self.broken = broken
        self.unreadable = False
        self.text = text


class Entry:
    __slots__ = ("obj", "kind", "origin", "ver", "c_lo", "c_hi", "rec_lo", "rec_hi", "dirty", "identity", "alias",
                 "reloaded", "fetches_since_reload")

    def __init__(self, obj, kind, origin, ver, c_lo, c_hi, rec_lo, rec_hi):
        self.obj = obj
        self.kind = kind  # "file" (has a source file: staleness rules apply) | "put" (text only)
        self.origin = origin  # file key (directory index, URI index of the FILE) or None
        self.ver = ver
        self.c_lo = c_lo  # the compile moment lies in [c_lo, c_hi]
        self.c_hi = c_hi
        self.rec_lo = rec_lo  # last fetch (model op index) lies in [rec_lo, rec_hi]
        self.rec_hi = rec_hi
        self.dirty = False  # something about this URI changed on disk since the last fetch
        self.identity = False  # put_template: the very object must come back
        # alias = the entry stems from put_template(uri, <file-backed Template>): its source file is given
        # explicitly and is independent of the directory search for `uri` (uri may differ from the file's own URI)
        self.alias = False
        self.reloaded = False  # alias entry produced by a reload through the lookup (not the object that was put)
        self.fetches_since_reload = 0


SAME = ("same",)


class World:
    """The real lookup + the reference model, advanced op by op.  No hypothesis in here."""

    def __init__(self, cfg, known_ids=()):
        self.cfg = dict(cfg)
        self.known_ids = set(known_ids)
        self.excluded = {}
        self.ndirs = cfg["ndirs"]
        self.fs_checks = bool(cfg["fs"])
        self.csize = cfg["cs"]
        self.moddir = bool(cfg["md"])
        self.ops = []
        self.files = {}  # (d, u) -> FileM
        self.cache = {}  # u -> Entry
        self.mods = {}  # u -> (gen_time, ver, file key the module was generated from)
        self.handles = []  # [(Template, expected output)]
        self.vcount = 0
        self.tick = 0
        self.labels = []
        self.nt = set()
        self.failed_uris = {}  # u -> stage: "failed" -> "fixed"
        self.last_uri = 0
        self.dead = False
        self._open = False
        self._paths = None

    # -- set-up / tear-down ---------------------------------------------
    def open(self):
        core.setup_repo()
        import mako.lookup
        from mako import exceptions
        from mako.template import Template

        from vf.gen import fsim

        self.exceptions = exceptions
        self.RealTemplate = Template
        self.root = core.tmp_root()
        _world_counter[0] += 1
        self.prefix = "/c%d" % _world_counter[0]
        self.uris = [self.prefix + t for t in URI_TAILS]
        self.dirs = [os.path.join(self.root, DIR_NAMES[i]) for i in range(self.ndirs)]
        for d in self.dirs:
            os.makedirs(d)
        self.sim = fsim.Sim()
        self.sim.install()
        self.counter = fsim.Counter(mako.lookup, "Template")
        self.counter.__enter__()
        self._open = True
        kw = {}
        if self.moddir:
            self.modroot = os.path.join(self.root, "mod")
            kw["module_directory"] = self.modroot
        self.lookup = mako.lookup.TemplateLookup(
            directories=list(self.dirs),
            filesystem_checks=self.fs_checks,
            collection_size=self.csize,
            **kw,
        )
        return self

    def close(self):
        if not self._open:
            return
        self._open = False
        try:
            self.counter.__exit__()
        finally:
            self.sim.uninstall()
            import shutil

            shutil.rmtree(self.root, ignore_errors=True)
            try:
                core._tmp_roots.remove((os.getpid(), self.root))
            except ValueError:
                pass

    def __enter__(self):
        return self.open()

    def __exit__(self, *a):
        self.close()

    # -- helpers ----------------------------------------------------------
    def path(self, d, u):
        return os.path.join(self.dirs[d], self.uris[u].lstrip("/"))

    def key_of(self, filename):
        """file key (d, u) of a managed template path, else None"""
        if filename is None:
            return None
        if self._paths is None:
            self._paths = {os.path.normpath(self.path(d, u)): (d, u) for d in range(self.ndirs) for u in range(NURI)}
        return self._paths.get(os.path.normpath(filename))

    def first_dir(self, u):
        for d in range(self.ndirs):
            if (d, u) in self.files:
                return d
        return None

    def label(self, l):
        self.labels.append(l)

    def violation(self, key, detail):
        case = {"cfg": self.cfg, "ops": [list(o) for o in self.ops]}
        return Violation(key, "op #%d %r: %s" % (len(self.ops) - 1, self.ops[-1] if self.ops else None, detail), case)

    def touch(self, d, u):
        """file (d, u) changed: concerns the entry cached under URI u and every entry whose source file it is"""
        for cu, e in self.cache.items():
            if cu == u or (e.kind == "file" and e.origin == (d, u)):
                e.dirty = True

    def new_token(self, d, u):
        self.vcount += 1
        return "d%su%dv%d" % (d, u, self.vcount)

    # -- the op interpreter -------------------------------------------------
    def apply(self, op):
        """Execute one op on the real lookup and on the model; raises Violation on an oracle miss."""
        if self.dead:
            return
        op = list(op)
        self.ops.append(op)
        self.tick += 1
        kind = op[0]
        self.label("op:" + kind)
        getattr(self, "op_" + kind)(*op[1:])
        self.check_lru()

    # file-system ops (harness side; no mako call)
    def op_advance(self, k):
        self.sim.advance(k)

    def _put_file(self, d, u, text, ver, broken):
        d %= self.ndirs
        p = self.path(d, u)
        self.sim.set_unreadable(p, False)
        if os.path.isfile(self.dirs[d]):  # the directory was replaced by a plain file (op_dirfile): put a directory back
            os.remove(self.dirs[d])
        self.sim.write(p, text)
        for e in self.cache.values():
            if e.kind == "file" and e.origin == (d, u) and not e.dirty:
                self.label("event:modify-loaded-file")
                if e.alias:
                    self.label("event:modify-alias-source")
        self.files[(d, u)] = FileM(ver, self.sim.now, broken, text)
        self.touch(d, u)
        self.last_uri = u
        if self.failed_uris.get(u) == "failed" and not broken:
            self.failed_uris[u] = "fixed"

    def op_write(self, d, u, ck):
        d %= self.ndirs
        tok = self.new_token(d, u)
        self._put_file(d, u, good_text(ck % GOOD_KINDS, tok), tok, False)

    def op_break(self, d, u, bk):
        d %= self.ndirs
        tok = self.new_token(d, u)
        self._put_file(d, u, broken_text(bk % BROKEN_KINDS, tok), None, True)

    def op_delete(self, d, u):
        d %= self.ndirs
        if (d, u) not in self.files:
            self.label("noop")
            return
        self.sim.remove(self.path(d, u))
        del self.files[(d, u)]
        self.touch(d, u)
        self.last_uri = u

    def op_dirfile(self, d):
        """The whole lookup directory d is replaced by a plain file: every template in it is gone, and os.stat of a path below it
        fails with NotADirectoryError instead of FileNotFoundError - a vanished source all the same."""
        d %= self.ndirs
        gone = sorted(k for k in self.files if k[0] == d)
        if not gone or os.path.isfile(self.dirs[d]):
            self.label("noop")
            return
        for k in gone:
            self.sim.unreadable.discard(os.path.normpath(os.path.abspath(self.path(*k))))
        shutil.rmtree(self.dirs[d])
        with open(self.dirs[d], "w") as fh:
            fh.write("not a directory")
        for (dd, u) in gone:
            del self.files[(dd, u)]
            self.touch(dd, u)
            self.last_uri = u
        self.label("event:dir-replaced-by-file")

    def op_unreadable(self, d, u):
        d %= self.ndirs
        f = self.files.get((d, u))
        if f is None or f.unreadable:
            self.label("noop")
            return
        f.unreadable = True
        self.sim.set_unreadable(self.path(d, u), True)
        self.touch(d, u)
        self.last_uri = u

    def op_fix(self, d, u):
        d %= self.ndirs
        f = self.files.get((d, u))
        if f is None or not (f.unreadable or f.broken):
            self.label("noop")
            return
        if f.unreadable:  # chmod back: content and mtime stay
            f.unreadable = False
            self.sim.set_unreadable(self.path(d, u), False)
            self.touch(d, u)
            self.last_uri = u
            if self.failed_uris.get(u) == "failed" and not f.broken:
                self.failed_uris[u] = "fixed"
        if f.broken:
            tok = self.new_token(d, u)
            self._put_file(d, u, good_text(self.vcount % GOOD_KINDS, tok), tok, False)

    # -- prediction ---------------------------------------------------------
    def load_alts(self, fk, u):
        """Acceptable outcomes of constructing a Template for the file with key fk under URI u now."""
        f = self.files[fk]
        now = self.sim.now
        if f.unreadable:
            fresh = [("raise", "os")]
        elif f.broken:
            fresh = [("raise", "compile")]
        else:
            fresh = [("ok", fk, f.ver, now, now, True, None)]
        if not self.moddir:
            return fresh
        m = self.mods.get(u)
        if m is None or m[0] < f.mtime:
            return fresh  # module absent or older than the source: it must be regenerated
        # A module file not older than the source exists.
        from_module = ("ok", fk, m[1], m[0], now, False, None)
        if m[1] == f.ver:
            # generated from exactly this file content: it is the compiled form of the file
            return [from_module] + (fresh if f.unreadable else [])
        if STRICT_XDIR and m[2] != fk and f.mtime < m[0]:
            # generated from ANOTHER file (other directory / other source), and this file is strictly older than the module (it
            # did not change in the module's second): must be served from this directory.  The module's content
            # is recognised (tag) so that it gets its own key, but it is not acceptable.
            return fresh + [("ok", fk, m[1], m[0], now, False, "xdir")]
        # rewritten within the second the module was generated in: the statement does not say which one is served
        return [from_module] + fresh

    def predict(self, u):
        e = self.cache.get(u)
        if e is None:
            d = self.first_dir(u)
            if d is None:
                return [("raise", "toplevel")], "toplevel"
            return self.load_alts((d, u), u), "load-uncached"
        if e.kind == "put":
            return [SAME], "same-put"
        if not self.fs_checks:
            return [SAME], "same-nochecks"
        f = self.files.get(e.origin)
        if f is None:
            return [("raise", "vanished")], "vanished"
        reload_ = list(self.load_alts(e.origin, u))
        first = self.first_dir(u)
        if not e.alias and (first, u) != e.origin:
            # a reload that re-scans the directories is not excluded by the statement (an alias entry names its
            # source file explicitly: no directory search applies while it is cached)
            reload_ += [a for a in self.load_alts((first, u), u) if a not in reload_]
        if f.mtime >= e.c_hi + 1:
            if not e.dirty:
                raise core.HarnessError("model: file newer than the cached compile but nothing changed since last fetch")
            return reload_, "fresh"
        if e.dirty:
            return [SAME] + reload_, "either"
        return [SAME], "same"

    def exc_matches(self, what, exc):
        X = self.exceptions
        if what == "toplevel":
            return type(exc) is X.TopLevelLookupException
        if what == "vanished":
            return isinstance(exc, X.TemplateLookupException)
        if what == "compile":
            return isinstance(exc, (X.CompileException, X.SyntaxException))
        if what == "os":
            # the statement names no class for an unreadable file; an uncached load lets the PermissionError
            # through, a reload through _check reports it as TemplateLookupException (cause = the OSError)
            return isinstance(exc, (OSError, X.TemplateLookupException))
        raise core.HarnessError(what)

    @staticmethod
    def show_alts(alts):
        out = []
        for a in alts:
            if a == SAME:
                out.append("SAME-OBJECT(no recompile)")
            elif a[0] == "raise":
                out.append({"toplevel": "TopLevelLookupException", "vanished": "TemplateLookupException",
                            "compile": "CompileException|SyntaxException", "os": "OSError|TemplateLookupException"}[a[1]])
            elif a[6] is None:
                out.append("LOAD(dir %d file %s, version %s%s)" % (a[1][0], URI_TAILS[a[1][1]], a[2], "" if a[5] else ", from module file"))
        return " | ".join(out)

    # -- fetch ops -----------------------------------------------------------
    def fetch(self, u, via_has=False):
        alts, verdict = self.predict(u)
        e = self.cache.get(u)
        self.label("verdict:" + verdict)
        if e is not None and e.kind == "file" and e.dirty:
            self.nt.add("modified-after-load-then-fetch")
        self.last_uri = u
        uri = self.uris[u]
        n0 = self.counter.n
        t = exc = None
        has_result = None
        if via_has:
            captured = {}
            real_get = self.lookup.get_template

            def capturing(uri_, *a, **kw):
                try:
                    r = real_get(uri_, *a, **kw)
                except BaseException as ex:
                    captured["exc"] = ex
                    raise
                captured["t"] = r
                return r

            self.lookup.get_template = capturing
            try:
                try:
                    has_result = self.lookup.has_template(uri)
                except Exception as ex:
                    has_result = ex
            finally:
                del self.lookup.get_template
            t, exc = captured.get("t"), captured.get("exc")
            if t is None and exc is None:
                raise self.violation("has_template", "has_template did not consult get_template; result %r" % (has_result,))
        else:
            try:
                t = self.lookup.get_template(uri)
            except Exception as ex:
                exc = ex
        delta = self.counter.n - n0
        exp = self.show_alts(alts)

        if exc is not None:
            matched = [a for a in alts if a[0] == "raise" and self.exc_matches(a[1], exc)]
            if not matched:
                k = "exception"
                if verdict in ("same", "same-put", "same-nochecks"):
                    k = "same-object"
                raise self.violation(k, "expected %s; observed exception %s: %s" % (exp, type(exc).__name__, str(exc)[:200]))
            what = matched[0][1]
            self.label("outcome:raise-" + what)
            self.cache.pop(u, None)
            if what in ("compile", "os"):
                self.failed_uris[u] = "failed"
            if via_has:
                if what in ("toplevel", "vanished"):
                    if has_result is not False:
                        raise self.violation("has_template", "expected False (%s); observed %r" % (exp, has_result))
                elif not (has_result is False or has_result is exc):
                    raise self.violation("has_template", "expected False or the %s to propagate; observed %r" % (type(exc).__name__, has_result))
            return None

        # a Template came back
        if via_has and has_result is not True:
            raise self.violation("has_template", "get_template returned a template but has_template gave %r" % (has_result,))
        if e is not None and e.obj is not None and t is e.obj:
            if SAME not in alts:
                raise self.violation("stale", "expected %s; observed the cached object (compiled at %s..%s, file mtime %s, now %s)"
                                     % (exp, e.c_lo, e.c_hi, getattr(self.files.get(e.origin), "mtime", None), self.sim.now))
            if delta != 0:
                raise self.violation("same-object", "the cached object came back but %d Template construction(s) happened" % delta)
            self.label("outcome:same")
            if len(alts) > 1:
                self.label("event:either-resolved-same")
            if e.alias:
                self.label("outcome:alias-same")
                if e.reloaded:
                    e.fetches_since_reload += 1
                    self.label("event:alias-same-object-after-reload")
                    self.nt.add("alias-source-modified-then-2-fetches")
            e.dirty = False
            e.rec_lo = e.rec_hi = self.tick
            self.hold(t, None)
            return t
        if e is not None and e.kind == "put" and e.obj is None:
            # first fetch after put_string: learn the object
            out = self.render(t)
            if t.filename is not None or out != rendered(e.ver):
                raise self.violation("put", "expected the put_string entry %s; observed filename=%r output=%r" % (e.ver, t.filename, out))
            e.obj = t
            e.rec_lo = e.rec_hi = self.tick
            self.label("outcome:same")
            self.hold(t, out)
            return t
        oks = [a for a in alts if a[0] == "ok"]
        if not oks:
            if alts == [SAME]:
                key = "put" if (e is not None and e.kind == "put") else "same-object"
                raise self.violation(key, "expected %s; observed a different Template object (%d construction(s), filename=%r)"
                                     % (exp, delta, t.filename))
            raise self.violation("exception", "expected %s; observed a Template (filename=%r)" % (exp, t.filename))
        out = self.render(t)
        fk = self.key_of(t.filename)
        cand = [a for a in oks if a[1] == fk and rendered(a[2]) == out]
        if not cand:
            if SAME in alts and len(alts) == 1:
                key = "same-object"
            elif fk is not None and fk not in [a[1] for a in oks]:
                key = "priority"
            elif verdict in ("fresh", "either"):
                key = "stale"
            else:
                key = "content"
            raise self.violation(key, "expected %s; observed new Template filename=%r rendering %r" % (exp, t.filename, out))
        a = cand[0]
        if a[6] == "xdir":
            m = self.mods[u]
            if XDIR_ID in self.known_ids:
                self.excluded[XDIR_ID] = self.excluded.get(XDIR_ID, 0) + 1
                self.label("event:known-xdir-module-served")
            else:
                raise self.violation(XDIR_KEY, "expected %s; observed a Template with filename=%r rendering %r = the content "
                                     "of file %r, kept in the module file generated at %s (this file: mtime %s, "
                                     "unchanged since before that)" % (exp, t.filename, out, m[2], m[0], self.files[a[1]].mtime))
        if a[5]:
            self.label("outcome:load-compiled")
            if self.moddir:
                self.mods[u] = (self.sim.now, a[2], a[1])
        else:
            self.label("outcome:load-from-module")
            if a[2] != self.files[a[1]].ver:
                self.label("event:module-not-older-served-other-content")
        if SAME in alts:
            self.label("event:either-resolved-load")
        if sum(1 for dd in range(self.ndirs) if (dd, u) in self.files) > 1:
            self.label("event:load-with-shadowed-dirs")
        if self.failed_uris.get(u) == "fixed":
            self.nt.add("failed-load-then-fix-then-load")
            self.failed_uris.pop(u)
        if getattr(t, "uri", None) != uri:
            # usage.rst: the lookup "will also assign a uri property to the Template which is the URI passed to
            # the get_template() call"
            raise self.violation("uri", "a template loaded for URI %r carries uri=%r" % (uri, getattr(t, "uri", None)))
        ne = Entry(t, "file", a[1], a[2], a[3], a[4], self.tick, self.tick)
        if e is not None and e.alias and a[1] == e.origin:
            # the alias entry was reloaded from its explicit source file: it stays an alias entry
            ne.alias = True
            ne.reloaded = True
            self.label("outcome:alias-reloaded")
        self.cache[u] = ne
        self.hold(t, out)
        return t

    def render(self, t):
        try:
            return t.render()
        except Exception as ex:
            raise self.violation("render", "rendering the returned template raised %s: %s" % (type(ex).__name__, str(ex)[:200]))

    def hold(self, t, out):
        if len(self.handles) >= 24:
            return
        for h in self.handles:
            if h[0] is t:
                return
        if out is None:
            out = self.render(t)
        self.handles.append((t, out))

    def op_get(self, u):
        self.fetch(u)

    def op_has(self, u):
        self.fetch(u, via_has=True)

    def op_render(self, h):
        if not self.handles:
            self.label("noop")
            return
        t, out = self.handles[h % len(self.handles)]
        now = self.render(t)
        if now != out:
            raise self.violation("stability", "a Template object that rendered %r now renders %r" % (out, now))

    def _put_entry(self, u, obj, ver, identity):
        old = self.cache.get(u)
        e = Entry(obj, "put", None, ver, self.sim.now, self.sim.now, self.tick, self.tick)
        e.identity = identity
        if old is not None:
            e.rec_lo = old.rec_lo  # an overwrite may or may not count as a fetch
        self.cache[u] = e
        self.last_uri = u

    def op_put_string(self, u, ck):
        self.vcount += 1
        tok = "p%dv%d" % (u, self.vcount)
        try:
            self.lookup.put_string(self.uris[u], good_text(ck % GOOD_KINDS, tok))
        except Exception as ex:
            raise self.violation("put", "put_string raised %s: %s" % (type(ex).__name__, ex))
        self._put_entry(u, None, tok, False)

    def op_put_template(self, u, ck):
        self.vcount += 1
        tok = "t%dv%d" % (u, self.vcount)
        try:
            t = self.RealTemplate(good_text(ck % GOOD_KINDS, tok), uri=self.uris[u])
        except Exception as ex:
            raise self.violation("put", "Template(text, uri=%r) raised %s: %s" % (self.uris[u], type(ex).__name__, ex))
        try:
            self.lookup.put_template(self.uris[u], t)
        except Exception as ex:
            raise self.violation("put", "put_template raised %s: %s" % (type(ex).__name__, ex))
        self._put_entry(u, t, tok, True)

    def op_put_file(self, u, d, fu, mode):
        """put_template(alias URI u, Template(filename=<managed file (d, fu)>)): a file-backed template registered
        under a URI of the caller's choosing (usually not the file's own URI)."""
        d %= self.ndirs
        f = self.files.get((d, fu))
        if f is None or f.broken or f.unreadable:
            self.label("noop")
            return
        kw = {}
        if mode % 2 == 0:
            kw["uri"] = self.uris[fu]  # the template's own uri = the file's natural URI; else derived from the path
        try:
            t = self.RealTemplate(filename=self.path(d, fu), lookup=self.lookup, **kw)
            self.lookup.put_template(self.uris[u], t)
        except Exception as ex:
            raise self.violation("put", "put_template of a file-backed template raised %s: %s" % (type(ex).__name__, ex))
        old = self.cache.get(u)
        e = Entry(t, "file", (d, fu), f.ver, self.sim.now, self.sim.now, self.tick, self.tick)
        e.identity = True
        e.alias = True
        if old is not None:
            e.rec_lo = old.rec_lo
        self.cache[u] = e
        self.last_uri = u
        self.label("alias:own-uri" if u == fu else "alias:other-uri")

    # -- LRU ------------------------------------------------------------------
    def check_lru(self):
        if self.csize == -1:
            return
        n = self.csize
        coll = self.lookup._collection
        real = set(dict.keys(coll))
        if len(real) > 1.5 * n:
            raise self.violation("lru-bound", "collection_size=%d: the cache holds %d templates (> 1.5n)" % (n, len(real)))
        exp = {self.uris[u]: u for u in self.cache}
        gone = [exp[k] for k in exp if k not in real]
        if not gone:
            return
        keep = [exp[k] for k in exp if k in real]
        self.nt.add("eviction")
        self.label("event:eviction")
        desc = "expected-present=%s survivors=%s evicted=%s (last-fetch op index per URI: %s)" % (
            sorted(exp.values()), sorted(keep), sorted(gone),
            {u: (self.cache[u].rec_lo, self.cache[u].rec_hi) for u in sorted(exp.values())})
        if len(keep) < min(n, len(exp)):
            raise self.violation("lru-overevict", "collection_size=%d: %s" % (n, desc))
        for g in gone:
            for k in keep:
                if self.cache[g].rec_lo > self.cache[k].rec_hi:
                    raise self.violation("lru-order", "collection_size=%d: URI %d was evicted although URI %d was fetched less recently; %s"
                                         % (n, g, k, desc))
        for g in gone:
            if self.cache[g].kind == "put":
                self.label("event:put_entry_evicted")
            del self.cache[g]


# ---------------------------------------------------------------------------
def run_case(case, on_world=None):
    """Replay a plain-data case; returns Failure or None."""
    w = World(case["cfg"])
    with w:
        try:
            for op in case["ops"]:
                w.apply(op)
        except Violation as v:
            return Failure(v.case, v.detail, v.key)
        finally:
            if on_world:
                on_world(w)
    return None


def replay(case):
    core.setup_repo()
    return run_case(case)


def minimise(failure):
    """Greedy removal of ops (chunks, then singles) while the same key keeps failing."""
    case = failure.case
    ops = list(case["ops"])
    best = failure

    def still(cand):
        f = run_case({"cfg": case["cfg"], "ops": cand})
        return f if (f is not None and f.key == failure.key) else None

    chunk = max(1, len(ops) // 2)
    while chunk >= 1:
        i = 0
        while i < len(ops):
            cand = ops[:i] + ops[i + chunk:]
            f = still(cand) if cand else None
            if f is not None:
                ops = list(f.case["ops"])  # the replay stops at the failing op: drops the tail too
                best = f
            else:
                i += chunk
        chunk //= 2
    return best


def classify(f):
    if f.key == XDIR_KEY:
        return XDIR_ID
    return None


# ---------------------------------------------------------------------------
def make_machine(base_cfg, ev, known, state):
    from hypothesis import strategies as st
    from hypothesis.stateful import RuleBasedStateMachine, initialize, precondition, rule

    dirs = st.integers(0, 2)
    ck = st.integers(0, GOOD_KINDS - 1)

    class Machine(RuleBasedStateMachine):
        def __init__(self):
            super().__init__()
            self.w = None

        # -- plumbing --
        def do(self, *op):
            w = self.w
            if w is None or w.dead or len(w.ops) >= MAXOPS:
                return
            try:
                w.apply(list(op))
            except Violation as v:
                kid = classify(Failure(v.case, v.detail, v.key))
                if kid is not None and kid in known:
                    ev.excluded_known[kid] += 1
                    w.dead = True
                    return
                raise

        def pick_uri(self, data, mode):
            w = self.w
            hot = w.cfg["hot"]
            pools = {
                "any": list(range(hot)),
                "known": sorted({u for (_, u) in w.files} | {u for u, e in w.cache.items() if e.kind == "file"}),
                "cached": sorted(w.cache),
                "filed": sorted({u for (_, u) in w.files}),
                "last": [w.last_uri],
            }
            pool = pools[mode] or pools["any"]
            return data.draw(st.sampled_from(pool), label="uri")

        def pick_file(self, data, pred):
            w = self.w
            pool = sorted(k for k, f in w.files.items() if pred(k, f))
            return data.draw(st.sampled_from(pool), label="file")

        @initialize(ndirs=st.integers(1, 3), hot=st.sampled_from([2, 3, 4, 6, 8]),
                    pre=st.lists(st.tuples(dirs, st.integers(0, NURI - 1), ck), min_size=2, max_size=6))
        def init(self, ndirs, hot, pre):
            cfg = dict(base_cfg, ndirs=ndirs, hot=hot)
            self.w = World(cfg, known_ids=known).open()
            for d, u, k in pre:
                self.do("write", d % ndirs, u % hot, k)

        # -- rules --
        def cached_files(self):
            w = self.w
            return sorted(u for u, e in w.cache.items() if e.kind == "file" and e.origin in w.files)

        def nput(self):
            return sum(1 for e in self.w.cache.values() if e.kind == "put")

        @rule(k=st.integers(0, 3))
        def advance(self, k):
            self.do("advance", k)

        @rule(data=st.data(), d=dirs, k=ck, mode=st.sampled_from(["any", "any", "known", "last"]))
        def write(self, data, d, k, mode):
            self.do("write", d % self.w.ndirs, self.pick_uri(data, mode), k)

        @precondition(lambda self: self.w is not None and self.cached_files())
        @rule(data=st.data(), k=ck)
        def modify_loaded(self, data, k):
            w = self.w
            u = data.draw(st.sampled_from(self.cached_files()), label="uri")
            d, fu = w.cache[u].origin
            self.do("write", d, fu, k)

        @precondition(lambda self: self.w is not None and self.cached_files())
        @rule(data=st.data(), adv=st.sampled_from([0, 1, 1, 2, 3]), k=ck,
              how=st.sampled_from(["write", "write", "write", "break", "delete", "unreadable", "rewrite-twice"]),
              then=st.sampled_from(["get", "get", "get", "has", "getget"]))
        def edit_cycle(self, data, adv, k, how, then):
            """load happened earlier; now: maybe let time pass, change the loaded file, fetch again"""
            w = self.w
            u = data.draw(st.sampled_from(self.cached_files()), label="uri")
            d, fu = w.cache[u].origin  # the entry's source file (for an alias entry fu != u in general)
            if adv:
                self.do("advance", adv)
            if how == "write":
                self.do("write", d, fu, k)
            elif how == "rewrite-twice":
                self.do("write", d, fu, k)
                self.do("get", u)
                self.do("write", d, fu, k + 1)
            elif how == "break":
                self.do("break", d, fu, k)
            elif how == "delete":
                self.do("delete", d, fu)
            else:
                self.do("unreadable", d, fu)
            self.do("has" if then == "has" else "get", u)
            if then == "getget":
                self.do("get", u)

        @precondition(lambda self: self.w is not None and self.w.ndirs > 1 and self.w.files)
        @rule(data=st.data(), k=ck, then=st.booleans())
        def shadow(self, data, k, then):
            """put the same URI into another directory (higher or lower priority)"""
            w = self.w
            d, u = self.pick_file(data, lambda kk, f: True)
            other = data.draw(st.sampled_from([x for x in range(w.ndirs) if x != d]), label="dir")
            self.do("write", other, u, k)
            if then:
                self.do("get", u)

        @precondition(lambda self: self.w is not None and self.w.files)
        @rule(data=st.data())
        def delete(self, data):
            d, u = self.pick_file(data, lambda k, f: True)
            self.do("delete", d, u)

        @precondition(lambda self: self.w is not None and self.cached_files())
        @rule(data=st.data(), then=st.sampled_from(["get", "get", "get2", "has", ""]))
        def dir_becomes_file(self, data, then):
            """the directory of a cached template is replaced by a plain file (stat fails with ENOTDIR), then the URI is fetched again"""
            u = data.draw(st.sampled_from(self.cached_files()), label="cached uri")
            d = self.w.cache[u].origin[0]
            self.do("dirfile", d)
            if then in ("get", "get2"):
                self.do("get", u)
            if then == "get2":
                self.do("get", u)
            if then == "has":
                self.do("has", u)

        @rule(data=st.data(), d=dirs, k=st.integers(0, BROKEN_KINDS - 1), mode=st.sampled_from(["known", "last", "any"]))
        def break_syntax(self, data, d, k, mode):
            w = self.w
            u = self.pick_uri(data, mode)
            have = [dd for dd in range(w.ndirs) if (dd, u) in w.files]
            if have:
                d = data.draw(st.sampled_from(have), label="dir")
            self.do("break", d % w.ndirs, u, k)

        @precondition(lambda self: self.w is not None and any(not f.unreadable for f in self.w.files.values()))
        @rule(data=st.data())
        def make_unreadable(self, data):
            d, u = self.pick_file(data, lambda k, f: not f.unreadable)
            self.do("unreadable", d, u)

        @precondition(lambda self: self.w is not None and any(f.unreadable or f.broken for f in self.w.files.values()))
        @rule(data=st.data(), adv=st.integers(0, 1), then=st.sampled_from(["", "get", "get", "has"]))
        def fix(self, data, adv, then):
            d, u = self.pick_file(data, lambda k, f: f.unreadable or f.broken)
            if adv:
                self.do("advance", adv)
            self.do("fix", d, u)
            if then:
                self.do(then, u)

        @rule(data=st.data(), mode=st.sampled_from(["any", "known", "filed", "cached", "last"]))
        def get_template(self, data, mode):
            self.do("get", self.pick_uri(data, mode))

        @rule(data=st.data())
        def get_known(self, data):
            self.do("get", self.pick_uri(data, "known"))

        @rule()
        def get_last(self):
            self.do("get", self.w.last_uri)

        @rule(data=st.data())
        def get_filed(self, data):
            self.do("get", self.pick_uri(data, "filed"))

        @precondition(lambda self: self.w is not None and self.w.csize != -1 and len({u for (_, u) in self.w.files}) > 1)
        @rule(data=st.data())
        def get_several(self, data):
            """a run of fetches over distinct URIs (drives LRU recency and eviction)"""
            w = self.w
            pool = sorted({u for (_, u) in w.files} | set(w.cache))
            us = data.draw(st.lists(st.sampled_from(pool), min_size=2, max_size=5), label="uris")
            for u in us:
                self.do("get", u)

        @rule(data=st.data(), mode=st.sampled_from(["any", "known", "filed", "last"]))
        def has_template(self, data, mode):
            self.do("has", self.pick_uri(data, mode))

        @precondition(lambda self: self.w is not None and self.nput() < max(1, self.w.cfg["hot"] // 4))
        @rule(data=st.data(), k=ck, mode=st.sampled_from(["any", "known"]), then=st.booleans())
        def put_string(self, data, k, mode, then):
            u = self.pick_uri(data, mode)
            self.do("put_string", u, k)
            if then:
                self.do("get", u)

        @precondition(lambda self: self.w is not None and self.nput() < max(1, self.w.cfg["hot"] // 4))
        @rule(data=st.data(), k=ck, mode=st.sampled_from(["any", "known"]), then=st.booleans())
        def put_template(self, data, k, mode, then):
            u = self.pick_uri(data, mode)
            self.do("put_template", u, k)
            if then:
                self.do("get", u)

        def good_files(self):
            return sorted(k for k, f in self.w.files.items() if not f.broken and not f.unreadable)

        def nalias(self):
            return sum(1 for e in self.w.cache.values() if e.alias)

        @precondition(lambda self: self.w is not None and self.good_files() and self.nalias() < 2)
        @rule(data=st.data(), alias=st.integers(0, NURI - 1), mode=st.integers(0, 1), then=st.booleans())
        def put_file_template(self, data, alias, mode, then):
            """put_template of a file-backed Template under an alias URI"""
            d, fu = data.draw(st.sampled_from(self.good_files()), label="file")
            self.do("put_file", alias, d, fu, mode)
            if then:
                self.do("get", alias)

        @precondition(lambda self: self.w is not None and self.good_files() and self.nalias() < 2)
        @rule(data=st.data(), alias=st.integers(0, NURI - 1), mode=st.integers(0, 1), pre=st.booleans(),
              adv=st.sampled_from([0, 1, 1, 2, 3]), k=ck,
              how=st.sampled_from(["write", "write", "write", "break", "delete", "unreadable"]),
              fetches=st.lists(st.sampled_from(["get", "get", "has"]), min_size=2, max_size=3))
        def alias_cycle(self, data, alias, mode, pre, adv, k, how, fetches):
            """alias registration, time passes, the source file changes, the alias is fetched repeatedly"""
            d, fu = data.draw(st.sampled_from(self.good_files()), label="file")
            self.do("put_file", alias, d, fu, mode)
            if pre:
                self.do("get", alias)
            if adv:
                self.do("advance", adv)
            if how == "write":
                self.do("write", d, fu, k)
            elif how == "break":
                self.do("break", d, fu, k)
            elif how == "delete":
                self.do("delete", d, fu)
            else:
                self.do("unreadable", d, fu)
            for f in fetches:
                self.do(f, alias)

        @precondition(lambda self: self.w is not None and self.w.handles)
        @rule(h=st.integers(0, 23))
        def render(self, h):
            self.do("render", h)

        def teardown(self):
            w = self.w
            if w is None:
                return
            try:
                record(ev, w, state)
            finally:
                w.close()

    return Machine


def record(ev, w, state):
    cfg = w.cfg
    labels = ["cfg:fs=%d" % cfg["fs"], "cfg:cs=%d" % cfg["cs"], "cfg:md=%d" % cfg["md"], "cfg:ndirs=%d" % cfg["ndirs"],
              "len:<20" if len(w.ops) < 20 else "len:20-40"]
    labels += ["nt:" + x for x in sorted(w.nt)]
    if not w.nt:
        labels.append("nt:none")
    ev.case(key=[cfg, w.ops], nontrivial=bool(w.nt), labels=labels)
    for l in w.labels:
        ev.labels[l] += 1
    for kid, n in w.excluded.items():
        ev.excluded_known[kid] += n
    state["steps"] = state.get("steps", 0) + len(w.ops)
    for x in sorted(w.nt) or ["trivial"]:
        ev.sample({"cfg": cfg, "ops": w.ops, "nontrivial_by": sorted(w.nt)}, x)


def shard(task):
    cfg_i, seed, n, deadline = task
    core.setup_repo()
    import hypothesis
    from hypothesis import HealthCheck, Phase, settings
    from hypothesis.stateful import run_state_machine_as_test

    fs, cs, md = CONFIGS[cfg_i]
    base_cfg = {"fs": int(fs), "cs": cs, "md": int(md)}
    ev = core.Evidence()
    known = core.load_known(PID)
    state = {}
    if deadline is not None and time.time() > deadline:
        ev.notes["shards_not_started_budget"] = 1
        return ev, []
    Machine = make_machine(base_cfg, ev, known, state)
    fails = []
    # The machines of a shard are run in chunks (one hypothesis run each, seeds derived from the shard seed) so that
    # the wall-clock budget can be honoured BETWEEN hypothesis runs - never by raising inside one, which hypothesis
    # would (rightly) report as flaky data generation.
    done = 0
    ci = 0
    while done < n:
        if deadline is not None and time.time() > deadline:
            ev.notes["shards_cut_short_budget"] = 1
            break
        m = min(CHUNK, n - done)
        st_ = settings(
            max_examples=m,
            stateful_step_count=MAXOPS,
            deadline=None,
            database=None,
            derandomize=False,
            report_multiple_bugs=False,
            suppress_health_check=list(HealthCheck),
            phases=[Phase.generate],
            print_blob=False,
            verbosity=hypothesis.Verbosity.quiet,
        )
        try:
            run_state_machine_as_test(hypothesis.seed((seed * 1000003 + ci) % (2 ** 63))(Machine), settings=st_)
        except Violation as v:
            f = Failure(v.case, v.detail, v.key)
            fails.append(minimise(f))
            break
        done += m
        ci += 1
    ev.notes["steps"] = state.get("steps", 0)
    return ev, fails


def run(ctx):
    n = ctx.pick(300, 1200)
    reps = ctx.pick(1, 8)
    # Wall-clock budget (DESIGN 2: "a wall-clock budget ends a tier as 'explored this much', never as a violation").
    # On 16 idle cores the full plan needs ~15 s (quick) / ~6 min (thorough) and the budget is never reached.
    budget = float(os.environ.get("VERIF_C14_BUDGET", ctx.pick(50, 660)))
    deadline = ctx.t0 + budget
    tasks = []
    for r in range(reps):  # repetition-major: every configuration is covered before any gets a second shard
        for fs_first in (True, False):
            for i in range(len(CONFIGS)):
                fs = CONFIGS[i][0]
                if fs != fs_first:
                    continue
                # with filesystem_checks off the freshness dynamics are trivial: half the machines
                tasks.append((i, ctx.shard_seed("%d/%d" % (i, r), "sm"), n if fs else n // 2, deadline))
    ctx.pmap(shard, tasks)
    ctx.ev.notes["wall_budget_s"] = budget
    ctx.ev.notes["label_totals"] = dict(sorted(ctx.ev.labels.items()))
    ctx.ev.notes["machines_per_shard"] = n
    ctx.ev.notes["shards"] = len(tasks)
    ctx.ev.notes["configurations"] = "filesystem_checks x collection_size{-1,1,2,4} x module_directory: all 16, one shard each per repetition"

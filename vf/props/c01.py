"""C01 - literal text and the documented escapes are reproduced exactly; lexing accounts for all
source or raises; lexing time is polynomial.

(a) exhaustive token strings (k<=4 quick / k<=5 thorough over a 28-token alphabet): lexer terminates with
    tree or Syntax/CompileException; tree passes the accounting round trip (vf.gen.account); text-only trees
    render to the concatenation of their Text contents.
(b) hypothesis documents built from (source, expected output) segments: render == expected by construction.
(c) pumped strings p + u*n + s, |string| <= 256: CPU time of one Lexer.parse() under a 2 s budget.
"""
import itertools
import os
import re
import signal
import struct
import time

from vf import core
from vf.core import Failure
from vf.gen import account

PID = "C01"
LEVEL = "exploration"
RULE = (
    "(a) every concatenation of <=k tokens (k=4 quick, 5 thorough) from the 28-token alphabet "
    "<% %> </% ${ } % %% ## \\ LF CRLF CR \" ' | > / < $ # { <%text> </%text> <%doc> </%doc> SP a, each also as "
    "'x'+s+LF in thorough; non-trivial = contains a directive-opening token and is distinct as a string (the sweep "
    "enumerates each token tuple once; distinct strings counted via fingerprints of a 1/16 sample x16 is NOT used: "
    "every non-trivial string's fingerprint is stored). (b) documents of 3-40 segments (arbitrary-Unicode text runs made "
    "directive-free by an explicit sanitiser, %% lines, backslash-newline, ## lines, <%doc>, <%text> with "
    "directive-looking bodies, stray % # $ < \\, well-formed directives with known output) at placement classes "
    "line-start/mid-line/after-continuation/EOF/after-CRLF; non-trivial = >=3 construct kinds and >=1 escape at a "
    "non-default placement. (c) families p+u*n+s over an extended alphabet (quotes, brackets, =, comma, blanks), "
    "n in 4..64 with total length <=256; non-trivial = n>=8."
)
ASSUMPTIONS = [
    "a lone CR does not terminate a %/## line (neither the statement nor the docs say so); such lines are exempt only "
    "from the 'no line-leading % inside literal Text' sub-predicate",
    "time bound: CPU budget (ITIMER_VIRTUAL 2 s per parse of <=256 chars), an empirical budget not a complexity proof",
    "the magic coding comment on line 1 is documented to be skipped and is treated as glue",
]

TOKENS = ["<%", "%>", "</%", "${", "}", "%", "%%", "##", "\\", "\n", "\r\n", "\r", '"', "'", "|", ">", "/", "<",
          "$", "#", "{", "<%text>", "</%text>", "<%doc>", "</%doc>", " ", "a", "# coding:x\n"]
# second alphabet: whitespace characters that are NOT indentation for "%" / "##" lines (only space and tab are), at
# every position where the lexer stands at a line start with or without a text run in progress
TOKENS2 = ["\x0c", "\xa0", "\x0b", "\u2003", "%", "##", "\n", "\\", "a", " ", "\t", "% if 1:\n", "% endif\n", "## c\n"]
OPENERS = {"<%", "</%", "${", "%", "%%", "##", "\\", "<%text>", "<%doc>", "</%text>", "</%doc>"}


def _allowed_exc():
    from mako import exceptions

    return (exceptions.SyntaxException, exceptions.CompileException)


def lex(text):
    """-> (tree, lexer) or raises allowed exceptions; other exceptions become Failure."""
    from mako.lexer import Lexer

    lx = Lexer(text)
    try:
        tree = lx.parse()
    except _allowed_exc():
        raise
    except RecursionError:
        raise
    except Exception as e:
        raise Failure({"part": "a", "text": text}, "Lexer(%r).parse() raised %s: %s" % (text, type(e).__name__, e),
                      "lexer-crash:" + type(e).__name__)
    return tree, lx


def text_only(tree):
    from mako import parsetree

    for node, in_text in account.flatten(tree):
        if isinstance(node, (parsetree.Text, parsetree.Comment)):
            continue
        if isinstance(node, parsetree.TextTag) and not node.attributes:
            continue
        return False
    return True


def check_string(text, ev=None, render=True):
    """Oracle for (a). Returns label."""
    from mako import parsetree
    from mako.template import Template

    try:
        tree, lx = lex(text)
    except _allowed_exc():
        return "rejected"
    try:
        kinds = account.account(lx.text, tree)
    except account.Mismatch as m:
        raise Failure({"part": "a", "text": text}, "source %r: %s" % (text, m.msg), "account:" + m.kind,
                      info={"mismatch": m.kind})
    if render and text_only(tree):
        exp = "".join(n.content for n, _ in account.flatten(tree) if isinstance(n, parsetree.Text))
        try:
            out = Template(text).render_unicode()
        except _allowed_exc():
            return "lexed-not-compiled"
        except Exception as e:
            raise Failure({"part": "a", "text": text}, "render of %r raised %r" % (text, e), "render-crash")
        if out != exp:
            raise Failure({"part": "a", "text": text}, "render of %r gave %r, Text nodes say %r" % (text, out, exp),
                          "render-differs-from-nodes")
        return "rendered"
    return "accounted"


# ---- (a) sweep -----------------------------------------------------------
def shard_sweep(task, TOKENS=TOKENS):
    k, idx, of, wrap = task
    core.setup_repo()
    ev = core.Evidence()
    fails = {}
    for i, tup in enumerate(itertools.product(range(len(TOKENS)), repeat=k)):
        if i % of != idx:
            continue
        s = "".join(TOKENS[j] for j in tup)
        variants = (s, "x" + s + "\n") if wrap else (s,)
        for text in variants:
            try:
                lab = check_string(text)
            except Failure as f:
                lab = "FAIL:" + f.key
                kid = classify(f)
                if kid:
                    ev.excluded_known[kid] += 1
                    fails.setdefault(kid, f)
                else:
                    old = fails.get(f.key)
                    if old is None or len(text) < len(old.case["text"]):
                        fails[f.key] = f
            nt = any(TOKENS[j] in OPENERS for j in tup)
            ev.case(key=text, nontrivial=nt, labels=(lab,))
    if idx == 0:
        ev.sample({"part": "a", "text": s, "result": lab}, "sweep%d" % k)
    return ev, list(fails.values())


def shard_sweep2(task):
    return shard_sweep(task, TOKENS2)


# ---- (b) documents -------------------------------------------------------
SEP = "\u00b7"


class Doc:
    """Builds (source, expected) keeping the source free of accidental directives at junctions."""

    def __init__(self):
        self.src = []
        self.exp = []
        self.kinds = set()
        self.placements = set()
        self.tail = ""  # last few chars of source

    def source(self):
        return "".join(self.src)

    def _emit(self, s, e):
        self.src.append(s)
        self.exp.append(e)
        self.tail = (self.tail + s)[-8:]

    def at_line_start(self):
        return self.tail == "" and not self.src or self.tail.endswith("\n")

    def line_lead(self):
        """True if only whitespace separates the end of source from a line start (or doc start)."""
        s = self.source()
        i = len(s)
        while i > 0 and s[i - 1].isspace() and s[i - 1] != "\n":
            i -= 1
        return i == 0 or s[i - 1] == "\n"

    def placement(self):
        s = self.source()
        if s.endswith("\\\n") or s.endswith("\\\r\n"):
            return "after-continuation"
        if s.endswith("\r\n"):
            return "after-crlf"
        if s == "" or s.endswith("\n"):
            return "line-start"
        return "mid-line"

    def guard(self, nxt):
        """Insert SEP (in source and expected) if tail+nxt would form a directive across the junction."""
        t = self.tail
        if not nxt:
            return
        c = nxt[0]
        bad = (
            (t.endswith("$") and c == "{")
            or (t.endswith("<") and c == "%")
            or (t.endswith("</") and c == "%")
            or (t.endswith("<") and nxt.startswith("/%"))
            or (t.endswith("\\") and c in "\r\n")
            or (t.endswith("\\\r") and c == "\n")
            or (t.endswith("\r") and c == "\n" and False)
            or (t.endswith("#") and c == "#" and self._hash_lead())
        )
        if bad:
            self._emit(SEP, SEP)

    def _hash_lead(self):
        s = self.source()[:-1]
        i = len(s)
        while i > 0 and s[i - 1] in " \t":
            i -= 1
        return i == 0 or s[i - 1] == "\n"

    def text(self, s):
        """Arbitrary text made directive-free against the current tail."""
        out = []
        for ch in s:
            cur = self.tail + "".join(out)
            full_lead = None
            if ch == "%" or ch == "#":
                # whitespace-only since line start?  (uses \s like match_percent, superset of [ \t])
                whole = self.source() + "".join(out)
                i = len(whole)
                while i > 0 and whole[i - 1].isspace() and whole[i - 1] != "\n":
                    i -= 1
                full_lead = i == 0 or whole[i - 1] == "\n"
            if ch == "{" and cur.endswith("$"):
                out.append(SEP)
            elif ch == "%" and (cur.endswith("<") or cur.endswith("</") or full_lead):
                out.append(SEP)
            elif ch == "#" and cur.endswith("#") and self._lead_before_last("".join(out)):
                out.append(SEP)  # a line-leading "##" would be a comment line; a single "#" is plain text
            elif ch in "\r\n" and cur.endswith("\\"):
                out.append(SEP)
            out.append(ch)
        s2 = "".join(out)
        if not self.src and s2.startswith("#"):
            s2 = SEP + s2  # never let line 1 look like a magic coding comment
        if s2:
            self._emit(s2, s2)
            self.kinds.add("text")

    def _lead_before_last(self, out_so_far):
        """is the last character written so far (a '#') preceded only by blanks since the line start?"""
        whole = (self.source() + out_so_far)[:-1]
        i = len(whole)
        while i > 0 and whole[i - 1].isspace() and whole[i - 1] != "\n":
            i -= 1
        return i == 0 or whole[i - 1] == "\n"

    def raw(self, src, exp, kind, line_start=False):
        if line_start and not self.at_line_start():
            self.guard("\n")
            self._emit("\n", "\n")
        self.guard(src)
        if not self.src and src.startswith("#") and not src.startswith("##"):
            self._emit(SEP, SEP)
        pl = self.placement()
        self._emit(src, exp)
        self.kinds.add(kind)
        if kind != "text":
            self.placements.add((kind, pl))


def doc_strategy():
    from hypothesis import strategies as st

    uni = st.characters(blacklist_categories=("Cs",))
    special = st.sampled_from(["\n", "\r\n", "\r", "\x85", "\u2028", "\u2029", "\x0b", "\x0c", "%", "#", "$", "<", "\\",
                               "{", "}", "/", ">", "|", " ", "\t", "'", '"', "\xa0", "é", "\U0001f600", "\x00"])
    textrun = st.lists(st.one_of(uni, special, special, st.text(uni, max_size=4)), min_size=1, max_size=10).map("".join)
    linetext = st.lists(st.one_of(st.characters(blacklist_categories=("Cs",), blacklist_characters="\r\n\\"),
                                  st.sampled_from(["${x}", "<%", "%>", "</%def>", "%", "#", " "])), max_size=12).map("".join)
    nl = st.sampled_from(["\n", "\r\n"])
    ws = st.sampled_from(["", " ", "\t", "  ", " \t "])
    bodytext = st.lists(st.one_of(uni, st.sampled_from(["${x}", "<%", "%>", "</%def>", "% if x:\n", "## c\n", "\\\n", "<%doc>",
                                                         "</%doc>", "<%text>", "\n", "\r\n", "%%", "${", "}"])),
                        min_size=1, max_size=8).map("".join)

    seg = st.one_of(
        st.tuples(st.just("text"), textrun),
        st.tuples(st.just("text"), textrun),
        st.tuples(st.just("percent"), ws, st.integers(0, 2), linetext, nl),
        st.tuples(st.just("continuation"), st.sampled_from(["\\\n", "\\\r\n"])),
        st.tuples(st.just("comment"), ws, ws, linetext, st.sampled_from(["\n", "\r\n", ""])),
        st.tuples(st.just("doc"), bodytext),
        st.tuples(st.just("texttag"), bodytext),
        st.tuples(st.just("emptytext"), st.sampled_from(["<%text/>", "<%text />", "<%text></%text>", "<%doc></%doc>"])),  # (<%doc/> is not a tag)
        st.tuples(st.just("codingline"), st.sampled_from(["# coding: utf-8", "# -*- coding: latin-1 -*-", "#coding=ascii", "# decoding=fast x"]), nl),
        st.tuples(st.just("stray"), st.sampled_from(["%", "#", "##", "$", "<", "\\", "$ {", "< %", "%>", "}", "|", "</", "<\\", "$$",
                                                      "\\\\", "\\n", "%%", "<!", "</ %", "{", "#%", "\\ "])),
        st.tuples(st.just("expr"), st.sampled_from(["'lit'", '"q|}"', "'a' + 'b'", "('x',)[0]", "'\u00e9'", "{'k': 'v}'}['k']"])),
        st.tuples(st.just("code"), st.sampled_from([" pass ", "\n  x = 1\n", " y = '%>' ", "\n# c\n"])),
        st.tuples(st.just("control"), ws, ws, textrun, nl),
        st.tuples(st.just("def"), textrun),
    )
    return st.lists(seg, min_size=3, max_size=40)


EXPR_VAL = {"'lit'": "lit", '"q|}"': "q|}", "'a' + 'b'": "ab", "('x',)[0]": "x", "'\u00e9'": "\u00e9", "{'k': 'v}'}['k']": "v}"}


def build_doc(segs):
    d = Doc()
    ndef = 0
    for i, sg in enumerate(segs):
        kind = sg[0]
        last = i == len(segs) - 1
        if kind == "text":
            d.text(sg[1])
        elif kind == "percent":
            _, ws, extra, rest, nl = sg
            line = Doc()
            line.tail = "%"
            line.src = ["%"]
            line.text(rest)
            rest2 = "".join(line.src[1:])
            d.raw(ws + "%%" + "%" * extra + rest2 + nl, ws + "%" + "%" * extra + rest2 + nl, "percent", line_start=True)
        elif kind == "continuation":
            d.raw(sg[1], "", "continuation")
        elif kind == "comment":
            _, ws1, ws2, body, term = sg
            if not last and term == "":
                term = "\n"
            body = body.rstrip("\\") if body.endswith("\\") else body
            d.raw(ws1 + "##" + ws2 + body + term, "", "comment", line_start=True)
        elif kind == "doc":
            body = sg[1].replace("</%doc>", "</%d0c>")
            d.raw("<%doc>" + body + "</%doc>", "", "doc")
        elif kind == "texttag":
            body = sg[1].replace("</%text>", "</%t3xt>")
            d.raw("<%text>" + body + "</%text>", body, "texttag")
        elif kind == "emptytext":
            # the empty-element spellings of the two verbatim tags produce nothing and end where they are written
            d.raw(sg[1], "", "emptytext")
        elif kind == "codingline":
            # a "# ...coding: x" line is only special as the FIRST line of the template; anywhere else it is plain text
            if not d.src:
                d.raw("first\n", "first\n", "text")
            d.raw(sg[1] + sg[2], sg[1] + sg[2], "codingline", line_start=True)
        elif kind == "stray":
            s = sg[1]
            if s[0] in "%#" and d.line_lead():
                d.raw("x", "x", "text")
            d.raw(s, s, "stray")
            # keep what follows from completing a directive
            d.raw(SEP, SEP, "text")
        elif kind == "expr":
            d.raw("${" + sg[1] + "}", EXPR_VAL[sg[1]], "expr")
        elif kind == "code":
            d.raw("<%" + sg[1] + "%>", "", "code")
        elif kind == "control":
            _, ws1, ws2, body, nl = sg
            inner = Doc()
            inner.tail = "\n"
            inner.src = ["\n"]
            inner.text(body)
            b = "".join(inner.src[1:])
            if b and not b.endswith("\n"):
                if b.endswith("\\") or b.endswith("\r"):
                    b += SEP
                b += nl
            d.raw(ws1 + "%" + ws2 + "if True:" + nl + b + ws1 + "%endif" + nl, b, "control", line_start=True)
        elif kind == "def":
            inner = Doc()
            inner.tail = "x"
            inner.src = ["x"]
            inner.text(sg[1])
            b = "".join(inner.src[1:])
            ndef += 1
            d.raw('<%%def name="d%d()">%s</%%def>' % (ndef, b), "", "def")
    return d


def check_doc(segs, ev):
    from mako.template import Template

    d = build_doc(segs)
    src = d.source()
    exp = "".join(d.exp)
    case = {"part": "b", "source": src, "expected": exp}
    try:
        out = Template(src).render_unicode()
    except Exception as e:
        raise Failure(case, "document %r: render raised %s: %s" % (src, type(e).__name__, str(e)[:300]),
                      "doc-raised:" + type(e).__name__)
    if out != exp:
        raise Failure(case, "document %r rendered %r, expected %r" % (src, out, exp), "doc-output-differs")
    try:
        tree, lx = lex(src)
        account.account(lx.text, tree)
    except account.Mismatch as m:
        raise Failure(case, "document %r: %s" % (src, m.msg), "account:" + m.kind)
    nondefault = [p for p in d.placements if p[1] in ("after-continuation", "after-crlf") or
                  (p[0] in ("stray", "doc", "texttag", "expr", "code", "def", "continuation") and p[1] == "line-start")]
    ends_open = not src.endswith("\n")
    nt = len(d.kinds) >= 3 and (bool(nondefault) or ends_open)
    labels = ["b:" + k for k in sorted(d.kinds)] + ["b:pl:" + p[1] for p in d.placements]
    ev.case(key=src, nontrivial=nt, labels=labels)
    if nt and len(src) < 200:
        ev.sample(case, "doc")


def shard_docs(task):
    seed, n = task
    core.setup_repo()
    ev = core.Evidence()
    fails, known = core.hyp_search(doc_strategy(), lambda segs: check_doc(segs, ev), ev, seed, n,
                                   classify=classify, known=core.load_known(PID))
    return ev, fails + list(known.values())


# ---- (c) pumping ---------------------------------------------------------
PUMP_OPEN = ["", "${", "<%", "<%a", "<%!", "<%a b", "<%doc>", "<%text>", "% if ", "## ", "${a|", '<%a b="', "${'", '${"',
             "<%\n'", "</%", "</%a", "x\n%%", "<%a:b ", '${"""', "<%a b='c' "]
PUMP_TOK = [" ", "\t", "\n", "=", ",", '"', "'", "(", ")", "[", "]", "{", "}", "\\", "a", "#", "%", "<", ">", "|", "$", "/",
            "\r\n", "\\\n", " = ", '""', "''", "\\'", "a=", "${", "<%", "%>", " ,", ", ", " , ", "\t=", "=\n", ",\n", " a", "a ", '" "', "' '"]
PUMP_CLOSE = ["", ">", "}", "%>", "\n", '"', "x", "/>", "!", "\r", "\rb\n"]  # (a lone CR ends no % / ## line)
BUDGET_S = 2.0
SIZES = (4, 8, 16, 32, 64)


def pump_families(quick, seed):
    fams = []
    units = [(t,) for t in PUMP_TOK] + [(a, b) for a in PUMP_TOK for b in PUMP_TOK]
    i = 0
    for p in PUMP_OPEN:
        for u in units:
            for s in PUMP_CLOSE:
                i += 1
                if quick and len(u) == 2 and (i + seed) % 9 != 0:
                    continue
                fams.append((p, "".join(u), s))
    return fams


def pump_strings(fam):
    p, u, s = fam
    out = []
    for n in SIZES:
        t = p + u * n + s
        if len(t) > 256:
            break
        out.append((n, t))
    return out


def _child_pump(fams, wfd):
    from mako.lexer import Lexer
    from mako import exceptions

    w = os.fdopen(wfd, "wb", buffering=0)
    for idx, fam in fams:
        for n, t in pump_strings(fam):
            w.write(struct.pack("<iii", idx, n, -1))  # "starting"
            t0 = time.process_time()
            signal.setitimer(signal.ITIMER_VIRTUAL, BUDGET_S)
            try:
                Lexer(t).parse()
            except (exceptions.MakoException, RecursionError):
                pass
            except Exception:
                pass
            signal.setitimer(signal.ITIMER_VIRTUAL, 0)
            us = int((time.process_time() - t0) * 1e6)
            w.write(struct.pack("<iii", idx, n, us))
    w.close()
    os._exit(0)


def shard_pump(task):
    fams = task
    core.setup_repo()
    ev = core.Evidence()
    fails = {}
    todo = list(enumerate(fams))
    maxus = {}
    while todo:
        r, wfd = os.pipe()
        pid = os.fork()
        if pid == 0:
            os.close(r)
            signal.signal(signal.SIGVTALRM, signal.SIG_DFL)
            try:
                _child_pump(todo, wfd)
            finally:
                os._exit(3)
        os.close(wfd)
        rf = os.fdopen(r, "rb")
        cur = None
        done_idx = -1
        while True:
            rec = rf.read(12)
            if len(rec) < 12:
                break
            idx, n, us = struct.unpack("<iii", rec)
            if us < 0:
                cur = (idx, n)
            else:
                cur = None
                done_idx = idx
                maxus[n] = max(maxus.get(n, 0), us)
                ev.case(key=(fams[idx], n), nontrivial=n >= 8, labels=("c:n=%d" % n,))
        rf.close()
        _, status = os.waitpid(pid, 0)
        if cur is not None:
            idx, n = cur
            fam = fams[idx]
            text = fam[0] + fam[1] * n + fam[2]
            f = Failure({"part": "c", "p": fam[0], "u": fam[1], "s": fam[2], "n": n},
                        "Lexer.parse() of %r + %r*%d + %r (%d chars) exceeded %.1f s CPU (child status %d)"
                        % (fam[0], fam[1], n, fam[2], len(text), BUDGET_S, status), "time:" + _time_key(fam))
            kid = classify(f)
            if kid:
                ev.excluded_known[kid] += 1
            fails.setdefault(kid or f.key, f)
            ev.case(key=(fam, n), nontrivial=True, labels=("c:exceeded",))
            # every further family with the same opener would spend the whole budget again: the opener is reported
            # once and the search moves on to the other openers (on a tree that holds nothing is ever skipped)
            tk = _time_key(fam)
            skipped = [i for i, fm in todo if i > idx and _time_key(fm) == tk]
            ev.notes["pump_families_skipped_after_timeout"] = ev.notes.get("pump_families_skipped_after_timeout", 0) + len(skipped)
            todo = [(i, fm) for i, fm in todo if i > idx and _time_key(fm) != tk]
        else:
            todo = []
    ev.notes["pump_max_cpu_us_by_n"] = maxus
    if fams:
        ev.sample({"part": "c", "family": list(fams[len(fams) // 2]), "sizes": list(SIZES)}, "pump")
    return ev, list(fails.values())


def _time_key(fam):
    p = fam[0]
    if re.match(r"<%[\w.:]", p):
        return "tag-attributes"
    return "other:" + p[:4]


def run(ctx):
    ev = ctx.ev
    part = getattr(ctx, "part", None)
    if part in (None, "a"):
        kmax = ctx.pick(4, 5)
        tasks = []
        for k in range(1, kmax + 1):
            of = 1 if k <= 2 else (16 if k == 3 else (64 if k == 4 else 512))
            tasks += [(k, i, of, not ctx.quick and k <= 4) for i in range(of)]
        ctx.pmap(shard_sweep, tasks)
        ctx.pmap(shard_sweep2, [(k, i, 16 if k >= 4 else 1, False) for k in range(1, ctx.pick(4, 5) + 1) for i in range(16 if k >= 4 else 1)])
        ev.notes["sweep_k"] = kmax
    if part in (None, "b"):
        n = ctx.pick(150, 4000)
        ctx.pmap(shard_docs, [(ctx.shard_seed(i, "b"), n) for i in range(16)])
    if part in (None, "c"):
        fams = pump_families(ctx.quick, ctx.seed)
        nsh = 32
        ctx.pmap(shard_pump, [fams[i::nsh] for i in range(nsh)])
        m = ev.notes.get("pump_max_cpu_us_by_n")
    ev.exhaustive = True
    ev.notes["exhaustive_domains"] = "(a) all token strings with k<=%d" % ctx.pick(4, 5)


def classify(f):
    return None


def replay(case):
    core.setup_repo()
    part = case.get("part")
    try:
        if part == "a":
            check_string(case["text"])
        elif part == "b":
            from mako.template import Template

            src, exp = case["source"], case["expected"]
            try:
                out = Template(src).render_unicode()
            except Exception as e:
                return Failure(case, "document %r: render raised %s: %s" % (src, type(e).__name__, str(e)[:300]),
                               "doc-raised:" + type(e).__name__)
            if out != exp:
                return Failure(case, "document %r rendered %r, expected %r" % (src, out, exp), "doc-output-differs")
            tree, lx = lex(src)
            try:
                account.account(lx.text, tree)
            except account.Mismatch as m:
                return Failure(case, "document %r: %s" % (src, m.msg), "account:" + m.kind)
        elif part == "c":
            fam = (case["p"], case["u"], case["s"])
            ev, fails = shard_pump([fam])
            return fails[0] if fails else None
    except Failure as f:
        return f
    return None

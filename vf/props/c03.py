"""C03 - control lines and Python blocks execute with Python semantics; the `loop` object.

Domain : tgen programs with mask {text, expr, if/elif/else, for/else, while, try/except, with, <% %> blocks,
         anonymous blocks, defs + plain calls, break/continue/return}, depth <= 5, random % indentation, empty and
         comment-only bodies, python blocks at random margins; x enable_loop {True, False, False + <%page enable_loop>}.
Oracle : reference interpreter (vf.gen.tgen.Interp): control constructs interpreted structurally with a lexically
         managed loop object, embedded Python executed natively; outputs or exception types must agree; generated
         module must compile.
"""
from vf import core
from vf.core import Failure
from vf.gen import tgen, tprog, trun

PID = "C03"
LEVEL = "exploration"
RULE = (
    "case = a generated program (IR) + enable_loop mode; hypothesis draws nested control structures (depth<=5) with "
    "random indentation of % lines, empty/comment-only bodies, ternaries, loops over lists/tuples/strings/ranges/dicts/"
    "generators/iterators of length 0..3 with and without `loop` reads (index, first, last, even, odd, reverse_index, "
    "cycle, parent), loops left by exhaustion/break/continue/exception/return, python blocks at margins, defs called "
    "plainly, anonymous blocks. non-trivial = depth>=2 and at least one of {ternary, empty or comment-only body, indented % "
    "line, loop attribute read, abnormal loop exit, return}; distinct by IR fingerprint."
)
ASSUMPTIONS = [
    "`% finally:` is not generated (not in the statement's list; the compiler rejects it)",
    "`loop` is not read inside nested callables (defs/blocks/call bodies) placed in a loop body, nor in a for-else clause",
    "loop.last / reverse_index on an iterable without len() raise TypeError (runtime.rst); the reference does the same",
]
FEATURES = {"control", "py", "loop", "def", "block", "try", "with", "return", "raise", "texttag"}


def strategy():
    from hypothesis import strategies as st

    return st.tuples(
        st.sampled_from(["on", "on", "off", "page"]),
        st.integers(0, 1),
    ).flatmap(lambda m: tprog.programs(FEATURES, enable_loop=(m[0] != "off"), max_depth=4).map(lambda p: {"mode": m[0], "prog": p}))


def check_case(case, ev=None):
    prog = dict(case["prog"], ctl_comments=True)
    mode = case["mode"]
    if mode == "page":
        prog = dict(prog, page='enable_loop="True"')
    src, _ = tgen.emit(prog)
    enabled = mode != "off"
    extra = {} if enabled else {"loop": "LOOPVAR"}
    ref = trun.run_ref(prog, enable_loop=enabled, extra_ctx=extra)
    if ref[0] == "reject":
        if ev is not None:
            ev.rejected += 1
        return
    got = trun.run_mako(src, enable_loop=(mode == "on"), extra_ctx=extra)
    trun.compare(case, ref, got, src)
    if ev is not None:
        f = trun.features_of(prog)
        nt = f["depth"] >= 2 and any(f[k] for k in ("ternary", "empty_body", "indented", "loop_attr", "break", "return"))
        labels = ["mode:" + mode, "outcome:" + ref[0]] + [k for k in ("loop_attr", "empty_body", "break", "return", "try", "with", "py", "def", "block", "ternary") if f[k]]
        labels.append("depth:%d" % min(f["depth"], 6))
        ev.case(key=case, nontrivial=nt, labels=labels)
        if nt and ref[0] == "ok" and len(src) < 700 and f["loop_attr"]:
            ev.sample({"source": src, "mode": mode, "output": ref[1]}, "prog")


def shard(task):
    seed, n = task
    core.setup_repo()
    ev = core.Evidence()
    fails, known = core.hyp_search(strategy(), lambda c: check_case(c, ev), ev, seed, n,
                                   classify=classify, known=core.load_known(PID), shrink=False)
    fails = [trun.minimise(f, check_case) for f in fails]
    return ev, fails + list(known.values())


def run(ctx):
    n = ctx.pick(500, 4000)
    ctx.pmap(shard, [(ctx.shard_seed(i), n) for i in range(16)])


def classify(f):
    return None


def replay(case):
    core.setup_repo()
    try:
        check_case(case)
    except Failure as f:
        return f
    return None

"""C16 - concurrent lookups and renders behave like some sequential execution.

Domain : 2..3 threads x short op lists over one TemplateLookup / one shared Template:
         first-load of one URI, different URIs, modify + get_template racing with get_template, failing compile,
         bounded-size lookup, concurrent renders of one Template with different contexts.
Schedules: the harness owns the schedule (vf.gen.sched): (A) ALL interleavings at coarse points (lookup mutex
         acquire/release, os.stat / os.path.isfile, Template construction) by DFS re-execution; (B) line granularity
         inside mako/lookup.py, mako/util.py (and mako/runtime.py + the generated module for renders) with
         hypothesis-drawn preemption schedules.
Oracle : per call - a fully constructed Template whose version lies between the file version at call start and at
         return; only documented exceptions; no deadlock; simultaneous first requests construct once and share the
         object; every render equals its solo output; bounded lookups within 1.5 n at quiescence.
"""
import itertools
import os
import threading
import time as _time
import unittest.mock as mock

from vf import core
from vf.core import Failure
from vf.gen import sched as S

PID = "C16"
LEVEL = "exploration"
RULE = (
    "case = (scenario, thread op lists, schedule). Scenarios: first-load-same (2-3 threads), different-uris, modify-race "
    "(modification + get_template vs get_template, 1-2 modifications), failing-compile, bounded (collection_size 1-2), "
    "render-shared (generated template, 2-3 contexts), def-render (get_def(name).render of one def by two threads with different "
    "arguments, every one-preemption schedule). Schedules: (A) every interleaving at coarse points, enumerated by DFS "
    "(bounded at 3000 executions per scenario instance); (B) hypothesis-drawn byte schedules at line granularity. "
    "non-trivial = the schedule has >=1 preemption (a switch away from a runnable thread) inside get_template/_load/_check or a "
    "render; distinct by (scenario instance, choice sequence)."
)
ASSUMPTIONS = [
    "preemption only between Python lines of mako code (and at lock / file-system / construction points), not inside C calls",
    "file modifications advance the simulated clock by >= 1 whole second (the freshness rule of C14)",
    "a search over schedules the harness owns, not a proof over all schedules",
]
_k = itertools.count()


class Clock:
    def __init__(self):
        self.now = 1000.0
        self.tick = 0

    def time(self):
        return self.now

    def default_timer(self):
        self.tick += 1
        return float(self.tick)


class OsProxy:
    def __init__(self, sched_ref):
        self._s = sched_ref
        self.path = PathProxy(sched_ref)

    def stat(self, *a, **kw):
        self._s[0].point("os.stat")
        return os.stat(*a, **kw)

    def __getattr__(self, k):
        return getattr(os, k)


class PathProxy:
    def __init__(self, sched_ref):
        self._s = sched_ref

    def isfile(self, p):
        self._s[0].point("isfile")
        return os.path.isfile(p)

    def __getattr__(self, k):
        return getattr(os.path, k)


class World:
    """files + lookup + instrumentation for one execution"""

    def __init__(self, d, files, collection_size=-1, fine=False, fs_checks=True):
        from mako.lookup import TemplateLookup

        self.root = os.path.join(d, "root%d" % next(_k))
        os.makedirs(self.root)
        self.clock = Clock()
        self.version = {}
        self.files = files
        for u, txt in files.items():
            self.write(u, txt, 1, advance=False)
        self.constructions = []
        self.sref = [None]
        # every lock the lookup creates through threading.Lock(), now or later, is a cooperative lock of the scheduler
        # (the harness does not plant its own lock: how and when the lookup creates its lock is part of what is checked)
        with self.lock_patch():
            self.lookup = TemplateLookup(directories=[self.root], collection_size=collection_size, filesystem_checks=fs_checks)

    def path(self, u):
        return os.path.join(self.root, u.lstrip("/"))

    def lock_patch(self):
        import mako.lookup

        w = self

        class ThreadingProxy:
            @staticmethod
            def Lock():
                return S.CoLock(w.sref)

            def __getattr__(self, k):
                return getattr(threading, k)

        return mock.patch.object(mako.lookup, "threading", ThreadingProxy())

    def write(self, u, body, version, advance=True):
        if advance:
            self.clock.now += 1.0
        with open(self.path(u), "w") as fh:
            fh.write(body.replace("@V@", str(version)))
        os.utime(self.path(u), (self.clock.now, self.clock.now))
        self.version[u] = version

    def patches(self):
        import mako.codegen
        import mako.lookup
        import mako.util

        real_template = mako.lookup.Template
        w = self

        def counting(*a, **kw):
            w.sref[0].point("Template()")
            w.constructions.append(kw.get("uri"))
            return real_template(*a, **kw)

        class TimeitProxy:
            default_timer = staticmethod(self.clock.default_timer)

        def snapshot_sorted(*a, **kw):
            r = sorted(*a, **kw)
            w.sref[0].point("lru.snapshot")  # between the eviction snapshot and the deletions
            return r

        return [
            mock.patch.object(mako.util, "sorted", snapshot_sorted, create=True),
            mock.patch.object(mako.codegen, "time", self.clock),
            mock.patch.object(mako.util, "timeit", TimeitProxy),
            mock.patch.object(mako.lookup, "Template", counting),
            mock.patch.object(mako.lookup, "os", OsProxy(self.sref)),
            self.lock_patch(),
        ]


def template_version(t):
    import re

    m = re.search(r"version=(\d+)", t.source)
    return int(m.group(1)) if m else None


BODY = "u=%s version=@V@ ${x}"
BROKEN = "u=%s version=@V@ ${x +* }"


def scenario(kind, nthreads, variant):
    """-> dict(files, collection_size, ops per thread); op = ("get", uri) | ("modget", uri) | ("render", uri, x)"""
    if kind == "first-load-same":
        # (odd variants: a lookup that does not check the file system - one construction and one object all the same)
        return {"files": {"/a.html": BODY % "a"}, "ops": [[("get", "/a.html")] for _ in range(nthreads)], "preload": [],
                "fs_checks": variant % 2 == 0}
    if kind == "different-uris":
        return {"files": {"/a.html": BODY % "a", "/b.html": BODY % "b"},
                "ops": [[("get", "/a.html"), ("get", "/b.html")][:: (1 if i % 2 == 0 else -1)] for i in range(nthreads)], "preload": []}
    if kind == "modify-race":
        ops = [[("modget", "/a.html")] * (1 + variant % 2)] + [[("get", "/a.html")] * (1 + (variant // 2) % 2) for _ in range(nthreads - 1)]
        return {"files": {"/a.html": BODY % "a"}, "ops": ops, "preload": ["/a.html"] if variant % 3 != 2 else []}
    if kind == "failing-compile":
        return {"files": {"/a.html": BODY % "a", "/bad.html": BROKEN % "bad"},
                "ops": [[("get", "/bad.html")]] + [[("get", "/bad.html" if variant % 2 else "/a.html"), ("get", "/a.html")] for _ in range(nthreads - 1)],
                "preload": []}
    if kind == "bounded":
        return {"files": {"/a.html": BODY % "a", "/b.html": BODY % "b", "/c.html": BODY % "c", "/d.html": BODY % "d"},
                "ops": [[("get", u) for u in (["/a.html", "/b.html", "/c.html"] if i % 2 == 0 else ["/c.html", "/d.html", "/a.html"])] for i in range(nthreads)],
                "preload": [], "collection_size": 1 + variant % 2}
    if kind == "bounded-vanish":
        files = {"/a.html": BODY % "a", "/b.html": BODY % "b", "/c.html": BODY % "c", "/d.html": BODY % "d", "/e.html": BODY % "e"}
        ops = [[("get", "/d.html"), ("get", "/e.html")]] + [[("get", "/a.html"), ("get", "/b.html")][: 1 + i % 2] for i in range(nthreads - 1)]
        return {"files": files, "ops": ops, "preload": ["/a.html", "/b.html", "/c.html"], "collection_size": 2, "vanish": ["/a.html"]}
    raise AssertionError(kind)


def execute(case, chooser, d, fine):
    """run one execution of a lookup scenario under `chooser`; returns (sched, failure-or-None)"""
    from mako import exceptions as mexc

    sc = scenario(case["kind"], case["threads"], case["variant"])
    w = World(d, sc["files"], collection_size=sc.get("collection_size", -1), fs_checks=sc.get("fs_checks", True))
    trace = None
    if fine:
        import mako.lookup
        import mako.util

        files = {mako.lookup.__file__, mako.util.__file__}
        trace = lambda fn: fn in files
    sch = S.Scheduler(chooser, trace=trace)
    w.sref[0] = sch
    records = []  # (tid, op, vs, ve, result)
    patches = w.patches()
    for p in patches:
        p.start()
    try:
        for u in sc["preload"]:
            w.lookup.get_template(u)
        w.constructions.clear()
        w.clock.now += 1.0
        for u in sc.get("vanish", []):
            os.remove(w.path(u))

        def worker(ops, tid):
            def run():
                out = []
                for op in ops:
                    u = op[1]
                    if op[0] == "modget":
                        w.write(u, sc["files"][u], w.version[u] + 1)
                    vs = w.version[u]
                    try:
                        t = w.lookup.get_template(u)
                        res = ("ok", t)
                    except (mexc.SyntaxException, mexc.CompileException) as e:
                        res = ("compile-error", type(e).__name__)
                    except mexc.TemplateLookupException as e:
                        res = ("lookup-error", type(e).__name__)
                    except Exception as e:
                        res = ("exc", e)
                    ve = w.version[u]
                    records.append((tid, op, vs, ve, res))
                return out
            return run

        try:
            sch.run([worker(ops, i) for i, ops in enumerate(sc["ops"])])
        except S.Deadlock as e:
            return sch, "deadlock: %s" % e, "deadlock:" + case["kind"]
        for tid, e in sch.errors.items():
            return sch, "thread %d died with %r" % (tid, e), "thread-died:" + type(e).__name__
        # ---- oracle -------------------------------------------------------
        for tid, op, vs, ve, res in records:
            u = op[1]
            if u in sc.get("vanish", []):
                if res[0] != "lookup-error":
                    return sch, "get_template(%s) of a vanished file gave %r" % (u, res), "vanished-file-result:" + str(res[0])
                continue
            if u == "/bad.html":
                if res[0] != "compile-error":
                    return sch, "get_template(%s) of a broken file gave %r" % (u, res), "broken-file-result"
                continue
            if res[0] != "ok":
                return sch, "thread %d %r raised/returned %r" % (tid, op, res), "undocumented-exception:" + str(res[0])
            t = res[1]
            try:
                out = t.render(x="X")
                tv = int(__import__("re").search(r"version=(\d+)", out).group(1))  # what was compiled (Template.source re-reads the file)
            except Exception as e:
                return sch, "thread %d %r got a template that is not completely constructed: %r" % (tid, op, e), "incomplete-template"
            if ("u=%s " % u[1]) not in out:
                return sch, "thread %d asked for %s and got %r" % (tid, u, out), "wrong-template"
            if not (vs <= tv <= ve):
                return sch, "thread %d %r: file version was %d at call start and %d at return, template has version %d" % (tid, op, vs, ve, tv), "stale-template"
        if case["kind"] == "first-load-same":
            objs = {id(r[4][1]) for r in records}
            if len(objs) != 1:
                return sch, "simultaneous first requests returned %d distinct Template objects" % len(objs), "first-load-distinct-objects"
            if len(w.constructions) != 1:
                return sch, "simultaneous first requests constructed the template %d times" % len(w.constructions), "first-load-compiled-twice"
        if case["kind"] == "different-uris" and len(w.constructions) != 2:
            return sch, "two URIs, %d constructions: %r" % (len(w.constructions), w.constructions), "different-uris-constructions"
        if "collection_size" in sc:
            n = sc["collection_size"]
            if len(w.lookup._collection) > 1.5 * n:
                return sch, "bounded lookup (n=%d) holds %d templates at quiescence" % (n, len(w.lookup._collection)), "bound-exceeded"
        if w.lookup._mutex.owner is not None:
            return sch, "lookup mutex still held at the end", "mutex-leaked"
        # the lookup is still usable
        try:
            w.lookup.get_template("/c.html" if "vanish" in sc else "/a.html").render(x="Y")
        except Exception as e:
            return sch, "lookup unusable afterwards: %r" % e, "lookup-unusable"
        return sch, None, None
    finally:
        for p in patches:
            p.stop()


def make_failure(case, sch, detail, key, fine):
    c = dict(case, choices=[ch[1] for ch in sch.choices], fine=fine)
    return Failure(c, "%s | scenario %s threads=%d variant=%d | schedule (%d choices): %r" % (
        detail, case["kind"], case["threads"], case["variant"], len(sch.choices), [ch[1] for ch in sch.choices][:80]), key)


# ---- renders -------------------------------------------------------------------
def render_case(data, ev, d, fails):
    from mako.template import Template
    from vf.gen import tenv, tgen, tprog

    prog = tprog.build(data[:600], {"control", "py", "def", "block", "ccall", "capture", "flags", "nested_def", "loop", "texttag"},
                       max_depth=3, ndefs=(1, 3), body_len=(2, 5))
    src, _ = tgen.emit(prog)
    k = next(_k)
    try:
        t = Template(src, uri="/c16r_%d.html" % k, imports=tenv.IMPORTS)
    except Exception:
        ev.rejected += 1
        return
    nthreads = 2 + data[600] % 2
    ctxs = []
    for i in range(nthreads):
        c = tenv.make_ctx()
        c["cs"] = "S%d" % i
        c["cn"] = 2 + i
        ctxs.append(c)
    solo = []
    for i in range(nthreads):
        c = tenv.make_ctx()
        c["cs"] = "S%d" % i
        c["cn"] = 2 + i
        try:
            solo.append(("ok", t.render_unicode(**c)))
        except Exception as e:
            solo.append(("exc", type(e).__name__))
    import mako.runtime

    files = {mako.runtime.__file__}
    modname = t.module.__name__
    sch = S.Scheduler(S.ByteChooser(data[601:], switch_percent=12), trace=lambda fn: fn in files or fn == modname, max_steps=200000)

    def worker(i):
        def run():
            try:
                return ("ok", t.render_unicode(**ctxs[i]))
            except Exception as e:
                return ("exc", type(e).__name__)
        return run

    case = {"part": "render", "data": list(data)}
    try:
        res, errs = sch.run([worker(i) for i in range(nthreads)])
    except S.StepLimit:
        # a generated program with long loops traced line by line in three threads: inconclusive, not a deadlock
        ev.rejected += 1
        ev.label("rejected:render-step-limit")
        return
    except S.Deadlock as e:
        fails.setdefault("render-deadlock", Failure(case, "deadlock while rendering concurrently: %s\n%s" % (e, src), "render-deadlock"))
        return
    for i in range(nthreads):
        got = res.get(i)
        if got != solo[i]:
            f = Failure(case, "thread %d rendered %r concurrently but %r alone (%d preemptions)\n--- source ---\n%s" % (i, got, solo[i], sch.preemptions, src),
                        "render-differs-from-solo")
            fails.setdefault(f.key, f)
    ev.case(key=[src, [c[1] for c in sch.choices]], nontrivial=sch.preemptions >= 1, labels=("render", "threads:%d" % nthreads, "preempt:%d" % min(sch.preemptions, 5)))
    if len(ev.samples) < 2 and sch.preemptions >= 2 and len(src) < 400:
        ev.sample({"scenario": "render-shared", "source": src, "threads": nthreads, "preemptions": sch.preemptions, "choices": [c[1] for c in sch.choices][:60]}, "render")


# ---- first-use initialisation under concurrent renders -------------------------
class EchoCacheImpl:
    """cache backend that never stores and echoes the arguments it is given into the output"""

    pass_context = False

    def __init__(self, cache):
        self.cache = cache

    def get_or_create(self, key, creation_function, **kw):
        return "[%s|%s]" % (key, ",".join("%s=%r" % kv for kv in sorted(kw.items()))) + creation_function()

    def set(self, key, value, **kw):
        pass

    def get(self, key, **kw):
        return None

    def invalidate(self, key, **kw):
        pass


def first_use_case(data, ev, d, fails, chooser=None, tag=None):
    """two or three threads render through ONE fresh lookup / Template for the first time: cached defs with their own
    cache_* arguments, relative <%include> / <%inherit> / <%namespace file> from a sub-directory (same names also exist in
    the root), inheritable namespaces. Every render must equal the same render run alone on a fresh lookup."""
    import mako.cache
    import mako.lookup
    import mako.runtime
    from mako.cache import register_plugin
    from mako.lookup import TemplateLookup

    k = next(_k)
    register_plugin("vf_echo", "vf.props.c16", "EchoCacheImpl")
    T = {
        "/sub/page.html": ('<%inherit file="base.html"/><%namespace name="ns" file="lib.html"/><%namespace file="imp.html" import="tag"/>'
                           '<%def name="item(n)" cached="True" cache_timeout="30" cache_region="short">item:${n}</%def>'
                           'P(<%include file="part.html"/>|${ns.f(x)}|${item(x)}|${self.hns.g(x)}|${tag(x + 10)})'),
        "/sub/base.html": '<%namespace name="hns" file="lib.html" inheritable="True"/>SUBBASE[${next.body()}]',
        "/sub/part.html": "SUBPART:${x}",
        "/sub/lib.html": '<%def name="f(a)">subf(${a})</%def><%def name="g(a)">subg(${a})</%def>',
        # imported defs are bound to the context of the render that imports them
        "/sub/imp.html": '<%def name="tag(v)">[${v}:${x}]</%def>',
        "/imp.html": '<%def name="tag(v)">ROOTTAG</%def>',
        "/base.html": "ROOTBASE[${next.body()}]",
        "/part.html": "ROOTPART:${x}",
        "/lib.html": '<%def name="f(a)">rootf(${a})</%def><%def name="g(a)">rootg(${a})</%def>',
    }

    def fresh():
        lk = TemplateLookup(cache_impl="vf_echo", cache_args={"type": "memory"})
        for u, src in T.items():
            lk.put_string(u, src)
        return lk

    nthreads = 2 + data[0] % 2
    solo = []
    for i in range(nthreads):
        try:
            solo.append(("ok", fresh().get_template("/sub/page.html").render_unicode(x=i)))
        except Exception as e:
            solo.append(("exc", type(e).__name__, str(e)[:100]))
    lk = fresh()
    files = {mako.runtime.__file__, mako.cache.__file__, mako.lookup.__file__}
    mods = {"_sub_page_html", "_sub_base_html", "_sub_lib_html", "_sub_part_html", "_sub_imp_html"}
    sch = S.Scheduler(chooser or S.ByteChooser(data[1:], switch_percent=10 + data[0] % 20), trace=lambda fn: fn in files or fn in mods, max_steps=400000)

    def worker(i):
        def run():
            try:
                return ("ok", lk.get_template("/sub/page.html").render_unicode(x=i))
            except Exception as e:
                return ("exc", type(e).__name__, str(e)[:100])
        return run

    case = {"part": "first-use", "data": list(data)}
    if tag is not None:
        case["sweep"] = tag
    try:
        res, errs = sch.run([worker(i) for i in range(nthreads)])
    except S.Deadlock as e:
        fails.setdefault("first-use-deadlock", Failure(case, "deadlock: %s" % e, "first-use-deadlock"))
        return
    for i in range(nthreads):
        if res.get(i) != solo[i]:
            f = Failure(case, "thread %d rendered %r concurrently (first use of the lookup) but %r alone; %d preemptions" % (i, res.get(i), solo[i], sch.preemptions),
                        "first-use-differs-from-solo")
            fails.setdefault(f.key, f)
    ev.case(key=[list(data[:1]), [c[1] for c in sch.choices]], nontrivial=sch.preemptions >= 1,
            labels=("first-use" if tag is None else "first-use-sweep", "threads:%d" % nthreads))
    first_use_case.last_decisions = len(sch.choices)
    if sch.preemptions >= 2:
        ev.sample({"scenario": "first-use", "templates": T, "threads": nthreads, "preemptions": sch.preemptions, "solo": solo}, "first-use")


# ---- bounded lookup used by concurrent renders (relative includes: the URI cache is an LRU too) -----------
def bounded_render_case(chooser, d, ev, fails, tag):
    import mako.lookup
    import mako.runtime
    import mako.util
    from mako.lookup import TemplateLookup

    root = os.path.join(d, "bro%d" % next(_k))
    T = {"/s/a.html": 'A(<%include file="p1.html"/>|<%include file="p2.html"/>|${x})',
         "/s/b.html": 'B(<%include file="p3.html"/>|<%include file="p4.html"/>|${x})',
         "/s/c.html": 'C(<%include file="p5.html"/>|<%include file="p6.html"/>|${x})'}
    for i in range(1, 7):
        T["/s/p%d.html" % i] = "p%d:${x}" % i
    for u, src in T.items():
        p = os.path.join(root, u.lstrip("/"))
        os.makedirs(os.path.dirname(p), exist_ok=True)
        with open(p, "w") as fh:
            fh.write(src)

    sref = [None]

    class ThreadingProxy:
        @staticmethod
        def Lock():
            return S.CoLock(sref)  # the lookup's lock must not block an OS thread while the scheduler owns the schedule

        def __getattr__(self, k_):
            return getattr(threading, k_)

    def fresh():
        return TemplateLookup(directories=[root], collection_size=2, filesystem_checks=False)

    # (active for the whole case: a lookup may create its lock at any time)
    lock_patch = mock.patch.object(mako.lookup, "threading", ThreadingProxy())
    lock_patch.start()
    try:
        return _bounded_render_run(chooser, ev, fails, tag, fresh, sref)
    finally:
        lock_patch.stop()


def _bounded_render_run(chooser, ev, fails, tag, fresh, sref):
    import mako.lookup
    import mako.runtime
    import mako.util

    # thread 0 resolves the same relative URIs twice (second time from the URI cache), thread 1 fills that cache with others
    plan = [["/s/a.html", "/s/a.html"], ["/s/b.html", "/s/c.html"]]
    solo = [[fresh().get_template(u).render_unicode(x=i) for u in us] for i, us in enumerate(plan)]
    lk = fresh()
    files = {mako.runtime.__file__, mako.lookup.__file__, mako.util.__file__}
    sch = S.Scheduler(chooser, trace=lambda fn: fn in files, max_steps=400000)
    sref[0] = sch

    def worker(i):
        def run():
            out = []
            for u in plan[i]:
                try:
                    out.append(lk.get_template(u).render_unicode(x=i))
                except Exception as e:  # noqa: BLE001 - the type is the observation
                    out.append("%s: %s" % (type(e).__name__, str(e)[:80]))
            return out
        return run

    case = {"part": "bounded-render", "sweep": tag}
    try:
        res, errs = sch.run([worker(0), worker(1)])
    except S.Deadlock as e:
        fails.setdefault("bounded-render-deadlock", Failure(case, "deadlock: %s" % e, "bounded-render-deadlock"))
        return len(sch.choices)
    for i in (0, 1):
        if res.get(i) != solo[i]:
            f = Failure(case, "thread %d rendered %r through a bounded lookup shared with another rendering thread, %r alone (%d preemptions)"
                        % (i, res.get(i), solo[i], sch.preemptions), "bounded-render-differs-from-solo")
            fails.setdefault(f.key, f)
    # at quiescence both bounded containers of the lookup are within their bound (capacity + threshold share)
    for name in ("_collection", "_uri_cache"):
        c = getattr(lk, name)
        bound = c.capacity + c.capacity * c.threshold
        if len(c) > bound:
            f = Failure(case, "after both threads finished, lookup.%s holds %d entries; a lookup of collection_size=%d keeps at most %d"
                        % (name, len(c), c.capacity, bound), "bounded-render-over-bound")
            fails.setdefault(f.key, f)
    ev.case(key=["bounded-render", tag], nontrivial=sch.preemptions >= 1, labels=("bounded-render-sweep",))
    return len(sch.choices)


def shard_bounded_render_sweep(task):
    first, lo, hi = task
    core.setup_repo()
    ev = core.Evidence()
    fails = {}
    with core.TempDir() as d:
        k = lo
        while k < hi:
            ch = S.OnePreemptionChooser(k, first)
            n = bounded_render_case(ch, d, ev, fails, [first, k])
            if ch.exhausted or k > n + 2:
                break
            k += 1
    return ev, list(fails.values())


# ---- one compiled template rendered by two threads: every schedule with two preemptions ------------------
STEADY = [
    # decorated top-level / nested defs, buffered def, capture, <%call> with caller.body, loop context, def filter
    ('<%def name="dtag(v)" decorator="deco">d${v}:${cs}</%def><%def name="b()" buffered="True">b${cs}</%def>'
     'begin ${cs}: ${dtag(1)} ${b()} ${capture(dtag, 2)}:end ${cs}'),
    ('<%def name="outer()"><%def name="inner(v)" decorator="deco2">i${v}:${cs}</%def>${inner(1)}${inner(cn)}</%def>'
     '<%def name="w()" filter="up">[${caller.body()}]</%def>'
     '${outer()}|<%call expr="w()">body ${cs}</%call>|\n% for q in cl[:2]:\n${loop.index}${q}${cs}\n% endfor\n'),
]


def steady_render_case(idx, chooser, ev, fails, tag, state):
    import mako.runtime
    from mako.template import Template
    from vf.gen import tenv

    def ctx(i):
        c = tenv.make_ctx()
        c["cs"] = "S%d" % i
        c["cn"] = 2 + i
        return c

    if idx not in state:
        t = Template(STEADY[idx], uri="/c16steady_%d_%d.html" % (idx, next(_k)), imports=tenv.IMPORTS)
        state[idx] = (t, [t.render_unicode(**ctx(i)) for i in (0, 1)])
    t, solo = state[idx]
    files = {mako.runtime.__file__, tenv.__file__}
    modname = t.module.__name__
    sch = S.Scheduler(chooser, trace=lambda fn: fn in files or fn == modname, max_steps=200000)

    def worker(i):
        def run():
            try:
                return t.render_unicode(**ctx(i))
            except Exception as e:  # noqa: BLE001 - the type is the observation
                return "%s: %s" % (type(e).__name__, str(e)[:80])
        return run

    case = {"part": "steady-render", "template": idx, "sweep": tag}
    try:
        res, errs = sch.run([worker(0), worker(1)])
    except S.Deadlock as e:
        fails.setdefault("steady-render-deadlock", Failure(case, "deadlock: %s" % e, "steady-render-deadlock"))
        return len(sch.choices)
    for i in (0, 1):
        if res.get(i) != solo[i]:
            f = Failure(case, "thread %d rendered %r while another thread rendered the same Template with its own context, %r alone "
                        "(%d preemptions)\n--- source ---\n%s" % (i, res.get(i), solo[i], sch.preemptions, STEADY[idx]),
                        "steady-render-differs-from-solo")
            fails.setdefault(f.key, f)
    ev.case(key=["steady-render", idx, tag], nontrivial=sch.preemptions >= 2, labels=("steady-render-sweep2", "preempt:%d" % min(sch.preemptions, 5)))
    return len(sch.choices)


def shard_steady_sweep2(task):
    idx, k1s, stride2 = task
    core.setup_repo()
    ev = core.Evidence()
    fails = {}
    state = {}
    for k1 in k1s:
        k2 = 0
        while True:
            n = steady_render_case(idx, S.TwoPreemptionChooser(k1, k2), ev, fails, [k1, k2], state)
            if k2 > n + 2:
                break
            k2 += stride2
    ev.notes["steady_decisions_per_run"] = n
    return ev, list(fails.values())


# ---- one def of one Template rendered from the top level by two threads with different arguments: every schedule with one preemption ----
DEF_RENDER = ('<%def name="greet(name, title=\'t\', *rest, **kw)">hello ${title} ${name} ${rest} ${sorted(kw)} ${cs}</%def>'
              '<%def name="plain(name, title=\'t\')">plain ${title} ${name} ${cs}</%def>page ${cs}')
DEF_ARGS = [("plain", {"name": "alice", "title": "ms", "cs": "S0"}), ("plain", {"name": "bob", "cs": "S1"}),
            ("greet", {"name": "carol", "title": "dr", "cs": "S0"}), ("greet", {"name": "dan", "title": "mr", "cs": "S1"})]


def def_render_case(pair, chooser, ev, fails, tag, state):
    """get_def(name).render_unicode(**data) picks the def's named arguments out of the data (runtime._kwargs_for_callable); two threads
    doing so for the same def with different data each get the output they get alone."""
    import mako.runtime
    from mako.template import Template

    if "t" not in state:
        t = Template(DEF_RENDER, uri="/c16def_%d.html" % next(_k))
        state["t"] = (t, [t.get_def(n).render_unicode(**a) for n, a in DEF_ARGS])
    t, solo = state["t"]
    files = {mako.runtime.__file__}
    modname = t.module.__name__
    sch = S.Scheduler(chooser, trace=lambda fn: fn in files or fn == modname, max_steps=200000)
    idxs = [2 * pair, 2 * pair + 1]

    def worker(i):
        def run():
            n, a = DEF_ARGS[idxs[i]]
            try:
                return t.get_def(n).render_unicode(**a)
            except Exception as e:  # noqa: BLE001 - the type is the observation
                return "%s: %s" % (type(e).__name__, str(e)[:80])
        return run

    case = {"part": "def-render", "pair": pair, "sweep": tag}
    try:
        res, errs = sch.run([worker(0), worker(1)])
    except S.Deadlock as e:
        fails.setdefault("def-render-deadlock", Failure(case, "deadlock: %s" % e, "def-render-deadlock"))
        return len(sch.choices)
    for i in (0, 1):
        if res.get(i) != solo[idxs[i]]:
            n, a = DEF_ARGS[idxs[i]]
            f = Failure(case, "thread %d: get_def(%r).render_unicode(**%r) gave %r while another thread rendered the same def with other arguments, "
                        "%r alone (%d preemptions)\n--- source ---\n%s" % (i, n, a, res.get(i), solo[idxs[i]], sch.preemptions, DEF_RENDER),
                        "def-render-differs-from-solo")
            fails.setdefault(f.key, f)
    ev.case(key=["def-render", pair, tag], nontrivial=sch.preemptions >= 1, labels=("def-render-sweep", "preempt:%d" % min(sch.preemptions, 5)))
    return len(sch.choices)


def shard_def_render_sweep(task):
    pair, first, lo, hi = task
    core.setup_repo()
    ev = core.Evidence()
    fails = {}
    state = {}
    k = lo
    while k < hi:
        ch = S.OnePreemptionChooser(k, first)
        n = def_render_case(pair, ch, ev, fails, [first, k], state)
        if ch.exhausted or k > n + 2:
            break
        k += 1
    ev.notes["def_render_decisions_per_run"] = n
    return ev, list(fails.values())



# ---- shards --------------------------------------------------------------------
KINDS = ["first-load-same", "different-uris", "modify-race", "failing-compile", "bounded", "bounded-vanish"]


def shard_dfs(task):
    kind, threads, variant, max_runs = task
    core.setup_repo()
    ev = core.Evidence()
    fails = {}
    case = {"part": "lookup", "kind": kind, "threads": threads, "variant": variant}
    with core.TempDir() as d:
        def once(chooser):
            sch, detail, key = execute(case, chooser, d, fine=False)
            if detail:
                fails.setdefault(key, make_failure(case, sch, detail, key, False))
            ev.case(key=[kind, threads, variant, [c[1] for c in sch.choices]], nontrivial=sch.preemptions >= 1,
                    labels=("dfs:" + kind,))
            return sch.choices

        runs, complete = S.dfs_schedules(once, max_runs=max_runs)
    ev.notes["dfs_%s_t%d_v%d" % (kind, threads, variant)] = "%d executions, %s" % (runs, "complete" if complete else "truncated")
    if complete:
        ev.label("dfs-complete")
    else:
        ev.label("dfs-truncated")
    ev.sample({"scenario": kind, "threads": threads, "variant": variant, "executions": runs, "exhaustive_at_coarse_points": complete}, kind)
    return ev, list(fails.values())


def shard_random(task):
    seed, n, nr = task
    core.setup_repo()
    ev = core.Evidence()
    fails = {}
    from hypothesis import strategies as st

    with core.TempDir() as d:
        def check(data):
            kind = KINDS[data[0] % len(KINDS)]
            case = {"part": "lookup", "kind": kind, "threads": 2 + data[1] % 2, "variant": data[2] % 6}
            sch, detail, key = execute(case, S.ByteChooser(data[3:], switch_percent=20), d, fine=True)
            if detail:
                fails.setdefault(key, make_failure(case, sch, detail, key, True))
            ev.case(key=[case, [c[1] for c in sch.choices]], nontrivial=sch.preemptions >= 1, labels=("fine:" + kind, "preempt:%d" % min(sch.preemptions, 6)))

        core.hyp_search(st.binary(min_size=300, max_size=300), check, ev, seed, n, shrink=False)
        core.hyp_search(st.binary(min_size=900, max_size=900), lambda data: render_case(data, ev, d, fails), ev, seed + 1, nr, shrink=False)
        core.hyp_search(st.binary(min_size=600, max_size=600), lambda data: first_use_case(data, ev, d, fails), ev, seed + 2, nr * 2, shrink=False)
    return ev, list(fails.values())


def shard_lookup_sweep(task):
    """every schedule with exactly ONE preemption of thread `first`, at line granularity, for one lookup scenario: the
    shape of 'a modification lands while another thread is half way through loading the template'"""
    kind, threads, variant, first = task
    core.setup_repo()
    ev = core.Evidence()
    fails = {}
    case = {"part": "lookup", "kind": kind, "threads": threads, "variant": variant}
    with core.TempDir() as d:
        k = 0
        while k < 1200:
            ch = S.OnePreemptionChooser(k, first)
            sch, detail, key = execute(case, ch, d, fine=True)
            if detail:
                fails.setdefault(key, make_failure(case, sch, detail, key, True))
            ev.case(key=[kind, threads, variant, "sweep", first, k], nontrivial=sch.preemptions >= 1,
                    labels=("fine-sweep:" + kind,))
            if ch.exhausted or k > len(sch.choices) + 2:
                break  # thread `first` finished before the preemption point
            k += 1
    return ev, list(fails.values())


def shard_lookup_sweep2(task):
    """every schedule of a two-thread lookup scenario with two preemptions at line granularity (thread 0 after k1 decisions,
    thread 1 after k2): k1 = task's share, k2 = all"""
    kind, variant, k1s, stride2 = task
    core.setup_repo()
    ev = core.Evidence()
    fails = {}
    case = {"part": "lookup", "kind": kind, "threads": 2, "variant": variant}
    with core.TempDir() as d:
        for k1 in k1s:
            k2 = 0
            while k2 < 1200:
                sch, detail, key = execute(case, S.TwoPreemptionChooser(k1, k2), d, fine=True)
                if detail:
                    fails.setdefault(key, make_failure(case, sch, detail, key, True))
                ev.case(key=[kind, 2, variant, "sweep2", k1, k2], nontrivial=sch.preemptions >= 2, labels=("fine-sweep2:" + kind,))
                if k2 > len(sch.choices) + 2:
                    break
                k2 += stride2
    return ev, list(fails.values())


def shard_first_use_sweep(task):
    """every schedule with exactly ONE preemption of thread `first` (after its k-th scheduling decision) for the first-use scenario"""
    first, lo, hi, stride = task
    core.setup_repo()
    ev = core.Evidence()
    fails = {}
    with core.TempDir() as d:
        k = lo
        while k < hi:
            ch = S.OnePreemptionChooser(k, first)
            first_use_case(bytes([0]) + bytes(8), ev, d, fails, chooser=ch, tag=[first, k])
            if ch.exhausted or k > getattr(first_use_case, "last_decisions", 0) + 2:
                break  # thread `first` finished before the preemption point: nothing new beyond
            k += stride
    return ev, list(fails.values())


def run(ctx):
    tasks = []
    step = 100
    ctx.pmap(shard_first_use_sweep, [(first, lo, lo + step, 1 if (first == 0 or not ctx.quick) else 2) for first in (0, 1) for lo in range(0, 2400, step)])
    for kind in KINDS:
        for threads in (2, 3):
            for variant in range(ctx.pick(2, 6)):
                tasks.append((kind, threads, variant, ctx.pick(700, 20000)))
    ctx.pmap(shard_dfs, tasks)
    # quick: thread 0 preempted during its SECOND render (decisions ~200..500), when the URI cache already holds its keys
    ctx.pmap(shard_bounded_render_sweep, [(first, lo, lo + 20) for first in ctx.pick((0,), (0, 1))
                                          for lo in (range(180, 520, 20) if ctx.quick else range(0, 1600, 20))])
    ctx.pmap(shard_lookup_sweep, [(kind, threads, variant, first) for kind in ("modify-race", "failing-compile", "bounded-vanish")
                                  for threads in (2, 3) for variant in range(6 if kind == "modify-race" else 2)
                                  for first in range(threads)])
    s2 = ctx.pick(4, 1)
    ctx.pmap(shard_lookup_sweep2, [("first-load-same", v, list(range(i, 140, 16)), 1 + v) for v in (0, 1) for i in range(16)]
             + [("modify-race", v, list(range(i, 260, 16 * s2)), s2 + 1) for v in (0, 3) for i in range(16)])
    # quick: every third k1 (offset by the seed), every fourth k2
    q1, q2 = ctx.pick(3, 1), ctx.pick(4, 1)
    ctx.pmap(shard_steady_sweep2, [(idx, list(range(i * q1 + (ctx.seed % q1), 180, 16 * q1)), q2) for idx in range(len(STEADY)) for i in range(16)])
    # every one-preemption schedule of two top-level def renders (both tiers: the runs are short)
    ctx.pmap(shard_def_render_sweep, [(pair, first, lo, lo + 40) for pair in (0, 1) for first in (0, 1) for lo in range(0, 640, 40)])
    ctx.pmap(shard_random, [(ctx.shard_seed(i), ctx.pick(60, 1500), ctx.pick(25, 500)) for i in range(16)])


def replay(case):
    core.setup_repo()
    with core.TempDir() as d:
        if case.get("part") == "steady-render":
            ev = core.Evidence()
            fails = {}
            steady_render_case(case["template"], S.TwoPreemptionChooser(*case["sweep"]), ev, fails, case["sweep"], {})
            return next(iter(fails.values()), None)
        if case.get("part") == "def-render":
            ev = core.Evidence()
            fails = {}
            def_render_case(case["pair"], S.OnePreemptionChooser(case["sweep"][1], case["sweep"][0]), ev, fails, case["sweep"], {})
            return next(iter(fails.values()), None)
        if case.get("part") == "first-use":
            ev = core.Evidence()
            fails = {}
            sw = case.get("sweep")
            first_use_case(bytes(case["data"]), ev, d, fails, chooser=S.OnePreemptionChooser(sw[1], sw[0]) if sw else None, tag=sw)
            for f in fails.values():
                return f
            return None
        if case.get("part") == "bounded-render":
            ev = core.Evidence()
            fails = {}
            bounded_render_case(S.OnePreemptionChooser(case["sweep"][1], case["sweep"][0]), d, ev, fails, case["sweep"])
            for f in fails.values():
                return f
            return None
        if case.get("part") == "render":
            ev = core.Evidence()
            fails = {}
            render_case(bytes(case["data"]), ev, d, fails)
            for f in fails.values():
                return f
            return None
        sch, detail, key = execute(case, S.ReplayChooser(case["choices"]), d, fine=case.get("fine", False))
        if detail:
            return make_failure(case, sch, detail, key, case.get("fine", False))
    return None

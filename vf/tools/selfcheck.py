"""setup_cmd tail: assert the framework imports and mako comes from /repo."""
import sys

from vf import core


def main():
    m = core.setup_repo()
    import hypothesis

    print("vf ok: mako %s from %s, hypothesis %s, python %s" % (m.__version__, m.__file__, hypothesis.__version__, sys.version.split()[0]))


if __name__ == "__main__":
    main()

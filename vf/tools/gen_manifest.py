"""Regenerate /verif/MANIFEST.json from the table below (python -m vf.tools.gen_manifest)."""
import json
import os

from vf.tools.manifest_table import CHECKS, NOT_BUILT

VERIF = os.path.dirname(os.path.dirname(os.path.dirname(os.path.abspath(__file__))))
PY = "/venv/bin/python"
BASELINE = ("cd /repo && /venv/bin/python -m pytest -ra -q -p no:cacheprovider --timeout=900 "
            "--continue-on-collection-errors")


def main():
    checks = []
    for pid in sorted(CHECKS):
        c = CHECKS[pid]
        checks.append({
            "property_id": pid,
            "quick_cmd": "cd /verif && %s -m vf.check %s --tier quick" % (PY, pid),
            "thorough_cmd": "cd /verif && %s -m vf.check %s --tier thorough" % (PY, pid),
            "evidence_file": "/verif/evidence/%s.json" % pid,
            "replay_cmd_template": "cd /verif && %s -m vf.check %s --replay {path}" % (PY, pid),
            "engine": "vf",
            "level_claimed": {"category": c["level"], "text": c["text"], "design_ref": "DESIGN.md section 4, " + pid},
            "level_note": c["note"],
            "technique": c["technique"],
        })
    doc = {
        "version": 1,
        "setup_cmd": ("cd /verif && (/venv/bin/python -c 'import hypothesis' 2>/dev/null || /venv/bin/pip install "
                      "--no-index --find-links /opt/veriftools/wheels hypothesis) && /venv/bin/python -m vf.tools.selfcheck"),
        "hooks": {
            "guard": "MAKO_VERIF",
            "enable": ("no source hooks: mako is pure Python and imported from /repo's working tree; all instrumentation "
                       "is applied by the harness at run time (mock.patch, settrace, audit hooks, register_plugin)"),
            "baseline_off_cmd": BASELINE,
            "source_commits": [],
            "add_only": True,
        },
        "engines": [{
            "name": "vf",
            "path": "/verif/vf",
            "serves_properties": sorted(CHECKS),
            "kind_free_text": ("property-based testing: hypothesis strategies / rule-based state machines, exhaustive "
                               "enumeration of small finite domains, fault and crash-point enumeration, harness-owned "
                               "thread schedules; explicit oracles (reference models, round trips, differentials)"),
        }],
        "checks": checks,
        "notes": ("All checks: exit 0 held / 1 VIOLATION line + replay file / 2 harness error. VERIF_SEED seeds every "
                  "random choice; PYTHONHASHSEED is pinned to 0 by the runner. Genuine defects repaired by 'fix:' commits "
                  "are listed as fixed in known_findings.json and suppress nothing."),
        "not_applicable": [{"property_id": p, "reason": r} for p, r in sorted(NOT_BUILT.items()) if p not in CHECKS],
    }
    with open(os.path.join(VERIF, "MANIFEST.json"), "w") as fh:
        json.dump(doc, fh, indent=1)
    print("wrote MANIFEST.json with %d checks, %d not_applicable" % (len(checks), len(doc["not_applicable"])))


if __name__ == "__main__":
    main()

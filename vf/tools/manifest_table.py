"""Per-property manifest entries. Only properties with a working check appear in CHECKS."""

CHECKS = {
    "C10": {
        "level": "exploration",
        "technique": "exhaustive enumeration + hypothesis; round trip through inverse functions",
        "text": ("Every code point (thorough: all 1 112 064; quick: all below U+3000 and every 37th above) and every string "
                 "of length <=3 over 14 markup-significant characters is pushed through h, x, u, entity, trim and the "
                 "htmlentityreplace handler for five charsets, plus hypothesis-drawn mixtures; each output is checked "
                 "with a forbidden-character scan, the inverse function and a per-character expected encoding. The "
                 "single-character and short-string domains are swept completely, which is the right level for a "
                 "per-character guarantee; longer strings are sampled."),
        "note": ("Trusted: CPython html.entities, urllib.parse, codecs; markupsafe is part of the tested surface (h). "
                 "Strings longer than 3 characters are sampled, not enumerated."),
    },
}

_TODO = "check not built yet in this session (planned in DESIGN.md section 4); not claimed until it runs"
NOT_BUILT = {"C%02d" % i: _TODO for i in range(1, 21)}

"""Per-property manifest entries. Only properties with a working check appear in CHECKS."""

CHECKS = {
    "C14": {
        "level": "exploration",
        "technique": "hypothesis rule-based state machine on a simulated whole-second clock; model of files + lookup cache + LRU with three-valued freshness prediction",
        "text": ("Histories of up to 40 operations (advance clock, write / delete / break / make unreadable / fix a file in one of 1-3 directories, replace a whole directory by a plain file (stat fails with ENOTDIR), "
                 "get_template, has_template, put_string, put_template, render) over 8 URIs are run against a real TemplateLookup under all 16 "
                 "combinations of filesystem_checks x collection_size {-1,1,2,4} x module_directory, with mako.codegen.time, the LRU timer and "
                 "file mtimes on a simulated clock. A model predicts for every fetch MUST-BE-SAME-OBJECT (and zero Template constructions), "
                 "MUST-BE-FRESH, EITHER, or an exception class; directory priority, recovery after failed compiles, put entries and the LRU "
                 "bound / recency order are checked after every step. Failing histories are minimised by op-list ddmin and replayed without hypothesis."),
        "note": ("Trusted: the model in vf/props/c14.py and vf/gen/fsim.py. Same-second modifications are 'either'; expiry by real time is "
                 "not modelled; histories are sampled (~4k quick, ~130k thorough)."),
    },
    "C15": {
        "level": "fault_enumeration",
        "technique": "enumeration of every file-system call of the module write x 6 fault modes (fail/die before, after, midway) in forked children; hypothesis histories against a staleness model, with and without bytecode caching; sampled process races",
        "text": ("(ii) For each state {module directory missing, module absent, present and older, present with another magic number, stale "
                 "__pycache__ entry of the same second and size, orphaned bytecode} the fault-free run is logged through wrappers of every "
                 "file-system entry point mako (or a changed writer) can use; then every k-th call is made to fail or the process to die before, "
                 "after or midway through it. Afterwards the module path must hold nothing, the complete previous module or the complete new "
                 "one (byte for byte, code generation time patched), a retry in the same process and a fresh Template in a new interpreter must "
                 "render the current source. (i) Histories of up to 12 operations {source modified newer / equal / older with or without content "
                 "change, module deleted, module replaced by one with another magic number (real image or foreign), construct in this or a "
                 "forked process, with or without a recording module_writer} are checked against a staleness model (rewrite iff missing, "
                 "older in whole seconds, or other magic; writer called with bytes and destination exactly then; after a rewrite the current "
                 "source renders), once with bytecode writing off and once with it on, where same-second equal-size rewrites are generated on "
                 "purpose. (iii) 2-8 forked processes released together construct the same Template against all states, incl. module "
                 "directories missing 2-3 levels deep."),
        "note": ("Trusted: vf/gen/faultfs.py wrappers (a call mako makes through a name that is not wrapped would be invisible; the child "
                 "reports the fired call and the parent checks it against the log) and the staleness model in vf/props/c15.py. Races are "
                 "sampled, not scheduled, and run with bytecode off; a residual bytecode race on the repaired tree (another process writing "
                 "the old module's bytecode between the writer's second removal and its load, observed 2/400 in a dedicated probe with an "
                 "old-magic module of the same second and size) is outside the explored set."),
    },
    "C17": {
        "level": "exploration",
        "technique": "hypothesis-generated histories over generated cached templates; sentinel-parsed uncached render + key->content reference model; recording / Beaker / dogpile backends",
        "text": ("Histories of up to 30 operations (render with a context, invalidate_body / invalidate_def / invalidate_closure / invalidate(key), "
                 "cache.set / cache.get, toggling cache_enabled) run over 1-3 generated templates sharing one backend; page, top-level defs, nested "
                 "defs, named and anonymous blocks are cached in arbitrary combination with cache_key expressions, cache_* arguments at Template / "
                 "<%page> / section level, buffered and filter flags. Every cached body is wrapped in sentinels and ticks a counter; the same text "
                 "compiled with cache_enabled=False gives the uncached output, which a key->content model (independent of mako.cache / codegen) "
                 "turns into the expected output (on Beaker also across a re-compilation under the same URI), the exact list of bodies that must execute, the backend call sequence and its kwargs (precedence, "
                 "int timeout, context when pass_context). Backends: recording dict CacheImpl (pass_context off/on), Beaker memory and file, "
                 "dogpile.cache. Four dedicated probes (module-id collision, Beaker set, invalidate-before-first-render, nested cached+buffered def) "
                 "carry their own control histories."),
        "note": ("Trusted: the model in vf/props/c17.py. Expiry by time is out of scope (timeouts >= 3600 s); re-entrant same-key creation and "
                 "sections sharing a key with different arguments are rejected as unspecified. URIs colliding under re.sub(r'\\W','_') are a "
                 "known finding (same root as C08): such cases are re-run with distinct URIs and only counted."),
    },
    "C18": {
        "level": "exploration",
        "technique": "codec x declaration x path grid sweep + hypothesis templates; differential against Template(decoded str) and by-construction output",
        "text": ("Templates of 2-10 segments (text, literals in expressions / blocks / module blocks / def defaults / call and page args, "
                 "control lines, comments) with characters from each codec's round-tripping repertoire are written in 11 codecs x 5 declaration "
                 "styles (magic comment incl. alias spellings and layouts, input_encoding, both agreeing, both conflicting, none) and loaded as "
                 "bytes, from a file, through a module directory and re-loaded by a fresh interpreter; every path must equal the template of the "
                 "decoded text (which must equal the by-construction output), Template.source must be the decoded text, the module file must "
                 "decode under its own coding comment, render() must equal render_unicode().encode(output_encoding, encoding_errors) or raise the "
                 "same error, and undecodable input / a BOM contradicted by the comment must raise CompileException. All 220 grid cells are hit in both tiers."),
        "note": ("Assumes a BOM outranks input_encoding (statement silent). Template.source of a BOM file may or may not keep U+FEFF (both accepted). "
                 "Trusted: CPython codecs and tokenize.detect_encoding."),
    },
    "C09": {
        "level": "exploration",
        "technique": "exhaustive URI-spelling sweep + hypothesis URIs; containment oracle (realpath), secret-marker scan, sys audit hook on opens/creates",
        "text": ("Every URI of <=3 (quick) / <=4 (thorough) segments over 11 segment kinds x separator per gap (/ // \\) x 6 leading x 2 "
                 "trailing spellings, plus 'climb', 'cancel' (names and '..' runs joined by different separators), 'blank' (white space around climbing URIs) and absolute-path families and hypothesis-drawn URIs of <=8 segments, is used directly "
                 "(get_template / has_template) and from calling templates at depth 0..3 through <%include>, <%inherit>, <%namespace> "
                 "(name / import), get_namespace, get_template and include_file, under module_directory on / off / modulename_callable, one or two roots and 7 root "
                 "spellings. Either TemplateLookupException is raised or the returned template's realpath lies inside a configured root; "
                 "no output or source contains the secret marker that every outside file carries; an audit hook sees no open of an outside "
                 "file and no create/rename outside the module directory (and blocks such writes). The bounded URI space is swept completely."),
        "note": ("POSIX only; symlinks and drive letters not generated; the empty URI is not sent through calling templates "
                 "(adjust_uri('') raises IndexError, outside the statement). Trusted: os.path.realpath, the audit hook."),
    },
    "C16": {
        "level": "exploration",
        "technique": "harness-owned deterministic thread scheduler: exhaustive DFS over coarse scheduling points + hypothesis-drawn line-level preemption schedules",
        "text": ("Worker threads run one at a time under vf.gen.sched (baton hand-over at scheduling points; threading.Lock inside "
                 "mako.lookup is patched so that every lock the lookup creates, whenever it creates it, is a cooperative lock that "
                 "reports blocking - deadlock and a second lock are detected). For five lookup scenarios (first load of one "
                 "URI, different URIs, modification + get_template racing get_template on a simulated whole-second clock, failing "
                 "compile, bounded lookup) x 2-3 threads x variants, ALL interleavings at lock acquire/release, os.stat/isfile and "
                 "Template construction are enumerated by DFS re-execution; at line granularity inside mako/lookup.py and mako/util.py "
                 "(and mako/runtime.py + the generated module for concurrent renders of generated templates with distinct contexts) "
                 "hypothesis-drawn preemption schedules are run, plus systematic sweeps: every single-preemption schedule of the modify-race / "
                 "failing-compile / vanishing-file scenarios and of first-use renders (cached defs with own arguments, relative include / "
                 "inherit / namespace from a sub-directory), every two-preemption schedule of the two-thread first-load and modify-race "
                 "scenarios and of steady-state renders of one compiled template (decorated / buffered defs, capture, <%call>, loop) by two "
                 "threads with their own contexts (strided in quick), every single-preemption schedule of two threads rendering one "
                 "def from the top level (get_def(name).render) with different arguments. Per call: complete template, version between call start and return, "
                 "documented exceptions only, single construction and shared object for simultaneous first requests, renders equal "
                 "solo output, bound held at quiescence, mutex released, lookup usable afterwards."),
        "note": ("Preemption only between Python lines of mako code, not inside C calls or between bytecodes; op lists are short; DFS is "
                 "bounded per scenario instance (evidence notes say complete/truncated). A search over schedules, not a proof."),
    },
    "C08": {
        "level": "exploration",
        "technique": "differential across construction/rendering paths and PYTHONHASHSEED child processes",
        "text": ("Generated programs (defs, calls with content, control structures, non-ASCII text) are rendered through Template(text), "
                 "Template(filename=), module_directory first load, a lookup with modulename_callable and three URI spellings, "
                 "ModuleTemplate over the imported t.code, render / render_context / a second render, get_def(name).render() vs a "
                 "one-line calling template, and - in batches - by child processes under PYTHONHASHSEED 0/1/2/12345 that compile afresh "
                 "and re-load the parent's module files (which must not be rewritten); CLI-safe documents are also run through "
                 "mako.cmd.cmdline (stdout, --output-encoding, --output-file). Every path must equal the P1 output; Template.source / "
                 ".code / list_defs / has_def must be the template's own. get_def(d).render*() under generated Template options (enable_loop, "
                 "strict_undefined, default_filters, output encoding, error_handler) on five construction paths equals the def called from a "
                 "one-line body; mako-render with --template-dir lists resolves include / inherit / namespace like the API. A fixed sub-check "
                 "exercises colliding URIs (known finding)."),
        "note": ("P7 only with string variables; P8 not for buffered/decorated/*args defs; four hash seeds sampled. Trusted: P1 as the "
                 "reference path (its meaning is checked against independent references by C01-C07)."),
    },
    "C11": {
        "level": "fault_enumeration",
        "technique": "one planted fault per generated layout, every fault class enumerated; by-construction expected line/column on 5 construction paths",
        "text": ("Subjects are drawn layouts (0-7 units of multi-line text, CRLF, continuations, comments, <%doc>, multi-line expressions "
                 "and blocks, defs, control structures; optional inline text so the construct's column is >1); into each subject every "
                 "one of 57 fault classes is planted in turn and compiled as string, string+filename, file, through a lookup, with a "
                 "module directory and into a module directory another root's lookup filled first. Exception class, e.lineno (the physical line of the offending Python line or of the construct), "
                 "e.pos, e.filename, e.source, agreement across paths, RichTraceback and the text/HTML error templates (incl. the one line "
                 "the HTML page marks as in error) are checked."),
        "note": ("Two pinned classes (unclosed tag, unterminated filter) and a multi-line tag's attribute line are checked for type/filename/"
                 "source only. Subjects are sampled (64 quick / 2.4k thorough), fault classes enumerated."),
    },
    "C12": {
        "level": "fault_enumeration",
        "technique": "one planted raise / warning per generated layout and stack shape; by-construction expected template frames and warning locations",
        "text": ("For drawn prefix layouts, 7 stack shapes (single, include, nested include, inherit, namespace def, inherit->namespace->"
                 "include) and 4 construction paths (put_string, files, module directory fresh and re-loaded), each of 18 raising "
                 "constructs (incl. % elif / % except / % else lines) is planted in turn: the expected (template file-or-uri, line) of the innermost frame and of each outer "
                 "template's calling construct must appear in order among RichTraceback's template frames, all template frames carry "
                 "their own file and source, python frames equal traceback.extract_tb, and the text / HTML error templates and "
                 "format_exceptions name the innermost frame. Each of 8 warning constructs x 5 filter actions must be recorded "
                 "exactly once at (template, line), or raise a located SyntaxException under the error action."),
        "note": ("Helper-stub frames (def-call wrappers) have no line fixed by the statement: expected frames are matched as an ordered "
                 "subsequence. Subjects sampled (192 quick / 4.8k thorough)."),
    },
    "C19": {
        "level": "exploration",
        "technique": "grammar-based generation of typed Python expressions / statement blocks / literal layouts; differential against CPython (ast round trip, eval / exec, symtable)",
        "text": ("(1) Random typed CPython AST expressions (depth <= 5, every operator, conditional expressions and lambdas in operand / callee "
                 "position, starred and double-starred arguments and displays, f-strings, walrus, slices, comprehensions, lambdas with every "
                 "parameter kind) are placed as def / nested def / keyword-only / block / page argument defaults and as arguments of filter calls: "
                 "the source mako re-emits must parse to the same AST and the value seen through a rendered template must equal eval() of the "
                 "original. (2) Statement blocks (assignments, loops with else, try / with, nested functions with every parameter kind, "
                 "comprehensions, imports, class-free scoping cases) in <% %>: symtable says which names the block reads without binding; under "
                 "strict_undefined the template must render with exactly those names in the context, raise NameError naming the one that is "
                 "removed, and compute the values native exec computes. (3) Blocks with triple-quoted / escaped / continued string literals, "
                 "comments containing quotes, backslash continuations and raw tabs at margins of 0..12 spaces, tabs or both in <% %> and <%! %>: "
                 "the values must be those CPython computes for the block as written. (4) Eleven signatures written in tags (<%def>, nested "
                 "defs, args= of <%call>; defaults, *args, keyword-only, positional-only, **kw) x calls bind like the Python function of that "
                 "signature (same values or TypeError). Every root cause found has a dedicated probe list that runs first on every run."),
        "note": ("Trusted: CPython's ast / symtable / eval as reference, the grammar in vf/gen/pygram.py. Python 3.12-only quote reuse inside "
                 "f-strings is checked for re-emission but not placed in templates (delimiting ${} around it is the lexer's concern). Classes, "
                 "decorators, annotations, global / nonlocal, await / yield and match statements are not generated here (C04's statement forms "
                 "cover class bodies and decorators)."),
    },
    "C20": {
        "level": "exploration",
        "technique": "hypothesis-generated templates built line by line with a layout map; by-construction expected (line, function, messages, comments) compared both ways for Babel and Lingua",
        "text": ("Templates are built physical line by physical line from drawn plans that plant uniquely numbered _() / gettext() / "
                 "ngettext() calls in every Python-bearing construct kind (expressions, filter arguments, control lines incl. "
                 "elif/except/continuations, <% %> and <%! %> lines, def/block/page signatures, <%call expr>, <%ns:def> attributes), "
                 "nested in defs/calls/blocks, LF/CRLF, utf-8/cp1251/latin-1 with every declaration style, with decoys in text, "
                 "<%text>, <%doc>, ## comments and translator comments at distance 0-2; the Babel tuples and Lingua messages must "
                 "equal the expected multiset (missing, spurious, duplicated, wrong line/function/message/comment each keyed). A fixed "
                 "corpus exercises the catalogued findings; the search continues behind the two recorded known findings. Sampled."),
        "note": ("Trusted: the plan builder vf/gen/c20_build.py (line bookkeeping), Babel and Lingua. Lingua messages carry no function "
                 "name. Calls are kept on one physical line."),
    },
    "C04": {
        "level": "exploration",
        "technique": "exhaustive binding-site x read-site matrix; resolution-order model from the statement; reserved-name and kwargs enumeration",
        "text": ("Every subset (size <=2, plus 10 triples) of the binding sites {context, page arg, body assignment, def argument, "
                 "enclosing-def local, loop target, module level, imported def, builtin} of one name is read at each of 9 read sites "
                 "(body, top-level def, nested def, anonymous/named block, call body, control line, tag attribute, filter argument) "
                 "under strict_undefined on/off and compared with a resolution function written from the statement; "
                 "read-before-assignment must raise UnboundLocalError in 5 scopes; every reserved name x 8 assignment forms x 5 scopes "
                 "x enable_loop and x 5 render entry points must (not) raise NameConflictError; context.kwargs and context isolation "
                 "are probed at every scope with hypothesis-drawn arguments. The matrix is enumerated completely."),
        "note": ("Trusted: the resolution function in vf/props/c04.py. Combinations the statement does not determine (body/page/loop "
                 "binding read from a named block) are skipped and counted. The native-exec differential of statement blocks is part of C19."),
    },
    "C06": {
        "level": "exploration",
        "technique": "hypothesis-generated inheritance chains; chain model (self/next/parent/local resolution, base-most block rule)",
        "text": ("Chains of 1..5 templates declaring random subsets of defs, named blocks (incl. nested), module attributes and "
                 "bodies that call self/next/parent/local members, self.attr / next.attr, next.body(x=..) / self.body(), with static "
                 "and dynamic, absolute and relative inherit targets (levels placed in nested directories, decoy templates of the same file name in "
                 "the other directories), optionally including a second, independent generated chain through <%include> from a level that has "
                 "a parent, are rendered and compared with an independent chain model; generated negative cases "
                 "(duplicate block, block/def clash, named block in def / call) must raise CompileException. Sampled (~14k quick, ~100k thorough)."),
        "note": "Trusted: the chain model in vf/props/c06.py. Only calls that the model resolves are generated.",
    },
    "C07": {
        "level": "exploration",
        "technique": "hypothesis-generated template sets in directory trees; URI-resolution + namespace/include model",
        "text": ("Sets of 2..8 templates in directory trees (depth 0..3, one or two lookup roots, file-backed or put_string) connected "
                 "by named / importing / star / inline-def / inheritable / module namespaces, <%include args>, get_namespace, "
                 "get_template and include_file with relative and absolute URI spellings, first-root-wins shadow copies and "
                 "unresolvable targets are rendered and compared with a model of URI resolution, member precedence, import "
                 "shadowing of context variables, include independence and page-argument sourcing. Sampled (~2.4k quick, ~64k thorough)."),
        "note": ("Trusted: the model in vf/props/c07.py. '..' only with file-backed lookups; importing templates define no "
                 "same-named defs of their own (precedence not stated)."),
    },
    "C05": {
        "level": "exploration",
        "technique": "hypothesis-generated def/call programs; reference interpreter with explicit buffer stack and caller frames",
        "text": ("Programs with top-level and nested defs of every parameter kind, flags buffered / filter / decorator, plain calls, "
                 "self./local. calls, capture(), concatenations, and calls with content (<%call>, <%self:def> with literal / ${} / mixed "
                 "attributes, body args, nested defs, optional callers) nested to depth 4 inside bodies, defs, loops and other call "
                 "bodies are rendered by mako and by the reference interpreter (clauses A1-A10); outputs or exception types must "
                 "agree. Sampled (~1.8k programs quick, ~48k thorough). A fixed sub-check exercises the recorded known finding."),
        "note": ("Trusted: vf/gen/tgen.py reference semantics, CPython. Excluded by construction: return inside buffered/filtered "
                 "callables (known finding), bare-* / positional-only signatures, `caller` inside nested defs of a call tag."),
    },
    "C13": {
        "level": "fault_enumeration",
        "technique": "raise-point x handler-position enumeration over generated programs; reference interpreter with exceptions; stack-depth invariants",
        "text": ("For each generated program that renders cleanly, every position of every body list is used as a raise point (one at "
                 "a time, four raise kinds) and every wrappable node as a % try/% except handler; the reference decides which pairs "
                 "catch, and those (bounded per subject by a fixed stride) plus unhandled raise points are executed in mako under "
                 "render, render_context + write('tail'), error_handler->True, format_exceptions and a second render of the same "
                 "Template. Output after the handler, the propagated exception object, buffer/caller stack depths must match the "
                 "reference (clause A20). Enumeration is complete per subject up to the stated stride bounds."),
        "note": ("Subjects are sampled (80 quick / ~1.9k thorough); per subject at most 20x12 (quick) / 40x24 (thorough) raise x handler "
                 "pairs are classified by the reference and at most 24 / 60 handled + 4 / 10 unhandled points run in mako."),
    },
    "C03": {
        "level": "exploration",
        "technique": "hypothesis-generated control-structure programs; reference interpreter with lexically managed loop object, native execution of embedded Python",
        "text": ("Programs of nested control lines (if/elif/else, for/else, while, try/except, with), <% %> blocks at random "
                 "margins, randomly indented % lines, continued control lines, empty and comment-only bodies, defs, anonymous "
                 "blocks, break/continue/return and handled exceptions are rendered by mako and by an independent reference "
                 "interpreter that walks the same IR with explicit buffers and environments; outputs or exception types must "
                 "agree and the generated module must compile; x enable_loop on / off / page override. Sampled search "
                 "(~2k programs quick, ~64k thorough), depth <=5."),
        "note": ("Trusted: the reference interpreter vf/gen/tgen.py (clauses A1-A15 of DESIGN appendix A) and CPython eval/exec. "
                 "Not generated: % finally, loop reads inside nested callables or for-else, bare return in defs."),
    },
    "C02": {
        "level": "exploration",
        "technique": "exhaustive pipeline enumeration + hypothesis expression spellings; reference composition with tagging (non-commuting) filters, native eval",
        "text": ("All local filter lists of length <=2 (quick) / <=3 (thorough) over 8 representative filters x 6 default_filters x "
                 "5 page expression_filter settings are rendered and compared with local(P'(D'(value))) computed by an "
                 "independent reference; hypothesis adds value-expression spellings that contain | } # quotes, brackets, "
                 "comments and newlines, filter calls, attribute filters, buffer_filters, and the filter= sites of defs, blocks "
                 "and <%text>. The small configuration space is swept; expression spellings are sampled."),
        "note": ("Trusted: markupsafe.escape as the meaning of h; the other builtins are re-implemented from filtering.rst. "
                 "User callables that shadow builtin flag names are out of scope."),
    },
    "C01": {
        "level": "exploration",
        "technique": "exhaustive token-string sweep + hypothesis documents; parse-tree-to-source accounting round trip, by-construction expected output, CPU budget",
        "text": ("(a) every concatenation of <=4 (quick) / <=5 (thorough) tokens of a 28-token directive alphabet, and of a second 14-token alphabet "
                 "(form feed, VT, NBSP, em space before % / ##, control lines, backslash-newline), is lexed: "
                 "the lexer must return a tree or raise Syntax/CompileException, the tree must account for every source "
                 "character at the reported positions (vf.gen.account), and text-only trees must render to their Text "
                 "contents; (b) hypothesis documents assembled from (source, expected output) segments - arbitrary Unicode "
                 "text, %% lines, backslash-newline, ## lines, <%doc>, <%text>, stray % # $ < \\, simple directives - at every "
                 "placement class must render to the by-construction expectation; (c) ~20k-170k pumped families p+u*n+s "
                 "(<=256 chars) must each lex within 2 s CPU. The bounded sweep is exhaustive; beyond it the search is sampled."),
        "note": ("Time bound is an empirical CPU budget, not a complexity proof. Lone-CR lines are exempt from one "
                 "sub-predicate (see assumptions). Trusted: the accounting predicates in vf/gen/account.py, CPython re."),
    },
    "C10": {
        "level": "exploration",
        "technique": "exhaustive enumeration + hypothesis; round trip through inverse functions",
        "text": ("Every code point (thorough: all 1 112 064; quick: all below U+3000 and every 37th above) and every string "
                 "of length <=3 over 14 markup-significant characters is pushed through h, x, u, entity, trim and the "
                 "htmlentityreplace handler for five charsets, plus hypothesis-drawn mixtures; each output is checked "
                 "with a forbidden-character scan, the inverse function and a per-character expected encoding (eight stateful / EBCDIC / "
                 "UTF-16/32 charsets: decode round trip); h and x are evaluated after the same text was escaped as markupsafe.Markup. The "
                 "single-character and short-string domains are swept completely, which is the right level for a "
                 "per-character guarantee; longer strings are sampled."),
        "note": ("Trusted: CPython html.entities, urllib.parse, codecs; markupsafe is part of the tested surface (h). "
                 "Strings longer than 3 characters are sampled, not enumerated."),
    },
}

_TODO = "check not built yet in this session (planned in DESIGN.md section 4); not claimed until it runs"
NOT_BUILT = {"C%02d" % i: _TODO for i in range(1, 21)}

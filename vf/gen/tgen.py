"""tgen - template programs as an IR with two consumers (DESIGN 3.1).

IR nodes are plain dicts (JSON-serialisable, so a program is its own replay form):

  {"t":"text","s":..}                         literal text (directive-free alphabet)
  {"t":"expr","e":"<python expr>"}            ${e}
  {"t":"comment","s":..}                      ## line (no output)
  {"t":"if","arms":[[cond,body],..],"else":body|None,"ind":..}
  {"t":"for","target":..,"iter":..,"body":..,"else":body|None,"ind":..}
  {"t":"while","cond":..,"body":..,"ind":..}
  {"t":"try","body":..,"handlers":[[spec,body],..],"ind":..}      spec: "" | "Cls" | "Cls as e"
  {"t":"with","cm":..,"as":name|None,"body":..,"ind":..}
  {"t":"py","code":[lines],"margin":..,"oneline":bool}            <% %> block
  {"t":"return","form":..} {"t":"break"} {"t":"continue"}
  {"t":"def","name":..,"sig":..,"body":..,"buffered":bool,"filter":[..],"decorator":name|None}
  {"t":"block","name":None,"body":..,"filter":[..],"buffered":bool}
  {"t":"ccall","spelling":"call"|"ns","ns":"self","target":..,"callargs":..,"attrs":[[k,kind,v]..],
      "body_args":str|None,"body":..,"defs":[def..]}
  {"t":"texttag","s":..,"filter":[..]}

`emit(prog)` prints Mako source; `Interp(prog, ctx).render()` is the reference semantics: template constructs are
interpreted structurally (explicit buffer stack, caller frames, lexically managed loop objects, environments),
embedded Python expressions/statements are executed natively with eval/exec.  No mako import here.
"""
import builtins
import re

# ------------------------------------------------------------------ emission


class Emitter:
    def __init__(self):
        self.out = []
        self.line = 1
        self.col0 = True  # at line start
        self.lines = {}  # id(node) -> line where construct begins
        self.nctl = 0
        self.ctl_comments = False

    def w(self, s):
        if not s:
            return
        self.out.append(s)
        self.line += s.count("\n")
        self.col0 = s.endswith("\n")

    def need_line_start(self):
        if not self.col0:
            self.w("\\\n")  # consumed by the lexer, yields nothing

    def ctl(self, ind, text, nl="\n"):
        self.need_line_start()
        self.nctl += 1
        tail = ""
        if self.ctl_comments and text.rstrip().endswith(":") and "\n" not in text and self.nctl % 5 == 0:
            tail = ["  # note", " # a: b", "# c"][self.nctl % 3]  # a trailing Python comment, as PythonFragment allows
        self.w(ind + "%" + text + tail + nl)

    def body(self, nodes):
        for n in nodes:
            self.node(n)

    def node(self, n):
        t = n["t"]
        if t in ("if", "for", "while", "try", "with", "comment") or (t == "block" and not n.get("name")):
            self.need_line_start()
        self.lines[id(n)] = self.line
        ind = n.get("ind", "")
        sp = n.get("sp", " ")
        if t == "text":
            self.w(n["s"])
        elif t == "expr":
            self.w("${" + n["e"] + "}")
        elif t == "comment":
            self.w(ind + "##" + n["s"] + "\n")
        elif t == "if":
            for i, (cond, body) in enumerate(n["arms"]):
                self.ctl(ind, sp + ("if " if i == 0 else "elif ") + cond + ":")
                self.body(body)
            if n.get("else") is not None:
                self.ctl(ind, sp + "else:")
                self.body(n["else"])
            self.ctl(ind, sp + "endif")
        elif t == "for":
            self.ctl(ind, sp + "for " + n["target"] + " in " + n["iter"] + ":")
            self.body(n["body"])
            if n.get("else") is not None:
                self.ctl(ind, sp + "else:")
                self.body(n["else"])
            self.ctl(ind, sp + "endfor")
        elif t == "while":
            self.ctl(ind, sp + "while " + n["cond"] + ":")
            self.body(n["body"])
            self.ctl(ind, sp + "endwhile")
        elif t == "try":
            self.ctl(ind, sp + "try:")
            self.body(n["body"])
            for spec, body in n["handlers"]:
                self.ctl(ind, sp + ("except " + spec if spec else "except") + ":")
                self.body(body)
            self.ctl(ind, sp + "endtry")
        elif t == "with":
            self.ctl(ind, sp + "with " + n["cm"] + (" as " + n["as"] if n.get("as") else "") + ":")
            self.body(n["body"])
            self.ctl(ind, sp + "endwith")
        elif t == "py":
            if n.get("oneline") and len(n["code"]) == 1:
                self.w("<% " + n["code"][0] + " %>")
            else:
                m = n.get("margin", "")
                self.w("<%\n" + "".join((m + l if l.strip() else l) + "\n" for l in n["code"]) + m + "%>")
        elif t == "return":
            self.w("<% return " + n.get("form", "STOP_RENDERING") + " %>")
        elif t in ("break", "continue"):
            self.w("<% " + t + " %>")
        elif t == "def":
            attrs = ' name="%s(%s)"' % (n["name"], n["sig"])
            if n.get("buffered"):
                attrs += ' buffered="True"'
            if n.get("filter"):
                attrs += ' filter="%s"' % ", ".join(n["filter"])
            if n.get("decorator"):
                attrs += ' decorator="%s"' % n["decorator"]
            if n.get("cached"):
                attrs += ' cached="True"'
            self.w("<%def" + attrs + ">")
            self.body(n["body"])
            self.w("</%def>")
        elif t == "block":
            attrs = ""
            if n.get("name"):
                attrs += ' name="%s"' % n["name"]
            if n.get("filter"):
                attrs += ' filter="%s"' % ", ".join(n["filter"])
            if n.get("buffered"):
                attrs += ' buffered="True"'
            self.w("<%block" + attrs + ">")
            self.body(n["body"])
            self.w("</%block>")
        elif t == "ccall":
            if n["spelling"] == "call":
                tag = "call"
                attrs = ' expr="%s(%s)"' % (n["target"], n["callargs"])
            else:
                tag = n["ns"] + ":" + n["target"]
                attrs = ""
                for k, kind, v in n["attrs"]:
                    attrs += ' %s="%s"' % (k, v)
            if n.get("body_args"):
                attrs += ' args="%s"' % n["body_args"]
            if n.get("selfclose") and not n["defs"] and not n["body"]:
                self.w("<%" + tag + attrs + "/>")  # no content at all: the callee still has a caller, with an empty body
                return
            self.w("<%" + tag + attrs + ">")
            for d in n["defs"]:
                self.node(d)
            self.body(n["body"])
            self.w("</%" + tag + ">")
        elif t == "texttag":
            attrs = ' filter="%s"' % ", ".join(n["filter"]) if n.get("filter") else ""
            self.w("<%text" + attrs + ">" + n["s"] + "</%text>")
        else:
            raise AssertionError("unknown node " + t)


def emit(prog):
    e = Emitter()
    e.ctl_comments = bool(prog.get("ctl_comments"))
    head = ""
    if prog.get("page"):
        head = "<%page " + prog["page"] + "/>"
    e.w(head)
    e.body(prog["body"])
    return "".join(e.out), e.lines


# ------------------------------------------------------------------ reference semantics


class _Ctl(BaseException):
    pass


class _Return(_Ctl):
    pass


class _Break(_Ctl):
    pass


class _Continue(_Ctl):
    pass


class RefUndefined:
    def __str__(self):
        raise NameError("Undefined")

    def __bool__(self):
        return False


class RefLoop:
    """A15: index, first, even, odd, cycle, parent; reverse_index/last need len(iterable)."""

    def __init__(self, iterable, parent):
        self._iterable = iterable
        self.index = 0
        self.parent = parent

    def __iter__(self):
        for i in self._iterable:
            yield i
            self.index += 1

    def __len__(self):
        return len(self._iterable)

    @property
    def reverse_index(self):
        return len(self) - self.index - 1

    @property
    def first(self):
        return self.index == 0

    @property
    def last(self):
        return self.index == len(self) - 1

    @property
    def odd(self):
        return self.index % 2 == 1

    @property
    def even(self):
        return self.index % 2 == 0

    def cycle(self, *values):
        if not values:
            raise ValueError("You must provide values to cycle through")
        return values[self.index % len(values)]


class NoLoop:
    def __getattr__(self, k):
        raise RuntimeError("No loop context is established")


class CallerNS:
    def __init__(self, members):
        self.__dict__.update(members)


class CallerProxy:
    """what the name `caller` denotes inside a callable: the content namespace of the invoking call, or nothing."""

    def __init__(self, frame):
        self._frame = frame

    def __bool__(self):
        return self._frame is not None

    def __getattr__(self, k):
        return getattr(self._frame, k)


class CtxFacade:
    def __init__(self, interp):
        self._i = interp

    def write(self, s):
        self._i.write(s)

    def get(self, k, default=None):
        return self._i.ctx.get(k, getattr(builtins, k, default))

    def __getitem__(self, k):
        if k in self._i.ctx:
            return self._i.ctx[k]
        return getattr(builtins, k)

    @property
    def kwargs(self):
        return dict(self._i.kwargs)


class SelfFacade:
    def __init__(self, interp):
        self._i = interp

    def __getattr__(self, k):
        try:
            return self._i.module_env.vars[k]
        except KeyError:
            raise AttributeError(k)


class Env:
    def __init__(self, parent):
        self.vars = {}
        self.parent = parent

    def chain(self):
        e = self
        out = []
        while e is not None:
            out.append(e)
            e = e.parent
        return out[::-1]


FILTERS = {}  # name -> callable; filled by users of the interpreter (same objects are given to mako)


class RuntimeException(Exception):
    """named like mako.exceptions.RuntimeException: what capture() raises for a non-callable"""


class Interp:
    def __init__(self, prog, ctx, buffer_filters=(), enable_loop=True, filters=None, hook=None):
        self.prog = prog
        self.ctx = dict(ctx)
        self.kwargs = dict(ctx)
        self.bufs = [[]]
        self.frames = []
        self.pending = None
        self.buffer_filters = list(buffer_filters)
        self.enable_loop = enable_loop
        self.filters = filters or FILTERS
        self.top_env = None
        self.hook = hook  # called with (event, node) for invariants (C13)
        self.max_depth = 0
        self.steps = 0

    # -- output -----------------------------------------------------------
    def write(self, s):
        self.bufs[-1].append(s)

    def push(self):
        self.bufs.append([])

    def pop(self):
        return "".join(self.bufs.pop())

    # -- namespaces -------------------------------------------------------
    def flat(self, env):
        d = {}
        d.update(self.ctx)
        d["context"] = CtxFacade(self)
        d["capture"] = self.capture
        d["UNDEFINED"] = RefUndefined
        d["STOP_RENDERING"] = ""
        d["self"] = SelfFacade(self)
        d["local"] = d["self"]
        if self.enable_loop:
            d.pop("loop", None)
        for e in env.chain():
            d.update(e.vars)
        return d

    def ev(self, text, env):
        return eval(compile(text.strip(), "<ref-expr>", "eval"), self.flat(env))

    def ex(self, code, env, extra=None):
        flat = self.flat(env)
        if extra:
            flat.update(extra)
        before = dict(flat)
        exec(compile(code, "<ref-code>", "exec"), flat)
        for k, v in flat.items():
            if k == "__builtins__" or (extra and k in extra):
                continue
            if k not in before or before[k] is not v:
                env.vars[k] = v

    def bind_target(self, target, value, env):
        self.ex(target + " = __ref_value", env, extra={"__ref_value": value})

    def apply_filters(self, names, s):
        for f in names:
            s = self.filters[f](s)
        return s

    # -- callables --------------------------------------------------------
    def hoist(self, nodes, env, toplevel=False):
        """bind the defs declared directly in this scope (descending through control structures only)"""
        for n in nodes:
            t = n["t"]
            if t == "def":
                env.vars[n["name"]] = self.make_def(n, env, toplevel)
            elif t in ("if",):
                for _, b in n["arms"]:
                    self.hoist(b, env, toplevel)
                if n.get("else"):
                    self.hoist(n["else"], env, toplevel)
            elif t in ("for", "while", "with"):
                self.hoist(n["body"], env, toplevel)
                if n.get("else"):
                    self.hoist(n["else"], env, toplevel)
            elif t == "try":
                self.hoist(n["body"], env, toplevel)
                for _, b in n["handlers"]:
                    self.hoist(b, env, toplevel)

    def make_def(self, node, defenv, toplevel):
        flat = self.flat(defenv)
        exec("def __bind(%s):\n    return dict(locals())" % node["sig"], flat)
        binder = flat["__bind"]
        interp = self

        def plain(*a, **kw):
            return interp.call_def(node, defenv, binder, a, kw, toplevel)

        plain.__name__ = node["name"]
        deco = node.get("decorator")
        if not deco:
            return plain
        decofn = self.ctx[deco]
        if toplevel:
            # A5: decorator applied at each call: fn(render)(context, *args)
            def decorated(*a, **kw):
                return decofn(plain)(CtxFacade(interp), *a, **kw)
        else:
            dec = decofn(plain)

            def decorated(*a, **kw):
                return dec(CtxFacade(interp), *a, **kw)
        return decorated

    def call_def(self, node, defenv, binder, a, kw, toplevel):
        args = binder(*a, **kw)  # Python calling rules; TypeError before anything is pushed
        anon = bool(node.get("anon_block"))  # part of the callable it is written in: no caller frame of its own
        frame = None if anon else self.pending
        if not anon:
            self.pending = None
            self.frames.append(frame)
        self.max_depth = max(self.max_depth, len(self.frames) + len(self.bufs))
        buffered = bool(node.get("buffered"))
        filt = node.get("filter") or []
        content = None
        try:
            if buffered or filt:
                self.push()
            try:
                env = Env(None if toplevel else defenv)
                if toplevel:
                    env.parent = self.module_env
                env.vars.update(args)
                if not anon:
                    env.vars["caller"] = CallerProxy(frame)
                    env.vars["__frame"] = frame  # lexical: the frame of the callable that contains nested call tags
                self.hoist(node["body"], env)
                try:
                    self.run(node["body"], env)
                except _Return:
                    pass
            finally:
                if buffered or filt:
                    content = self.pop()
        finally:
            if not anon:
                self.frames.pop()
                self.pending = None
        if filt:
            content = self.apply_filters(filt, content)
        if buffered:
            return self.apply_filters(self.buffer_filters, content)
        if filt:
            self.write(content)
        return ""

    def capture(self, fn, *a, **kw):
        if not callable(fn):
            raise RuntimeException("capture() function expects a callable")
        self.push()
        try:
            fn(*a, **kw)
        finally:
            out = self.pop()
        return out

    # -- execution --------------------------------------------------------
    def render(self):
        self.module_env = Env(None)
        env = Env(self.module_env)
        self.top_env = env
        # top-level defs are module-level callables: visible from every def
        self.hoist(self.prog["body"], self.module_env, toplevel=True)
        env.vars["caller"] = CallerProxy(None)
        env.vars["__frame"] = None
        self.frames.append(None)
        try:
            try:
                self.run(self.prog["body"], env)
            except _Return:
                pass
        finally:
            self.frames.pop()
        return "".join(self.bufs[0])

    def cur_loop(self, env):
        for e in env.chain()[::-1]:
            if "loop" in e.vars:
                return e.vars["loop"]
        return None

    def run(self, nodes, env):
        for n in nodes:
            self.step(n, env)

    def step(self, n, env):
        t = n["t"]
        self.steps += 1
        if self.steps > 60000:
            raise RuntimeError("reference step limit")
        if self.hook:
            self.hook("node", n, self, env)
        if t == "text":
            self.write(n["s"])
        elif t == "expr":
            self.write(str(self.ev(n["e"], env)))
        elif t == "comment" or t == "def":
            pass
        elif t == "if":
            for cond, body in n["arms"]:
                if self.ev(cond, env):
                    self.run(body, env)
                    break
            else:
                if n.get("else") is not None:
                    self.run(n["else"], env)
        elif t == "for":
            self.do_for(n, env)
        elif t == "while":
            while self.ev(n["cond"], env):
                self.steps += 1
                if self.steps > 60000:
                    raise RuntimeError("reference step limit")
                try:
                    self.run(n["body"], env)
                except _Break:
                    break
                except _Continue:
                    continue
        elif t == "try":
            try:
                self.run(n["body"], env)
            except _Ctl:
                raise
            except BaseException as e:
                for spec, hbody in n["handlers"]:
                    m = re.match(r"(.*?)(?:\s+as\s+(\w+))?$", spec.strip())
                    cls = self.ev(m.group(1), env) if m.group(1) else BaseException
                    if isinstance(e, cls):
                        if m.group(2):
                            env.vars[m.group(2)] = e
                        self.run(hbody, env)
                        break
                else:
                    raise
        elif t == "with":
            mgr = self.ev(n["cm"], env)
            ctl = None
            with mgr as val:
                if n.get("as"):
                    self.bind_target(n["as"], val, env)
                try:
                    self.run(n["body"], env)
                except _Ctl as c:
                    ctl = c
            if ctl is not None:
                raise ctl
        elif t == "py":
            self.ex("\n".join(n["code"]) + "\n", env)
        elif t == "return":
            raise _Return()
        elif t == "break":
            raise _Break()
        elif t == "continue":
            raise _Continue()
        elif t == "block":
            fn = self.make_def({"name": n.get("name") or "__anon", "sig": "", "body": n["body"], "anon_block": not n.get("name"),
                                "buffered": n.get("buffered"), "filter": n.get("filter")}, env, False)
            r = fn()
            if n.get("buffered"):
                pass  # an anonymous block's return value is discarded by the generated call
        elif t == "ccall":
            self.do_ccall(n, env)
        elif t == "texttag":
            if n.get("filter"):
                self.write(self.apply_filters(n["filter"], n["s"]))
            else:
                self.write(n["s"])
        else:
            raise AssertionError(t)

    def do_for(self, n, env):
        it = self.ev(n["iter"], env)
        uses = n.get("uses_loop") and self.enable_loop
        if uses:
            had = "loop" in env.vars
            old = env.vars.get("loop")
            L = RefLoop(it, self.cur_loop(env))
            env.vars["loop"] = L
            it = L
        try:
            broke = False
            for item in it:
                self.bind_target(n["target"], item, env)
                try:
                    self.run(n["body"], env)
                except _Break:
                    broke = True
                    break
                except _Continue:
                    continue
            if not broke and n.get("else") is not None:
                self.run(n["else"], env)
        finally:
            if uses:
                if had:
                    env.vars["loop"] = old
                else:
                    env.vars.pop("loop", None)

    def do_ccall(self, n, env):
        callframe = None  # caller of the callable that lexically contains the call tag
        for e in env.chain()[::-1]:
            if "__frame" in e.vars:
                callframe = e.vars["__frame"]
                break
        interp = self
        members = {}
        defenv = Env(env)
        for d in n["defs"]:
            members[d["name"]] = self.make_def(d, defenv, False)
            defenv.vars[d["name"]] = members[d["name"]]
        flat = self.flat(env)
        exec("def __bind(%s):\n    return dict(locals())" % (n.get("body_args") or ""), flat)
        binder = flat["__bind"]

        def body(*a, **kw):
            args = binder(*a, **kw)
            benv = Env(defenv)
            benv.vars.update(args)
            benv.vars["caller"] = CallerProxy(callframe)
            interp.hoist(n["body"], benv)
            try:
                interp.run(n["body"], benv)
            except _Return:
                pass
            return ""

        members["body"] = body
        ns = CallerNS(members)
        if n["spelling"] == "call":
            expr = "%s(%s)" % (n["target"], n["callargs"])
        else:
            parts = []
            for k, kind, v in n["attrs"]:
                parts.append("%s=%s" % (k, attr_expr(v)))
            expr = "%s.%s(%s)" % (n["ns"], n["target"], ", ".join(parts))
        self.pending = ns
        try:
            val = self.ev(expr, env)
        finally:
            self.pending = None
        self.write(str(val))


def attr_expr(v):
    """A10: literal text -> str, ${e} -> value, mixtures concatenated in order."""
    parts = []
    pos = 0
    for m in re.finditer(r"\$\{(.*?)\}", v, re.S):
        if m.start() > pos:
            parts.append(repr(v[pos:m.start()]))
        parts.append("(" + m.group(1) + ")")
        pos = m.end()
    if pos < len(v):
        parts.append(repr(v[pos:]))
    return " + ".join(parts) or "''"

"""fsim - simulated whole-second clock and file-system helpers (C14, C15, C16).

Everything mako knows about time in the lookup / module-file machinery comes from four places:

* ``mako.codegen.time.time()``      stamps ``_modified_time`` into a generated module,
* ``timeit.default_timer()``        (as seen from ``mako.util``) stamps LRUCache recency,
* ``os.stat(path)[ST_MTIME]``       of template sources and of module files,
* the real clock at the moment ``shutil.move`` puts a freshly written module file in place.

``Sim`` replaces the first two by a simulated clock / a strictly increasing counter, sets source mtimes
with ``os.utime`` and re-stamps a module file with the simulated clock right after mako moved it into
place, so that no comparison ever mixes the real and the simulated clock.

"Unreadable file" faults (the sandbox runs as root, mode bits are not enforced) are injected by guarding
``mako.util.read_file`` and the name ``open`` inside ``mako.util`` for chosen paths: ``os.stat`` and
``os.path.isfile`` still succeed - exactly what a mode-000 file looks like to an ordinary user.

Usage::

    core.setup_repo()
    with fsim.Sim() as sim:              # patches installed / removed here
        sim.write(path, "text")          # mtime = sim.now
        sim.advance(2)
        sim.set_unreadable(path)
        ...

Import mako only after ``core.setup_repo()``; this module imports it lazily inside ``install``.
"""
import errno
import itertools
import os
import shutil as _real_shutil
import sys
import timeit as _real_timeit

START = 1_600_000_000  # an arbitrary whole second


def norm(path):
    return os.path.normpath(os.path.abspath(os.fspath(path)))


class _CodegenTime:
    """Stands in for the ``time`` module inside mako.codegen."""

    def __init__(self, sim):
        self._sim = sim

    def time(self):
        return self._sim.time()

    def __getattr__(self, name):  # anything else: the real module
        import time

        return getattr(time, name)


class _Timeit:
    """Stands in for the ``timeit`` module inside mako.util."""

    def __init__(self, sim):
        self._sim = sim

    def default_timer(self):
        return self._sim.default_timer()

    def __getattr__(self, name):
        return getattr(_real_timeit, name)


class _Shutil:
    """Stands in for the ``shutil`` module inside mako.template: move() re-stamps the destination."""

    def __init__(self, sim):
        self._sim = sim

    def move(self, src, dst, *a, **kw):
        r = _real_shutil.move(src, dst, *a, **kw)
        self._sim.moves.append(norm(dst))
        if self._sim.stamp_moves:
            self._sim.stamp(dst)
        if self._sim.on_move is not None:
            self._sim.on_move(dst)  # e.g. lambda p: (sim.advance(1), sim.stamp(p)): a compile that straddles a second
        return r

    def __getattr__(self, name):
        return getattr(_real_shutil, name)


class Sim:
    """Simulated clock with whole-second steps + helpers; a context manager that installs the patches."""

    def __init__(self, start=START, stamp_moves=True, on_move=None):
        self.now = int(start)
        self.on_move = on_move
        self._ticks = itertools.count(1)
        self.unreadable = set()  # normalised paths
        self.moves = []  # destinations of every shutil.move mako made (module files written)
        self.read_log = []  # paths mako read through util.read_file
        self.stamp_moves = stamp_moves
        self._saved = None

    # -- clock ---------------------------------------------------------
    def time(self):
        return float(self.now)

    def advance(self, k=1):
        if k < 0:
            raise ValueError("the simulated clock is monotone")
        self.now += int(k)
        return self.now

    def default_timer(self):
        # strictly increasing, independent of the whole-second clock: LRU recency = fetch order
        return float(next(self._ticks))

    # -- files ---------------------------------------------------------
    def stamp(self, path, t=None):
        t = self.now if t is None else int(t)
        os.utime(path, (t, t))
        return t

    def write(self, path, data, t=None):
        """Create or replace `path` (replace = new inode, like an editor's atomic save); mtime = t or now."""
        d = os.path.dirname(path)
        if d and not os.path.isdir(d):
            os.makedirs(d, exist_ok=True)
        if isinstance(data, str):
            data = data.encode("utf-8")
        tmp = path + ".~new"
        with open(tmp, "wb") as fh:
            fh.write(data)
        os.utime(tmp, (self.now if t is None else int(t),) * 2)
        os.replace(tmp, path)
        return self.mtime(path)

    def remove(self, path):
        os.remove(path)
        self.unreadable.discard(norm(path))

    def mtime(self, path):
        return int(os.stat(path).st_mtime)

    # -- faults --------------------------------------------------------
    def set_unreadable(self, path, flag=True):
        if flag:
            self.unreadable.add(norm(path))
        else:
            self.unreadable.discard(norm(path))

    def _deny(self, path):
        try:
            p = norm(path)
        except TypeError:
            return
        if p in self.unreadable:
            raise PermissionError(errno.EACCES, "Permission denied (fsim)", str(path))

    # -- patches -------------------------------------------------------
    def install(self):
        if self._saved is not None:
            raise RuntimeError("fsim.Sim already installed")
        import mako.codegen
        import mako.template
        import mako.util

        sim = self
        saved = []

        def setattr_(obj, name, value):
            saved.append((obj, name, obj.__dict__.get(name, _MISSING)))
            setattr(obj, name, value)

        setattr_(mako.codegen, "time", _CodegenTime(self))
        setattr_(mako.util, "timeit", _Timeit(self))
        if "default_timer" in mako.util.__dict__:  # `from timeit import default_timer` spelling
            setattr_(mako.util, "default_timer", self.default_timer)
        setattr_(mako.template, "shutil", _Shutil(self))

        real_read_file = mako.util.read_file

        def read_file(path, mode="rb"):
            sim._deny(path)
            sim.read_log.append(norm(path))
            return real_read_file(path, mode)

        def guarded_open(path, *a, **kw):
            if not isinstance(path, int):
                sim._deny(path)
            return open(path, *a, **kw)

        setattr_(mako.util, "read_file", read_file)
        setattr_(mako.util, "open", guarded_open)

        # never let a .pyc (validated by source mtime + size) stand in for a module file that was
        # rewritten within one simulated second
        saved.append((sys, "dont_write_bytecode", sys.dont_write_bytecode))
        sys.dont_write_bytecode = True
        self._saved = saved
        return self

    def uninstall(self):
        if self._saved is None:
            return
        for obj, name, old in reversed(self._saved):
            if old is _MISSING:
                try:
                    delattr(obj, name)
                except AttributeError:
                    pass
            else:
                setattr(obj, name, old)
        self._saved = None

    def __enter__(self):
        return self.install()

    def __exit__(self, *a):
        self.uninstall()


_MISSING = object()


class Counter:
    """Counting wrapper for a callable seen through a module attribute (e.g. mako.lookup.Template)."""

    def __init__(self, module, name):
        self.module = module
        self.name = name
        self.n = 0
        self.calls = []
        self._real = None

    def __enter__(self):
        self._real = getattr(self.module, self.name)
        real = self._real
        me = self

        def counting(*a, **kw):
            me.n += 1
            return real(*a, **kw)

        counting.__wrapped__ = real
        setattr(self.module, self.name, counting)
        return self

    def __exit__(self, *a):
        setattr(self.module, self.name, self._real)
        self._real = None

"""Environment objects handed to both mako and the reference interpreter (fresh per render)."""


class Rec:
    """context manager factory that records enter/exit in a log visible to the template"""

    def __init__(self, log, tag, swallow=False):
        self.log = log
        self.tag = tag
        self.swallow = swallow

    def __enter__(self):
        self.log.append("+" + self.tag)
        return "w" + self.tag

    def __exit__(self, et, ev, tb):
        self.log.append("-" + self.tag + ("!" + et.__name__ if et is not None else ""))
        return self.swallow and et is not None and issubclass(et, Exception)


class Boom(Exception):
    pass


class Boom2(Exception):
    pass


def deco(fn):
    def decorate(context, *args, **kw):
        context.write("{D:")
        r = fn(*args, **kw)
        context.write(":D}")
        return r
    return decorate


def deco2(fn):
    def decorate(context, *args, **kw):
        context.write("(E")
        r = fn(*args, **kw)
        context.write(")")
        return r
    return decorate


def fb(s):
    return "b[" + str(s) + "]"


IMPORTS = ["from vf.gen.tenv import deco, deco2, fb"]


def make_ctx():
    log = []

    def gen(n):
        for i in range(n):
            yield "g%d" % i

    def rec(tag, swallow=False):
        return Rec(log, tag, swallow)

    def boom(cls=Boom, msg="boom"):
        raise cls(msg)

    def showlog():
        return ",".join(log)

    def _pysc(context):
        boom(Boom, "pysc")

    from mako import runtime as _rt  # (callers have run core.setup_repo())

    def boomf(s):
        boom(Boom, "filter")

    return {
        "boomf": boomf,  # a filter that raises
        "pysc": _rt.supports_caller(_pysc),
        "cs": "S", "cn": 3, "cx0": "X0", "cx1": "X1", "cl": ["p", "q", "r"], "ce": [], "cd": {"k": "v"}, "ct": (("a", 1), ("b", 2)),
        "gen": gen, "rec": rec, "boom": boom, "showlog": showlog, "Boom": Boom, "Boom2": Boom2,
        "deco": deco, "deco2": deco2, "ident": lambda z: z,
        "fa": lambda s: "a(" + str(s) + ")", "fb": fb, "up": lambda s: str(s).upper(),
    }


FILTER_NAMES = ["fa", "fb", "up", "boomf"]


def ref_filters(ctx):
    return {k: ctx[k] for k in FILTER_NAMES}

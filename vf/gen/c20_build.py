"""C20 template builder: turns a JSON plan into template text plus a layout map.

The template is built physical line by physical line. Every gettext call is planted while a line is
being composed and receives the number of that line when the line is emitted, so the expected
(line, function, messages, translator comments) of every call is known by construction and never
derived from mako.

Raw case (the replay form, plain JSON):
  src     template text (str; the bytes handed to the extractors are src.encode(enc))
  enc     utf-8 | cp1251 | latin-1
  decl    none | opt_input | opt_enc | coding   (how the extractors are told the encoding)
  tags    configured translator-comment tags
  calls   [{line, func, msgs, comments, kind, ctx, shapes, lead, first, off, split_obs}]
  decoys  {message: decoy kind}

shapes (layout classes that matter to known findings, all decided by the layout, never by mako's output):
  filter      call written in an expression filter argument
  cont        call written on a continuation line of a control line
  ns_later    call in a <%ns:def> attribute that is not on the first line of the tag
  attr_later  call in a def/block/page/call attribute whose value starts after the first line of the tag
  except      call in a `% except` line
  split       construct preceded by: tagged comment run, >=1 text/blank line, untagged ## run
lead = number of line breaks between the start of the construct's Python code and its first non-blank
       code line (leading blank lines of a <% %> block / `${` newline expr)
first = first line of the construct's tag (for tags), off = line of attribute value start - first
"""
import collections

ALPHA = {
    # only characters whose single-byte encodings are >= 0xC0: such byte strings are never valid UTF-8
    "cp1251": "тесжшюяБД",
    "latin-1": "äöüéß×Àÿ",
    "utf-8": "äßжя€漢λ×",
}
WORDS = ["alpha", "beta", "gamma", "delta", "lorem", "ipsum", "<p>", "</p>", "<b>x</b>", "&amp;", "a = b", "1 + 2",
         "it's", "50% off", "# one", "(paren)", "[x]", "{y}", "dollar $ sign", "a < b", "c > d"]
OTHER_TAG = "NOTE:"


class Builder:
    def __init__(self, plan):
        self.plan = plan
        self.nl = plan["nl"]
        self.enc = plan["enc"]
        self.tags = list(plan["tags"])
        self.alpha = ALPHA[self.enc]
        self.lines = []
        self.calls = []
        self.decoys = {}
        self.pending = []
        self.nid = 0
        self.nname = 0
        self.ncomment = 0
        self.labels = collections.Counter()
        self.has_page = False
        self.block_names = 0
        self.conses = []
        self.level = [0]
        self.nlevel = 0

    # ---- primitives ----------------------------------------------------
    def emit(self, text):
        assert "\n" not in text and "\r" not in text, text
        self.lines.append(text)
        n = len(self.lines)
        for r in self.pending:
            r["line"] = n
        self.pending = []
        return n

    def name(self, p="v"):
        self.nname += 1
        return "%s%d" % (p, self.nname)

    def _msg(self, prefix, na):
        self.nid += 1
        m = "%s%d" % (prefix, self.nid)
        if na:
            k = self.nid % len(self.alpha)
            m += " " + (self.alpha[k:] + self.alpha[:k])[:3]
        return m

    def call(self, spec, kind, cons, q=None, shapes=()):
        """-> source text of one gettext-style call; registers the expectation."""
        q = q or spec.get("q", "'")
        f = spec["f"]
        na = spec.get("na", False)
        if f == "ngettext":
            msgs = [self._msg("s", na), self._msg("p", na)]
            text = "ngettext(%s%s%s, %s%s%s, %s)" % (q, msgs[0], q, q, msgs[1], q, "n")
        else:
            msgs = [self._msg("m", na)]
            text = "%s(%s%s%s)" % (f, q, msgs[0], q)
        rec = {"line": None, "func": f, "msgs": msgs, "kind": kind, "cons": cons, "shapes": list(shapes)}
        self.calls.append(rec)
        self.pending.append(rec)
        return text

    def decoy(self, kind, q="'", f="_", na=False):
        m = self._msg("d", na)
        self.decoys[m] = kind
        self.labels["decoy:" + kind] += 1
        return "%s(%s%s%s)" % (f, q, m, q)

    def text_line(self, it, indent=""):
        w = WORDS[it.get("w", 0) % len(WORDS)]
        w2 = WORDS[(it.get("w", 0) * 7 + 3) % len(WORDS)]
        parts = [w]
        if it.get("decoy"):
            parts.append(self.decoy("text", q=it.get("q", "'"), f=it.get("f", "_"), na=it.get("na", False)))
        if it.get("na"):
            parts.append(self.alpha[:2])
        parts.append(w2)
        s = indent + " ".join(parts)
        if s.lstrip().startswith(("%", "##")):
            s = indent + "x " + s.lstrip()
        self.emit(s)

    def last_is_comment(self):
        if not self.lines:
            return False
        t = self.lines[-1].strip()
        return t.startswith("##") or t.endswith("</%doc>")

    # ---- translator comments -------------------------------------------
    def tcomment(self, tc, indent, cons):
        """Emit the comment run (and gap) described by tc before a construct; sets cons['comments']."""
        if not tc:
            return
        if self.last_is_comment():
            self.emit(indent + "sep")
        tagged = tc["tag"] >= 0 and bool(self.tags)  # (no tags configured: no comment is a translator comment)
        tag = self.tags[tc["tag"] % len(self.tags)] if tagged else OTHER_TAG
        run = []
        self.ncomment += 1
        for i in range(tc["n"]):
            body = ("%s note %d" % (tag, self.ncomment)) if i == 0 else ("more %d.%d" % (self.ncomment, i))
            if tc.get("na"):
                body += " " + self.alpha[:2]
            run.append(body)
            self.emit(indent + "##" + " " * tc.get("sp", 1) + body + " " * tc.get("trail", 0))
        dist = tc["dist"]
        split = tc.get("split") and tagged
        if split and dist == 0:
            dist = 1
        for i in range(dist):
            if tc.get("gap") == "text":
                self.emit(indent + "gap %d" % i)
            else:
                self.emit("" if i % 2 == 0 else indent)
        if split:
            extra = []
            for i in range(tc.get("n2", 1)):
                body = "unrelated %d.%d" % (self.ncomment, i)
                extra.append(body)
                self.emit(indent + "## " + body)
            cons["split_obs"] = run + extra
            cons["shapes"].append("split")
            self.labels["tc:split"] += 1
            return
        self.labels["tc:%s:d%d" % ("tagged" if tagged else "other", dist)] += 1
        self.labels["tc:lines=%d" % tc["n"]] += 1
        if tagged and dist == 0:
            cons["comments"] = run
            cons["run"] = run
        if dist > 0 and tagged:
            cons["tc_far"] = True

    def cons(self, kind):
        c = {"kind": kind, "comments": [], "shapes": [], "lead": 0, "first": None, "off": 0, "lvl": self.level[-1],
             "run": None}
        self.conses.append(c)
        return c

    def body(self, its, depth, ctx, indent):
        """items of a tag body: a node list of its own for the extractor"""
        self.nlevel += 1
        self.level.append(self.nlevel)
        try:
            self.items(its, depth, ctx, indent)
        finally:
            self.level.pop()

    # ---- items -----------------------------------------------------------
    def items(self, its, depth, ctx, indent=""):
        for it in its:
            getattr(self, "i_" + it["k"])(it, depth, ctx, indent)

    def i_text(self, it, depth, ctx, indent):
        if it.get("blank"):
            self.emit("")
        else:
            self.text_line(it, indent)

    def i_cdecoy(self, it, depth, ctx, indent):
        self.emit(indent + "## " + ("see " if it.get("w") else "") + "${" + self.decoy("comment", q=it.get("q", "'")) + "}")
        if it.get("guard", True):
            # keep the ## line from sitting directly before a construct (still allowed when guard is False)
            self.emit(indent + "after comment")

    def i_doc(self, it, depth, ctx, indent):
        self.emit(indent + "<%doc>")
        self.emit(indent + "  ${" + self.decoy("doc") + "}")
        if it.get("more"):
            self.emit(indent + "  <% x = " + self.decoy("doc", f="gettext", q='"') + " %>")
            self.emit("% if " + self.decoy("doc") + ":")
        self.emit(indent + "</%doc>")
        self.emit(indent + "after doc")

    def i_texttag(self, it, depth, ctx, indent):
        self.emit(indent + "<%text>")
        self.emit(indent + "  ${" + self.decoy("texttag") + "}")
        if it.get("more"):
            self.emit(indent + "  <% x = " + self.decoy("texttag", f="gettext", q='"') + " %>")
            self.emit("% if " + self.decoy("texttag") + ":")
            self.emit("## TRANSLATORS: inside text")
        self.emit(indent + "</%text>")

    # expressions ----------------------------------------------------------
    def _expr_src(self, calls, kind, cons, q=None, shapes=()):
        cs = [self.call(c, kind, cons, q=q, shapes=shapes) for c in calls]
        if not cs:
            return self.name()
        if len(cs) == 1:
            form = calls[0].get("form", 0) % 4
            return [cs[0], "fmt(%s)" % cs[0], "%s or %s" % (self.name(), cs[0]), "%s.upper()" % cs[0]][form]
        return " + ".join(cs) if calls[0].get("form", 0) % 2 == 0 else "join(%s)" % ", ".join(cs)

    def i_expr(self, it, depth, ctx, indent):
        cons = self.cons("expr")
        tc = it.get("tc")
        self.tcomment(tc, indent, cons)
        multi = it.get("multi", 0)
        flt = [" | h", " | n, trim", ""][it.get("flt", 2) % 3]
        if multi == 0:
            pre = "" if (tc or not it.get("pre")) else "<p>" + WORDS[it.get("w", 0) % 6] + " "
            s = indent + pre + "${" + self._expr_src(it["calls"], "expr", cons) + flt + "}"
            if not tc:
                for more in it.get("more", []):
                    s += " and ${" + self._expr_src(more, "expr", self.cons("expr")) + "}"
            if it.get("post"):
                s += " tail</p>"
            self.emit(s)
        elif multi == 1:
            elems = it["calls"]
            first = self.name()
            if it.get("call_first") and elems:
                first = self.call(elems[0], "expr", cons)
                elems = elems[1:]
            self.emit(indent + "${(" + first + ",")
            for c in elems:
                self.emit(indent + "   " + self.call(c, "expr-ml", cons) + ",")
                if c.get("pad"):
                    self.emit(indent + "   " + self.name() + ",")
            self.emit(indent + ")" + flt + "}")
        else:
            lb = it.get("lead_blank", 0)
            cons["lead"] = 1 + lb
            wsb = it.get("wsb", 0)  # blanks after the opening delimiter / in the blank lines that follow it
            self.emit(indent + "${" + ["", " ", "", "\t"][wsb])
            for _ in range(lb):
                self.emit(["", "", "  ", " \t"][wsb])
            self.emit(indent + "  " + self._expr_src(it["calls"], "expr-ml", cons))
            self.emit(indent + flt + "}")

    def i_filt(self, it, depth, ctx, indent):
        cons = self.cons("filter")
        self.tcomment(it.get("tc"), indent, cons)
        head = self._expr_src(it.get("head", []), "expr", cons)
        pre = ["", "h, ", "n, "][it.get("pf", 0) % 3]
        if it.get("ml") and len(it["calls"]) >= 2:
            # the filter list itself spans lines: each call belongs to the line it is written on
            first = self.call(it["calls"][0], "filter", cons, shapes=("filter",))
            self.emit(indent + "${" + head + " | " + pre + "pick(" + first + ",")
            rest = it["calls"][1:]
            for j, c in enumerate(rest):
                self.emit(indent + "      " + self.call(c, "filter", cons, shapes=("filter", "filter-ml")) + ("," if j < len(rest) - 1 else ")}"))
            return
        if it.get("nlpipe"):
            # the list starts on a later line than the "|"
            self.emit(indent + "${" + head + " |")
            for _ in range(it["nlpipe"] - 1):
                self.emit("")
            f = "pick(%s)" % ", ".join(self.call(c, "filter", cons, shapes=("filter", "filter-after-pipe")) for c in it["calls"])
            self.emit(indent + "   " + pre + f + "}")
            return
        f = "pick(%s)" % ", ".join(self.call(c, "filter", cons, shapes=("filter",)) for c in it["calls"])
        if it.get("fcmt"):
            # a comment closes the filter list; the "}" follows on the next line
            cons["pycomment"] = "escaped " + WORDS[it["fcmt"] % 6]
            self.emit(indent + "${" + head + " | " + pre + f + "  # " + cons["pycomment"])
            self.emit(indent + "}")
            return
        self.emit(indent + "${" + head + " | " + pre + f + "}")

    # control lines -------------------------------------------------------------
    def _ctl_line(self, kw, spec, indent, kind):
        """spec: {pieces:[{call?|None, brk:bool}], tc}.  Emits one (possibly continued) control line."""
        cons = self.cons(kind)
        self.tcomment(spec.get("tc"), indent, cons)
        sp = " " * spec.get("sp", 1)
        if kw in ("if", "elif", "while"):
            head, sep, tail = kw + " ", " and ", ":"
        elif kw == "for":
            head, sep, tail = "for %s in pick(" % self.name("i"), ", ", "):"
        elif kw == "with":
            head, sep, tail = "with ctx(", ", ", ") as %s:" % self.name("w")
        else:  # except
            head, sep, tail = "except err(", ", ", "):"
        cur = indent + "%" + sp + head
        pieces = spec["pieces"] or [{}]
        continued = False
        for i, p in enumerate(pieces):
            shapes = []
            k = kind
            if continued:
                shapes.append("cont")
                k = "ctl-cont"
            if kw == "except":
                shapes.append("except")
            if p.get("c"):
                atom = self.call(p["c"], k, cons, shapes=shapes)
                if p.get("wrap"):
                    atom = "chk(%s)" % atom
            else:
                atom = self.name()
            cur += atom
            last = i == len(pieces) - 1
            if not last:
                # mako's code generator emits invalid Python for a continued `% elif` / `% except` line, so such
                # templates are outside the domain (they do not compile); continuation only on opening keywords
                if p.get("brk") and kw not in ("elif", "except"):
                    self.emit(cur + sep.rstrip() + " \\")
                    cur = indent + "    "
                    continued = True
                else:
                    cur += sep
        self.emit(cur + tail)

    def i_ctl(self, it, depth, ctx, indent):
        kw = it["kw"]
        sub = ctx + ["in:ctl"]
        ind2 = indent + ("  " if it.get("ind") else "")
        if kw == "try":
            self.cons("ctl-plain")
            self.emit(indent + "% try:")
            self.items(it.get("body", []), depth + 1, sub, ind2)
            self._ctl_line("except", it["exc"], indent, "ctl-except")
            self.items(it.get("body2", []), depth + 1, sub, ind2)
            self.emit(indent + "% endtry")
            return
        self._ctl_line(kw, it["head"], indent, "ctl-" + kw)
        self.items(it.get("body", []), depth + 1, sub, ind2)
        if kw == "if":
            for e in it.get("elifs", []):
                self._ctl_line("elif", e, indent, "ctl-elif")
                self.items(e.get("body", []), depth + 1, sub, ind2)
        if it.get("else") and kw in ("if", "for"):
            self.cons("ctl-plain")
            self.emit(indent + "% else:")
            self.emit(ind2 + "otherwise")
        self.emit(indent + "%" + " " * it["head"].get("sp", 1) + "end" + kw)

    # <% %> and <%! %> -----------------------------------------------------------
    def i_code(self, it, depth, ctx, indent):
        module = bool(it.get("module")) and depth == 0
        kind = "module" if module else "code"
        cons = self.cons(kind)
        tc = it.get("tc")
        self.tcomment(tc, indent, cons)
        op = "<%!" if module else "<%"
        if it.get("inline"):
            pre = "" if (tc or not it.get("pre")) else "text "
            self.emit(indent + pre + op + " " + self.name() + " = " + self._expr_src(it["stmts"][0]["calls"], kind, cons)
                      + " %>" + (" tail" if it.get("post") else ""))
            return
        lb = it.get("lead_blank", 0)
        cons["lead"] = 1 + lb
        m = " " * it.get("margin", 0)
        wsb = it.get("wsb", 0)
        opened = self.emit(indent + ("" if (tc or not it.get("pre")) else "text ") + op + ["", " ", "", "\t"][wsb])
        for _ in range(lb):
            self.emit(["", "", "  ", " \t"][wsb])
        for st in it["stmts"]:
            t = st.get("t", "assign")
            if t == "blank":
                self.emit("")
                continue
            mk = lambda: self._expr_src(st.get("calls", []), kind, cons, q=st.get("q"))
            if t == "if":
                self.emit(m + "if %s:" % self.name())
                self.emit(m + "    " + self.name() + " = " + mk())
                if st.get("else"):
                    self.emit(m + "else:")
                    self.emit(m + "    pass")
            elif t == "def":
                self.emit(m + "def %s():" % self.name("h"))
                self.emit(m + "    return " + mk())
            elif t == "callstmt":
                self.emit(m + "log(" + mk() + ")")
            else:
                self.emit(m + self.name() + " = " + mk())
        self.emit(indent + "%>" + (" tail" if it.get("post") else ""))
        # leading blank code lines (from lead_blank or from leading blank statements), counted on the emitted text
        k = opened
        while k < len(self.lines) and not self.lines[k].strip():
            k += 1
        cons["lead"] = 1 + (k - opened)

    # tags ----------------------------------------------------------------------------
    def _sig(self, args, kind, cons, q):
        """-> list of argument source strings"""
        out = []
        for a in args:
            n = self.name("a")
            if a.get("c"):
                out.append("%s=%s" % (n, self.call(a["c"], kind, cons, q=q)))
            elif a.get("dflt"):
                out.append("%s=1" % n)
            else:
                out.append(n)
        # defaults must follow non-defaults: stable partition keeps planting order irrelevant (lines assigned on emit)
        return out

    def _emit_tag(self, indent, open_, attrs, close, cons, pre=""):
        """attrs: list of (name, value_chunks, quote, brk_before). value_chunks: list of strings; a new physical
        line starts between chunks. Calls inside chunks are planted by the caller lazily: chunks are callables
        or strings. Python-bearing attributes are marked by name in cons['py'] -> off computed here."""
        cur = indent + pre + open_
        first = None
        for name, chunks, q, brk in attrs:
            if brk:
                n = self.emit(cur)
                first = first or n
                cur = indent + "    "
            else:
                cur += " "
            cur += name + "=" + q
            start_line = len(self.lines) + 1
            before = len(self.calls)
            for j, ch in enumerate(chunks):
                if j:
                    n = self.emit(cur)
                    first = first or n
                    cur = indent + "      "
                cur += ch() if callable(ch) else ch
            for r in self.calls[before:]:
                r["attr_start"] = start_line
            cur += q
        n = self.emit(cur + close)
        first = first or n
        cons["first"] = first
        return first

    def _fix_tag_calls(self, cons, ns=False):
        for r in self.calls:
            if r["cons"] is cons and "attr_start" in r:
                first = cons["first"]
                if ns:
                    if r["line"] != first:
                        r["shapes"].append("ns_later")
                    r["off"] = r["line"] - first
                else:
                    r["off"] = r["attr_start"] - first
                    if r["off"] > 0:
                        r["shapes"].append("attr_later")

    def _sig_chunks(self, fname, args, kind, cons, q, brks):
        """signature text 'f(a, b=call)' split into chunks at the requested commas"""
        def mk(part_args, head, tail):
            return lambda: head + ", ".join(self._sig(part_args, kind, cons, q)) + tail
        # order: plain args first, then defaulted
        plain = [a for a in args if not (a.get("c") or a.get("dflt"))]
        dfl = [a for a in args if (a.get("c") or a.get("dflt"))]
        args = plain + dfl
        groups = [[]]
        for i, a in enumerate(args):
            groups[-1].append(a)
            if i < len(args) - 1 and brks and brks[i % len(brks)]:
                groups.append([])
        chunks = []
        for gi, g in enumerate(groups):
            head = (fname + "(") if gi == 0 and fname is not None else ""
            tail = ("," if gi < len(groups) - 1 else (")" if fname is not None else ""))
            chunks.append(mk(g, head, tail))
        return chunks

    def _other_q(self, q):
        return "'" if q == '"' else '"'

    def i_def(self, it, depth, ctx, indent):
        cons = self.cons("def-sig")
        tc = it.get("tc")
        self.tcomment(tc, indent, cons)
        q = it.get("q", '"')
        iq = self._other_q(q)
        attrs = []
        if it.get("extra"):
            attrs.append(("buffered", ["True"], q, False))
        attrs.append(("name", self._sig_chunks(self.name("f"), it["args"], "def-sig", cons, iq, it.get("brks")), q,
                      bool(it.get("later"))))
        if it.get("extra2"):
            attrs.append(("filter", ["trim"], q, bool(it.get("brk2"))))
        self._emit_tag(indent, "<%def", attrs, ">", cons, pre="" if (tc or not it.get("pre")) else "text ")
        self._fix_tag_calls(cons)
        self.body(it.get("body", []), depth + 1, ctx + ["in:def"], indent + ("  " if it.get("ind") else ""))
        self.emit(indent + "</%def>")

    def i_block(self, it, depth, ctx, indent):
        cons = self.cons("block-args")
        tc = it.get("tc")
        self.tcomment(tc, indent, cons)
        q = it.get("q", '"')
        iq = self._other_q(q)
        attrs = []
        # only named blocks may have args; named blocks are not allowed inside def / call / ns:def bodies
        named = "in:def" not in ctx and "in:call" not in ctx and "in:ns" not in ctx
        if named:
            self.block_names += 1
            attrs.append(("name", ["blk%d" % self.block_names], q, False))
            attrs.append(("args", self._sig_chunks(None, it["args"], "block-args", cons, iq, it.get("brks")), q,
                          bool(it.get("later"))))
        self._emit_tag(indent, "<%block", attrs, ">", cons, pre="" if (tc or not it.get("pre")) else "text ")
        self._fix_tag_calls(cons)
        self.body(it.get("body", []), depth + 1, ctx + ["in:block"], indent + ("  " if it.get("ind") else ""))
        self.emit(indent + "</%block>")

    def i_page(self, it, depth, ctx, indent):
        if self.has_page or depth > 0:
            return
        self.has_page = True
        cons = self.cons("page-args")
        tc = it.get("tc")
        self.tcomment(tc, "", cons)
        q = it.get("q", '"')
        iq = self._other_q(q)
        attrs = []
        if it.get("extra"):
            attrs.append(("expression_filter", ["h"], q, False))
        attrs.append(("args", self._sig_chunks(None, it["args"], "page-args", cons, iq, it.get("brks")), q,
                      bool(it.get("later"))))
        self._emit_tag("", "<%page", attrs, "/>", cons)
        self._fix_tag_calls(cons)

    def i_call(self, it, depth, ctx, indent):
        cons = self.cons("call-expr")
        tc = it.get("tc")
        self.tcomment(tc, indent, cons)
        q = it.get("q", '"')
        iq = self._other_q(q)
        # expr="f(a, call, ...)": reuse the signature splitter with positional calls
        pieces = it["pieces"] or [{}]
        groups = [[]]
        for i, p in enumerate(pieces):
            groups[-1].append(p)
            if i < len(pieces) - 1 and p.get("brk"):
                groups.append([])
        fn = self.name("f")

        def mk(g, gi):
            def f():
                parts = [(self.call(p["c"], "call-expr", cons, q=iq) if p.get("c") else self.name()) for p in g]
                return ((fn + "(") if gi == 0 else "") + ", ".join(parts) + ("," if gi < len(groups) - 1 else ")")
            return f
        chunks = [mk(g, gi) for gi, g in enumerate(groups)]
        attrs = [("expr", chunks, q, bool(it.get("later")))]
        if it.get("args"):
            attrs.append(("args", [self.name("q")], q, bool(it.get("brk2"))))
        self._emit_tag(indent, "<%call", attrs, ">", cons, pre="" if (tc or not it.get("pre")) else "text ")
        self._fix_tag_calls(cons)
        self.body(it.get("body", []), depth + 1, ctx + ["in:call"], indent + ("  " if it.get("ind") else ""))
        self.emit(indent + "</%call>")

    def i_ns(self, it, depth, ctx, indent):
        cons = self.cons("ns-attr")
        tc = it.get("tc")
        self.tcomment(tc, indent, cons)
        q = it.get("q", '"')
        iq = self._other_q(q)
        fn = self.name("w")
        attrs = []
        for i, a in enumerate(it["attrs"]):
            an = self.name("k")
            t = a.get("t", "call")
            if t == "call" and a.get("c"):
                c = a["c"]
                if a.get("mixed"):
                    ch = (lambda c=c: "pre ${" + self.call(c, "ns-attr", cons, q=iq) + "} post")
                else:
                    ch = (lambda c=c: "${" + self.call(c, "ns-attr", cons, q=iq) + "}")
            elif t == "decoy":
                ch = (lambda: self.decoy("ns-plain-attr", q=iq))
            else:
                ch = "lit%d" % i
            attrs.append((an, [ch], q, bool(a.get("brk")) and i > 0 or bool(a.get("brk") and it.get("later"))))
        if it.get("args"):
            attrs.append(("args", [self.name("q")], q, bool(it.get("brk2"))))
        selfclose = it.get("selfclose") and not it.get("body")
        self._emit_tag(indent, "<%self:" + fn, attrs, "/>" if selfclose else ">", cons,
                       pre="" if (tc or not it.get("pre")) else "text ")
        self._fix_tag_calls(cons, ns=True)
        if not selfclose:
            self.body(it.get("body", []), depth + 1, ctx + ["in:ns"], indent + ("  " if it.get("ind") else ""))
            self.emit(indent + "</%self:" + fn + ">")


def build(plan):
    """-> raw case dict (see module docstring) and label Counter"""
    b = Builder(plan)
    if plan["decl"] == "coding":
        b.emit("## -*- coding: %s -*-" % plan["enc"])
    # remember nesting context per call: wrap items() to tag calls made while inside
    _build_items(b, plan["items"], 0, [], "")
    if not plan.get("eof_nl", True):
        b.emit("end")
    nl = b.nl
    src = nl.join(b.lines) + (nl if plan.get("eof_nl", True) else "")
    _stale(b)
    calls = []
    for r in b.calls:
        c = r["cons"]
        assert r["line"] is not None, r
        shapes = sorted(set(r["shapes"]) | set(c["shapes"]))
        calls.append({
            "line": r["line"], "func": r["func"], "msgs": r["msgs"], "comments": list(c["comments"]),
            "kind": r["kind"], "ctx": r.get("ctx", []), "shapes": shapes, "lead": c["lead"],
            "first": c["first"], "off": r.get("off", 0), "split_obs": c.get("split_obs"),
            "tc_far": bool(c.get("tc_far")), "stale": c.get("stale", {"babel": [], "lingua": []}),
            "pycomment": c.get("pycomment"),
        })
    raw = {"src": src, "enc": plan["enc"], "decl": plan["decl"], "tags": list(plan["tags"]), "tagjoin": plan.get("tagjoin", " "), "calls": calls,
           "decoys": b.decoys}
    return raw, b.labels


def _build_items(b, its, depth, ctx, indent):
    # record the nesting context on every call planted at this level or below
    orig = b.items

    def items(its, depth, ctx, indent=""):
        for it in its:
            before = len(b.calls)
            getattr(b, "i_" + it["k"])(it, depth, ctx, indent)
            for r in b.calls[before:]:
                r.setdefault("ctx", list(ctx))
    b.items = items
    try:
        items(its, depth, ctx, indent)
    finally:
        b.items = orig


def _stale(b):
    """For every construct: the tagged comment runs that sit directly before earlier constructs of the same node
    list which have no extractable call, with no other construct in between (layout class of the stale-comment
    finding). Per extractor, because `% except` lines are invisible to Lingua and filter arguments to both."""
    def yields(c, ext):
        for r in b.calls:
            if r["cons"] is c and "filter" not in r["shapes"] and not (ext == "lingua" and "except" in r["shapes"]):
                return True
        return False
    for ext in ("babel", "lingua"):
        pending = {}
        for c in b.conses:
            p = pending.get(c["lvl"], [])
            c.setdefault("stale", {})[ext] = [list(r) for r in p]
            contrib = c.get("split_obs") or c["run"]
            if contrib and not yields(c, ext):
                pending[c["lvl"]] = p + [list(contrib)]
            else:
                pending[c["lvl"]] = []

"""Hypothesis generator of tgen programs (feature-masked)."""
import re

from hypothesis import strategies as st

TEXT_ALPHA = list("abcxyz01 .,;:!?()[]-_=+*") + ["\n", "\n", " ", "\t", "é", "\r\n"]
INDENTS = ["", "", " ", "  ", "\t", "    ", " \t"]
LEN_ITERS = [("cl", "str"), ("ce", "str"), ("'abc'", "str"), ("range(cn)", "int"), ("(1, 2)", "int"), ("cd", "str"),
             ("[cs, cs]", "str"), ("range(0)", "int"), ("cl[0:2]", "str"), ("cl[:]", "str"), ("sorted(cl, key=lambda z: z)", "str"),
             ("{1: 'a', 2: 'b'}", "int"), ("cl[1:]", "str")]
NOLEN_ITERS = [("gen(2)", "str"), ("iter(cl)", "str"), ("gen(0)", "str"), ("(z for z in cl)", "str")]
ALL_FEATURES = {"control", "py", "loop", "def", "ccall", "capture", "block", "flags", "texttag", "try", "with",
                "return", "raise", "nested_def", "decorator"}


class Scope:
    def __init__(self, kind, parent=None):
        self.kind = kind
        self.vars = list(parent.vars) if parent is not None and kind in ("block", "cbody") else []
        self.foreign = {v for v, _ in self.vars}  # readable by closure, not assignable here
        self.loops = []  # enclosing `for` loops of this scope that may use `loop`: dicts {"has_len":bool}
        self.in_loop = 0
        self.in_try = 0
        self.no_return = False  # known finding C05-early-return-drops-buffered-content: excluded by construction
        self.defs = dict(parent.defs) if parent is not None else {}
        self.has_caller = None  # None | dict describing what caller offers


class G:
    def __init__(self, data, features, enable_loop=True, max_depth=4):
        self.data = data
        self.pos = 0
        self.f = set(features)
        self.n = 0
        self.enable_loop = enable_loop
        self.max_depth = max_depth
        self.optional_caller = 40
        self.topdefs = {}
        self._forced = []  # argument expressions the next simple_arg() calls must return

    def uid(self, p="v"):
        self.n += 1
        return "%s%d" % (p, self.n)

    # all randomness comes from one hypothesis-drawn byte string (fast: a single choice node; shrinking zeroes
    # bytes, and a zero byte always selects the first/simplest alternative)
    def _byte(self):
        if self.pos < len(self.data):
            b = self.data[self.pos]
            self.pos += 1
            return b
        return 0

    def pick(self, seq):
        seq = list(seq)
        n = len(seq)
        if n == 1:
            return seq[0]
        if n <= 256:
            return seq[self._byte() % n]
        return seq[(self._byte() * 256 + self._byte()) % n]

    def chance(self, p):
        return (self._byte() % 100) >= 100 - p

    def int(self, a, b):
        return a + self._byte() % (b - a + 1)

    # ---- expressions --------------------------------------------------
    def expr(self, sc, depth=0):
        """a python expression text whose str() is deterministic"""
        opts = ["cs", "cn + 1", "cl[0]", "len(cl)", "'lit'", "cs + '!'", "cd['k']", "cn * 2", "'%s-%s' % (cs, cn)"]
        w = [(3, "base")]
        if sc.vars:
            w.append((4, "var"))
        if sc.loops and self.enable_loop:
            w.append((5, "loop"))
        if sc.defs and depth < 2:
            w.append((4, "call"))
            if "capture" in self.f:
                w.append((2, "capture"))
        if not self.enable_loop:
            w.append((1, "loopname"))
        kind = self.pick([k for n, k in w for _ in range(n)])
        if kind == "base":
            return self.pick(opts)
        if kind == "var":
            name, ty = self.pick(sc.vars)
            return self.pick(["%s", "str(%s) + '.'", "(%s,)[0]"]) % name
        if kind == "loopname":
            return "loop"
        if kind == "loop":
            L = sc.loops[-1]
            attrs = ["loop.index", "loop.first", "loop.even", "loop.odd", "loop.cycle('a', 'b', 'c')", "loop.index + 1",
                     "loop.cycle(cs)"]
            if L["has_len"] or self.chance(8):
                attrs += ["loop.last", "loop.reverse_index", "len(loop)"]
            if len(sc.loops) >= 2:
                attrs += ["loop.parent.index", "loop.parent.first", "loop.parent.cycle('x', 'y')"]
                if len(sc.loops) >= 3:
                    attrs += ["loop.parent.parent.index"]
            return self.pick(attrs)
        if kind in ("call", "capture"):
            name = self.pick(sorted(n for n, d in sc.defs.items() if not d.get("wants_caller") or d.get("caller_optional")) or [None])
            if name is None:
                return self.pick(opts)
            call = self.callargs(sc, sc.defs[name], depth)
            via = self.pick(["%s", "%s", "self.%s", "local.%s"]) if sc.defs[name].get("top") else "%s"
            if kind == "capture":
                c = "capture(%s%s)" % (via % name, (", " + call) if call else "")
                return self.pick(["%s", "'<' + %s + '>'", "%s.upper()"]) % c
            c = "%s(%s)" % (via % name, call)
            if sc.defs[name].get("buffered"):
                return self.pick(["%s", "'<' + %s + '>'", "%s.upper()"]) % c
            return self.pick(["%s", "%s", "'<' + %s + '>'"]) % c
        raise AssertionError(kind)

    def simple_arg(self, sc):
        if self._forced:
            return self._forced.pop()
        opts = ["1", "'s'", "cs", "cn"]
        opts += [v for v, _ in sc.vars[-3:]]
        return self.pick(opts)

    def callargs(self, sc, info, depth=0):
        """argument text for a def with signature info"""
        parts = []
        for p in info["req"]:
            if self.chance(25):
                parts.append("%s=%s" % (p, self.simple_arg(sc)))
            else:
                parts.append(self.simple_arg(sc))
        # positional must precede keyword: reorder
        pos = [p for p in parts if "=" not in p]
        kw = [p for p in parts if "=" in p]
        # keyword for an earlier parameter after positionals for later ones is illegal: make all kw if any kw
        if kw and pos:
            parts2 = []
            for name, p in zip(info["req"], parts):
                parts2.append(p if "=" in p else "%s=%s" % (name, p))
            pos, kw = [], parts2
        if not kw:
            for p in info["opt"]:
                if self.chance(40):
                    pos.append(self.simple_arg(sc))
                else:
                    break
            else:
                if info.get("star") and self.chance(50):
                    pos += [self.simple_arg(sc) for _ in range(self.int(1, 2))]
        else:
            for p in info["opt"]:
                if self.chance(40):
                    kw.append("%s=%s" % (p, self.simple_arg(sc)))
        for p in info.get("kwonly", []):
            if self.chance(50):
                kw.append("%s=%s" % (p, self.simple_arg(sc)))
        for p in info.get("kwreq", []):
            kw.append("%s=%s" % (p, self.simple_arg(sc)))
        if info.get("kwargs") and self.chance(40):
            kw.append("zz=%s" % self.simple_arg(sc))
        return ", ".join(pos + kw)

    def cond(self, sc):
        opts = ["cn > 2", "cn > 5", "not ce", "ce", "True", "False", "cs == 'S'", "len(cl) > 1"]
        if sc.loops and self.enable_loop:
            opts += ["loop.first", "loop.odd", "loop.index == 1", "not loop.first"]
            if sc.loops[-1]["has_len"]:
                opts += ["loop.last"]
        for v, ty in sc.vars[-3:]:
            if ty == "str":
                opts += ["%s == 'q'" % v, "%s != 'p'" % v]
            elif ty == "int":
                opts += ["%s > 0" % v, "%s == 1" % v]
        c = self.pick(opts)
        if self.chance(12):
            # control line continued over a physical line (backslash-newline inside the Python text)
            c = self.pick(["%s and \\\n    True", "True and \\\n%s", "(%s or \\\n  False)"]) % c
        return c

    # ---- text ---------------------------------------------------------
    def text(self):
        s = "".join(self.pick(TEXT_ALPHA) for _ in range(self.int(1, 8)))
        return {"t": "text", "s": s}

    def marker(self):
        return {"t": "text", "s": "«%d»" % self.uid_n()}

    def uid_n(self):
        self.n += 1
        return self.n

    # ---- bodies -------------------------------------------------------
    def body(self, sc, depth, minlen=0, maxlen=4, allow_empty=True, direct=False):
        n = self.int(minlen, maxlen)
        if n == 0 and allow_empty and self.chance(50):
            # empty or comment-only body
            return [{"t": "comment", "s": " c", "ind": self.pick(INDENTS)}] if self.chance(50) else []
        out = []
        mark = len(sc.vars)
        for _ in range(max(n, 1 if not allow_empty else n)):
            out.append(self.node(sc, depth, direct=direct))
        del sc.vars[mark:]  # names bound inside a body may be unbound after it
        return out

    def node(self, sc, depth, direct=False):
        kinds = [(5, "text"), (5, "expr"), (2, "marker")]
        deep = depth < self.max_depth
        if "control" in self.f and deep:
            kinds += [(3, "if"), (4, "for"), (1, "while")]
            if "try" in self.f:
                kinds.append((2, "try"))
            if "with" in self.f:
                kinds.append((1, "with"))
        if "py" in self.f:
            kinds.append((3, "py"))
        if "control" in self.f:
            kinds.append((1, "comment"))
        if "block" in self.f and deep:
            kinds.append((1, "block"))
        if "ccall" in self.f and deep and any(d.get("wants_caller") for d in sc.defs.values()):
            kinds.append((4, "ccall"))
        if "texttag" in self.f:
            kinds.append((1, "texttag"))
        if sc.in_loop and "control" in self.f:
            kinds.append((1, "breakif"))
        if sc.in_try and "raise" in self.f:
            kinds.append((2, "boomif"))
        if "return" in self.f and depth >= 1 and not sc.no_return and self.chance(30):
            kinds.append((1, "returnif"))
        if sc.has_caller and self.chance(60):
            kinds.append((5, "callerbody"))
        if "nested_def" in self.f and deep and sc.kind in ("def",) and direct:
            kinds.append((1, "nested_def"))
        kind = self.pick([k for n, k in kinds for _ in range(n)])
        ind = self.pick(INDENTS)
        sp = self.pick([" ", "", "  "])
        if kind == "text":
            return self.text()
        if kind == "marker":
            return self.marker()
        if kind == "expr":
            return {"t": "expr", "e": self.expr(sc)}
        if kind == "comment":
            return {"t": "comment", "s": self.pick([" note", "", " % if x:", " ${y}"]), "ind": ind}
        if kind == "if":
            arms = [[self.cond(sc), self.body(sc, depth + 1)]]
            for _ in range(self.int(0, 2)):
                arms.append([self.cond(sc), self.body(sc, depth + 1)])
            els = self.body(sc, depth + 1) if self.chance(50) else None
            return {"t": "if", "arms": arms, "else": els, "ind": ind, "sp": sp}
        if kind == "for":
            return self.for_(sc, depth, ind, sp)
        if kind == "while":
            v = self.uid("w")
            sc.vars.append((v, "int"))
            sc.in_loop += 1
            body = self.body(sc, depth + 1, maxlen=3)
            sc.in_loop -= 1
            body.append({"t": "py", "code": ["%s += 1" % v], "oneline": True})
            # a `continue` before the increment would loop forever: strip continues from this body
            body = _strip(body, "continue")
            return {"t": "seq", "nodes": [
                {"t": "py", "code": ["%s = 0" % v], "oneline": True},
                {"t": "while", "cond": "%s < %d" % (v, self.int(0, 3)), "body": body, "ind": ind, "sp": sp}]}
        if kind == "boomif":
            cls = self.pick(["Boom", "Boom2", "ValueError"])
            return {"t": "if", "arms": [[self.cond(sc), [{"t": "expr", "e": "boom(%s)" % cls}]]], "else": None, "ind": ind, "sp": sp}
        if kind == "try":
            sc.in_try += 1
            body = self.body(sc, depth + 1, minlen=1)
            sc.in_try -= 1
            if "raise" in self.f and self.chance(70):
                pos = self.int(0, len(body))
                cls = self.pick(["Boom", "Boom2", "ValueError"])
                body.insert(pos, {"t": "expr", "e": "boom(%s)" % cls})
            handlers = []
            for _ in range(self.int(1, 2)):
                spec = self.pick(["Boom", "Boom as e%d" % self.uid_n(), "(Boom, Boom2)", "Exception", "", "ValueError", "Boom2"])
                handlers.append([spec, self.body(sc, depth + 1)])
                if spec == "":
                    break
            node = {"t": "try", "body": body, "handlers": handlers, "ind": ind, "sp": sp}
            # an uncaught exception ends the render; keep most programs alive with an outer catch-all
            return node
        if kind == "with":
            tag = self.uid("m")
            as_ = self.uid("a") if self.chance(60) else None
            mark = len(sc.vars)
            if as_:
                sc.vars.append((as_, "str"))
            node = {"t": "with", "cm": "rec('%s')" % tag, "as": as_, "body": self.body(sc, depth + 1) + [
                {"t": "expr", "e": "showlog()"}], "ind": ind, "sp": sp}
            del sc.vars[mark:]
            return node
        if kind == "py":
            return self.py(sc)
        if kind == "breakif":
            what = self.pick(["break", "break", "continue"])
            return {"t": "if", "arms": [[self.cond(sc), [{"t": what}]]], "else": None, "ind": ind, "sp": sp}
        if kind == "returnif":
            return {"t": "if", "arms": [[self.cond(sc), [self.marker(), {"t": "return", "form": self.pick(["STOP_RENDERING", "''"])}]]],
                    "else": None, "ind": ind, "sp": sp}
        if kind == "block":
            bsc = Scope("block", sc)
            bsc.defs = dict(sc.defs)
            bsc.has_caller = sc.has_caller  # an anonymous block is part of the callable it is written in: same `caller`
            filt = [self.pick(["fa", "fb", "up"])] if "flags" in self.f and self.chance(40) else []
            bsc.no_return = bool(filt)
            return {"t": "block", "name": None, "body": self.body(bsc, depth + 1, minlen=1), "filter": filt}
        if kind == "texttag":
            filt = [self.pick(["fa", "fb", "up"])] if "flags" in self.f and self.chance(50) else []
            return {"t": "texttag", "s": self.pick(["raw ${x} <%def>", "% not control", "## not comment\n", "t"]), "filter": filt}
        if kind == "callerbody":
            c = sc.has_caller
            opts = []
            args = ", ".join("%s=%s" % (a, self.simple_arg(sc)) for a in c["body_args"])
            opts.append("caller.body(%s)" % args)
            for dn, info in c["defs"].items():
                opts.append("caller.%s(%s)" % (dn, self.callargs(sc, info)))
            e = self.pick(opts)
            if self.chance(25) and "capture" in self.f:
                fn, _, rest = e.partition("(")
                rest = rest[:-1]
                e = "capture(%s%s)" % (fn, ", " + rest if rest else "")
            return {"t": "expr", "e": e}
        if kind == "ccall":
            return self.ccall(sc, depth)
        if kind == "nested_def":
            return self.def_(sc, depth, top=False)
        raise AssertionError(kind)

    def for_(self, sc, depth, ind, sp):
        withlen = self.chance(75)
        it, ty = self.pick(LEN_ITERS if withlen else NOLEN_ITERS)
        if self.chance(15):
            it, ty, target = "ct", "str", None
        if "raise" in self.f and self.chance(8):
            # the iterable itself raises: nothing of this loop was entered, an enclosing loop's `loop` is untouched
            it, ty, withlen = "boom(%s)" % self.pick(["Boom", "Boom2", "ValueError"]), "str", False
        tv = self.uid("x")
        if it == "ct":
            t2 = self.uid("y")
            target = self.pick(["%s, %s", "(%s, %s)"]) % (tv, t2)
            newvars = [(tv, "str"), (t2, "int")]
        elif self.chance(15) and withlen:
            t2 = self.uid("i")
            target = "%s, %s" % (t2, tv)
            it = "enumerate(%s)" % it
            withlen = False
            newvars = [(t2, "int"), (tv, ty)]
        else:
            target = tv
            newvars = [(tv, ty)]
            hdr = self.int(0, 15) if not it.startswith("boom(") else 99
            if hdr == 0:
                # a tuple without parentheses as the iterable
                it, newvars, withlen = "cs, cx0, cx1", [(tv, "str")], True
            elif hdr == 1:
                # a starred target (the starred name is not used by the body)
                target, it, newvars, withlen = "%s, *%s" % (tv, self.uid("r")), "[(cs, cn), (cx0, cn, cn)]", [(tv, "str")], True
            elif hdr == 3:
                # characters outside ASCII in the header, before the end of the iterable
                it, newvars, withlen = "['\u00e9\u00f1' + cs, '\u65e5', cx0]", [(tv, "str")], True
            elif hdr == 2:
                # the header continued over two lines
                it, newvars, withlen = "[cs, \\\n    cx0]", [(tv, "str")], True
        mark = len(sc.vars)
        sc.vars += newvars
        sc.loops.append({"has_len": withlen})
        sc.in_loop += 1
        body = self.body(sc, depth + 1, minlen=1)
        if self.enable_loop and self.chance(40):
            # read `loop` again after whatever the body did (inner loops, handled exceptions, ...)
            body.append({"t": "expr", "e": self.pick(["loop.index", "loop.first", "loop.cycle('a', 'b')"])})
        sc.in_loop -= 1
        sc.loops.pop()
        del sc.vars[mark:]
        els = self.body(sc, depth + 1, maxlen=2) if self.chance(25) else None
        node = {"t": "for", "target": target, "iter": it, "body": body, "else": els, "ind": ind, "sp": sp}
        return node

    def py(self, sc):
        form = self.pick(["assign", "assign", "aug", "write", "multi", "forpy", "pass"])
        margin = self.pick(["", "  ", "    ", "\t", "        "])
        one = self.chance(40)
        if form == "assign":
            v = self.uid("v")
            e, ty = self.pick([("cs + 'a'", "str"), ("cn + 1", "int"), ("'z'", "str"), ("len(cl)", "int"), ("cl[1]", "str")])
            sc.vars.append((v, ty))
            return {"t": "py", "code": ["%s = %s" % (v, e)], "margin": margin, "oneline": one}
        if form == "aug":
            foreign = getattr(sc, "foreign", set())
            ints = [v for v, ty in sc.vars if ty == "int" and v[0] == "v" and v not in foreign]
            if ints:
                return {"t": "py", "code": ["%s += 2" % self.pick(ints)], "margin": margin, "oneline": one}
            form = "write"
        if form == "write":
            return {"t": "py", "code": ["context.write(%s)" % self.pick(["'W'", "str(cn)", "cs"])], "margin": margin, "oneline": one}
        if form == "multi":
            v = self.uid("v")
            c = self.cond(sc)
            sc.vars.append((v, "str"))
            return {"t": "py", "code": ["if %s:" % c.replace("\\\n", " "), "    %s = 'a'" % v, "", "else:", "    %s = 'b'  # c" % v,
                                        "context.write('[' + %s + ']')" % v], "margin": margin}
        if form == "forpy":
            return {"t": "py", "code": ["for _i in range(2):", "    context.write('z%d' % _i)"], "margin": margin}
        return {"t": "py", "code": ["pass"], "margin": margin, "oneline": one}

    # ---- defs ---------------------------------------------------------
    def def_(self, sc, depth, top=True, wants_caller=None):
        name = self.uid("d")
        req = [self.uid("p") for _ in range(self.int(0, 2))]
        opt = [self.uid("o") for _ in range(self.int(0, 2))]
        star = self.chance(20)
        kwonly = [self.uid("k")] if star and self.chance(50) else []
        kwreq = [self.uid("m")] if kwonly and self.chance(50) else []  # keyword-only WITHOUT default, written after one with a default
        kwargs = self.chance(20)
        # defaults of nested defs are evaluated where the def is declared, inside a render callable: they may read context names
        dchoices = ["'dflt'", "7", "None", "'x' * 2"] + ([] if top else ["cs", "len(cl)", "cs.lower()"])
        parts = list(req) + ["%s=%s" % (o, self.pick(dchoices)) for o in opt]
        if star:
            parts.append("*args")
        parts += ["%s=%s" % (k, "'kd'" if top else self.pick(["'kd'", "cs * 2", "len(cl) + cn", "cx1"])) for k in kwonly] + list(kwreq)
        if kwargs:
            parts.append("**kw")
        info = {"req": req, "opt": opt, "star": star, "kwonly": kwonly, "kwreq": kwreq, "kwargs": kwargs, "top": top}
        dsc = Scope("def", sc if not top else None)
        dsc.defs = dict(sc.defs) if not top else dict(self.topdefs)
        if not top:
            dsc.vars = list(sc.vars)
            dsc.foreign = {v for v, _ in sc.vars}
        dsc.vars += [(p, "str") for p in req + opt + kwonly + kwreq]
        if star:
            dsc.vars.append(("args", "any"))
        if kwargs:
            dsc.vars.append(("kw", "any"))
        flags = {}
        if "flags" in self.f:
            flags["buffered"] = self.chance(30)
            flags["filter"] = [self.pick(["fa", "fb", "up"]) for _ in range(self.int(1, 2))] if self.chance(30) else []
        if "decorator" in self.f and self.chance(25):
            flags["decorator"] = self.pick(["deco", "deco2"])
        dsc.no_return = bool(flags.get("buffered") or flags.get("filter"))
        if wants_caller is None:
            wants_caller = "ccall" in self.f and self.chance(50) and not flags.get("decorator")
        if wants_caller:
            bargs = [self.uid("b") for _ in range(self.int(0, 2))]
            if bargs and self.chance(25):
                # a body argument named like a context variable that is read nowhere but in the call's own arguments
                bargs[0] = "cx%d" % self.int(0, 1)
            cdefs = {}
            if self.chance(30):
                cdefs[self.uid("n")] = {"req": [self.uid("q")] if self.chance(50) else [], "opt": [], "star": False,
                                        "kwonly": [], "kwargs": False}
            dsc.has_caller = {"body_args": bargs, "defs": cdefs}
            info["wants_caller"] = dict(dsc.has_caller)
        optional = bool(wants_caller) and self.chance(self.optional_caller)
        if optional:
            # the def works with and without content: every use of `caller` is guarded by `% if caller:`
            hc = dsc.has_caller
            inner = self.body(dsc, depth + 2, minlen=1, allow_empty=False)
            if not _mentions(inner, "caller."):
                args = ", ".join("%s=%s" % (a, self.simple_arg(dsc)) for a in hc["body_args"])
                inner.append({"t": "expr", "e": "caller.body(%s)" % args})
            dsc.has_caller = None
            body = [{"t": "if", "arms": [["caller", inner]], "else": [{"t": "text", "s": "(nc)"}], "ind": "", "sp": " "}]
            body += self.body(dsc, depth + 1, minlen=0, maxlen=2, direct=True)
            info["caller_optional"] = True
        else:
            body = self.body(dsc, depth + 1, minlen=1, allow_empty=False, direct=True)
            if wants_caller and not _mentions(body, "caller."):
                args = ", ".join("%s=%s" % (a, self.simple_arg(dsc)) for a in dsc.has_caller["body_args"])
                body.append({"t": "expr", "e": "caller.body(%s)" % args})
        info.update(flags)
        node = {"t": "def", "name": name, "sig": ", ".join(parts), "body": body}
        node.update(flags)
        sc.defs[name] = info
        if top:
            self.topdefs[name] = info
        return node

    def ccall(self, sc, depth):
        cands = sorted(n for n, d in sc.defs.items() if d.get("wants_caller"))
        name = self.pick(cands)
        info = sc.defs[name]
        wc = info["wants_caller"]
        bsc = Scope("cbody", sc)
        bsc.defs = dict(sc.defs)
        bsc.vars = list(sc.vars) + [(a, "str") for a in wc["body_args"]]
        kwrest = self.chance(15)
        if kwrest:
            bsc.vars.append(("bkw", "any"))  # a ** catch-all of the body: a parameter like the others
        bsc.foreign = {v for v, _ in sc.vars}
        bsc.has_caller = sc.has_caller  # inside the body, `caller` is the caller of the enclosing callable
        defs = []
        for dn, dinfo in wc["defs"].items():
            dsc = Scope("def", sc)
            # (a context name that is also a body argument of this call is, in the call's other defs, still the context name)
            dsc.vars = list(sc.vars) + [(a, "str") for a in wc["body_args"] if a.startswith("cx")] + [(p, "str") for p in dinfo["req"]]
            dsc.foreign = {v for v, _ in sc.vars}
            dsc.defs = dict(sc.defs)
            dnode = {"t": "def", "name": dn, "sig": ", ".join(dinfo["req"]), "body": self.body(dsc, depth + 1, minlen=1, allow_empty=False)}
            if "decorator" in self.f and self.chance(30):
                dnode["decorator"] = self.pick(["deco", "deco2"])  # still reachable as caller.<name>
            defs.append(dnode)
        body = self.body(bsc, depth + 1, minlen=1, allow_empty=False)
        empty = not wc["defs"] and self.chance(12)
        if empty:
            body = []  # a call with no content at all (also written self-closing)
        spelling = "call"
        if info.get("top") and self.chance(50) and not info["star"]:
            spelling = "ns"  # (defs with *args - hence keyword-only parameters - are called with the <%call> spelling)
        sig = list(wc["body_args"])
        if len(sig) == 2 and self.chance(30):
            sig = [sig[0], "*", sig[1]]  # the callee passes body arguments by keyword: a keyword-only one works as well
        node = {"t": "ccall", "spelling": spelling, "ns": self.pick(["self", "local"]), "target": name,
                "body_args": ", ".join(sig + (["**bkw"] if kwrest else [])) or None, "body": body, "defs": defs}
        if empty and self.chance(50):
            node["selfclose"] = True
        cx = [a for a in wc["body_args"] if a.startswith("cx")]
        if cx and info["req"]:
            self._forced = [self.pick([cx[0], "%s + '!'" % cx[0], "ident(%s)" % cx[0]])]
        elif info["req"] and sc.in_loop and sc.loops and self.enable_loop and self.chance(35):
            # the loop object named only in the argument / attribute of the call tag
            self._forced = [self.pick(["str(loop.index)", "str(loop.first)", "loop.cycle('p', 'q')"])]
        if spelling == "call":
            node["callargs"] = self.callargs(sc, info)
        else:
            attrs = []
            for p in info["req"] + [o for o in info["opt"] if self.chance(40)]:
                kind = self.pick(["lit", "expr", "mix"])
                if kind == "lit":
                    v = self.pick(["abc", "a b", "1", "", " ", "  "])
                elif kind == "expr":
                    v = "${%s}" % self.simple_arg(sc)
                else:
                    # (every literal piece of a mixture counts, also one that is white space only)
                    v = self.pick(["x${%s}y${cs}", "${%s}-t", "pre-${%s}", "a${cs}b${%s}", "${%s} ${cs}", " ${%s}", "${cs}  ${%s}\t"]) % self.pick(
                        ["cs", "'q'", "cs if cn > 2 else 'w'", "ident(cs) if cn > 5 else ident('w')", "cs or ident('z')",
                         "ident('') or ident(cs)", "cn > 2 and ident(cs)"] + [v for v, ty in sc.vars[-2:] if ty == "str"])
                attrs.append([p, kind, v])
            node["attrs"] = attrs
        self._forced = []
        return node


def _mentions(nodes, needle):
    import json

    return needle in json.dumps(nodes)


def _strip(nodes, what):
    out = []
    for n in nodes:
        if n["t"] == what:
            continue
        if n["t"] == "if":
            n = dict(n, arms=[[c, _strip(b, what)] for c, b in n["arms"]], **({"else": _strip(n["else"], what)} if n.get("else") else {}))
        elif n["t"] == "with":
            n = dict(n, body=_strip(n["body"], what))
        elif n["t"] == "for" and n.get("else"):
            n = dict(n, **{"else": _strip(n["else"], what)})
        elif n["t"] == "seq":
            n = dict(n, nodes=_strip(n["nodes"], what))
        elif n["t"] == "try":
            n = dict(n, body=_strip(n["body"], what), handlers=[[s_, _strip(b, what)] for s_, b in n["handlers"]])
        out.append(n)
    return out


def flatten_seq(nodes):
    """expand the {"t":"seq"} helper nodes and compute uses_loop for every `for`"""
    out = []
    for n in nodes:
        if n["t"] == "seq":
            out += flatten_seq(n["nodes"])
            continue
        n = dict(n)
        for key in ("body", "else"):
            if isinstance(n.get(key), list):
                n[key] = flatten_seq(n[key])
        if n["t"] == "if":
            n["arms"] = [[c, flatten_seq(b)] for c, b in n["arms"]]
        if n["t"] == "try":
            n["handlers"] = [[s, flatten_seq(b)] for s, b in n["handlers"]]
        if n["t"] == "ccall":
            n["defs"] = flatten_seq(n["defs"])
        if n["t"] == "for":
            n["uses_loop"] = mentions_loop(n["body"]) or (n.get("else") is not None and mentions_loop(n["else"]))
        out.append(n)
    return out


def mentions_loop(nodes):
    """does any python-bearing text directly in these nodes (not inside nested scopes) mention `loop`?"""
    pat = re.compile(r"\bloop\b")
    for n in nodes:
        t = n["t"]
        if t == "expr" and pat.search(n["e"]):
            return True
        if t == "py" and any(pat.search(l) for l in n["code"]):
            return True
        if t == "if":
            if any(pat.search(c) or mentions_loop(b) for c, b in n["arms"]):
                return True
            if n.get("else") and mentions_loop(n["else"]):
                return True
        if t in ("for", "while", "with"):
            if pat.search(n.get("iter", "") + n.get("cond", "") + n.get("cm", "")):
                return True
            if mentions_loop(n["body"]) or (n.get("else") and mentions_loop(n["else"])):
                return True
        if t == "try":
            if mentions_loop(n["body"]) or any(mentions_loop(b) for _, b in n["handlers"]):
                return True
        if t == "ccall" and pat.search((n.get("callargs") or "") + " ".join(str(a[2]) for a in n.get("attrs") or [])):
            return True  # (in the argument / attribute expressions of the tag itself, which belong to the enclosing scope)
        if t in ("block", "ccall", "def"):
            # nested scopes: the generator never mentions loop inside them
            continue
    return False


NBYTES = 1200


def build(data, features, enable_loop=True, max_depth=4, ndefs=(0, 3), body_len=(2, 7), optional_caller=40):
    g = G(data, features, enable_loop=enable_loop, max_depth=max_depth)
    g.optional_caller = optional_caller
    sc = Scope("body")
    nodes = []
    if "def" in g.f:
        for _ in range(g.int(*ndefs)):
            nodes.append(g.def_(sc, 0, top=True))
            if g.chance(50):
                nodes.append(g.text())
    n = g.int(*body_len)
    for _ in range(n):
        nodes.append(g.node(sc, 0))
    return {"body": flatten_seq(nodes)}


def programs(features, enable_loop=True, max_depth=4, ndefs=(0, 3), body_len=(2, 7), optional_caller=40):
    return st.binary(min_size=NBYTES, max_size=NBYTES).map(
        lambda data: build(data, features, enable_loop=enable_loop, max_depth=max_depth, ndefs=ndefs, body_len=body_len,
                           optional_caller=optional_caller))

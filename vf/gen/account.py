"""Parse tree -> source accounting (DESIGN 3.6).

Given the decoded source and the node tree from Lexer(text).parse(), every character of the
source must belong to exactly one node's own span or to "glue" (closing tags, backslash-newline
pairs, the magic coding comment), at the (lineno, pos) the node reports.

Predicates are stated on the *output* of the lexer and do not re-implement its matcher cascade.
"""
import re

GLUE = re.compile(r"(?:\\\r?\n|</%[\t ]*[^\t ]+?[\t ]*>)*\Z", re.S)
GLUE_NO_CLOSE = re.compile(r"(?:\\\r?\n)*\Z", re.S)
CODING = re.compile(r"#.*coding[:=]\s*([-\w.]+).*\r?\n")
CTRL = re.compile(r"[\t ]*(%(?!%)|##)[\t ]*((?:(?:\\\r?\n)|[^\r\n])*)(?:\r?\n|\Z)")
PCT = re.compile(r"(\s*)%%(%*)")


class Mismatch(Exception):
    def __init__(self, kind, msg, node=None):
        super().__init__(msg)
        self.kind = kind
        self.msg = msg
        self.node = node


def flatten(template_node):
    from mako import parsetree

    out = []

    def walk(nodes, in_text):
        for n in nodes:
            out.append((n, in_text))
            if isinstance(n, parsetree.Tag):
                walk(n.nodes, n.keyword == "text")

    walk(template_node.nodes, False)
    return out


def line_starts(text):
    starts = [0]
    i = text.find("\n")
    while i != -1:
        starts.append(i + 1)
        i = text.find("\n", i + 1)
    return starts


def offset_of(node, starts, n):
    if not (1 <= node.lineno <= len(starts)):
        raise Mismatch("bad-lineno", "node %r reports line %r of %d" % (node, node.lineno, len(starts)), node)
    off = starts[node.lineno - 1] + node.pos - 1
    if off < 0 or off > n:
        raise Mismatch("bad-pos", "node %r reports offset %d outside 0..%d" % (node, off, n), node)
    return off


def is_glue(s):
    return GLUE.match(s) is not None


def at_line_start(text, off):
    return off == 0 or text[off - 1] == "\n"


def _scan_open_tag(region, keyword):
    """Return end index of the opening tag text '<%kw ...>' (linear scan) or None."""
    head = "<%" + keyword
    if not region.startswith(head):
        return None
    i = len(head)
    n = len(region)
    while i < n:
        c = region[i]
        if c in "\"'":
            j = region.find(c, i + 1)
            if j == -1:
                return None
            i = j + 1
        elif c == ">":
            return i + 1
        elif c == "/" and region[i:i + 2] == "/>":
            return i + 2
        elif c.isspace() or c in "=," or c.isalnum() or c == "_":
            i += 1
        else:
            return None
    return None


def _line_construct(text, off, region, op, body):
    """region == [ \t]* op [ \t]* body terminator glue, body free of bare line breaks, terminator LF | CRLF | EOF."""
    m = re.match(r"[\t ]*", region)
    i = m.end()
    if not region.startswith(op, i):
        return False
    i += len(op)
    if op == "%" and region.startswith("%", i):
        return False
    i = re.compile(r"[\t ]*").match(region, i).end()
    if body[:1] in (" ", "\t"):
        return False
    if not region.startswith(body, i):
        return False
    if not re.fullmatch(r"(?:\\\r?\n|[^\r\n])*", body):
        return False
    i += len(body)
    if region.startswith("\r\n", i):
        i += 2
    elif region.startswith("\n", i):
        i += 1
    elif off + i != len(text):
        return False
    return is_glue(region[i:])


def check_node(text, node, in_text, region, off):
    """region = text[off:next_off]; must be own_span(node) + glue."""
    from mako import parsetree
    from mako.pygen import adjust_whitespace

    if isinstance(node, parsetree.Text):
        c = node.content
        if in_text:
            # body of <%text>: verbatim, then its closing tag, then glue
            if not region.startswith(c):
                raise Mismatch("text-body-differs", "<%%text> body %r is not at its position (%r)" % (c, region[:40]), node)
            rest = region[len(c):]
            m = re.match(r"</%text>", rest)
            if not m or not is_glue(rest[m.end():]):
                raise Mismatch("text-body-tail", "after <%%text> body: %r" % rest[:40], node)
            return "texttag-body"
        if region.startswith(c) and is_glue(region[len(c):]):
            # literal running text: must not itself contain something that is a directive
            for frag in ("${", "<%", "</%"):
                if frag in c:
                    raise Mismatch("directive-in-text", "Text %r contains %r" % (c, frag), node)
            if re.search(r"\\\r?\n", c):
                raise Mismatch("continuation-in-text", "Text %r contains backslash-newline" % c, node)
            # no line inside literal text may begin (after blanks) with % or ## - that would be a control or
            # comment line the lexer failed to see - unless the physical line holds a lone CR (statement and docs
            # do not say a lone CR ends a % line; nothing is lost there, the other predicates still apply)
            ps = [off] if at_line_start(text, off) else []
            ps += [off + m.end() for m in re.finditer("\n", c) if m.end() < len(c)]
            for p in ps:
                e = text.find("\n", p)
                line = text[p:] if e == -1 else text[p:e]
                lm = re.match(r"[ \t]*(%|##)", line)
                if not lm:
                    continue
                if "\r" in line[:-1] or (line.endswith("\r") and e == -1):
                    continue
                raise Mismatch("control-line-in-text", "Text %r holds a line-leading %s" % (c, lm.group(1)), node)
            return "text"
        # %% escape: span is ws %% pct, content is ws % pct, at a line start
        m = PCT.match(region)
        if m and at_line_start(text, off) and c == m.group(1) + "%" + m.group(2) and is_glue(region[m.end():]):
            return "percent-escape"
        raise Mismatch("text-differs", "Text %r does not account for source %r" % (c, region), node)

    if isinstance(node, parsetree.Comment):
        if region.startswith("<%doc>"):
            want = "<%doc>" + node.text + "</%doc>"
            if region.startswith(want) and is_glue(region[len(want):]):
                return "doc"
            raise Mismatch("doc-differs", "<%%doc> %r vs source %r" % (node.text, region), node)
        if at_line_start(text, off) and _line_construct(text, off, region, "##", node.text):
            return "comment-line"
        raise Mismatch("comment-differs", "Comment %r vs source %r (line start=%s)" % (node.text, region, at_line_start(text, off)), node)

    if isinstance(node, parsetree.ControlLine):
        if at_line_start(text, off) and _line_construct(text, off, region, "%", node.text):
            return "control-line"
        raise Mismatch("control-differs", "ControlLine %r vs source %r" % (node.text, region), node)

    if isinstance(node, parsetree.Expression):
        if not region.startswith("${"):
            raise Mismatch("expr-start", "Expression %r not at ${: %r" % (node.text, region[:20]), node)
        raw = region[2:]
        t = node.text
        i = j = 0
        while j < len(t):
            if raw[i:i + 2] == "\r\n" and t[j] == "\n":
                i += 2
                j += 1
            elif i < len(raw) and raw[i] == t[j]:
                i += 1
                j += 1
            else:
                raise Mismatch("expr-differs", "Expression text %r vs source %r" % (t, raw), node)
        rest = raw[i:]
        if rest.startswith("}") and not node.escapes and is_glue(rest[1:]):
            return "expression"
        if rest.startswith("|"):
            k = rest.find("}")
            while k != -1:
                if rest[1:k].strip() == node.escapes and is_glue(rest[k + 1:]):
                    return "expression-filtered"
                k = rest.find("}", k + 1)
        raise Mismatch("expr-tail", "Expression %r|%r vs source tail %r" % (t, node.escapes, rest), node)

    if isinstance(node, parsetree.Code):
        head = "<%!" if node.ismodule else "<%"
        if not region.startswith(head) or (not node.ismodule and region.startswith("<%!")):
            raise Mismatch("code-start", "Code block not at %s: %r" % (head, region[:20]), node)
        k = region.find("%>", len(head))
        while k != -1:
            if is_glue(region[k + 2:]) and adjust_whitespace(region[len(head):k]) + "\n" == node.text:
                return "code-module" if node.ismodule else "code"
            k = region.find("%>", k + 1)
        raise Mismatch("code-differs", "Code %r vs source %r" % (node.text, region), node)

    if isinstance(node, parsetree.Tag):
        kw = node.keyword
        if isinstance(node, parsetree.CallNamespaceTag):
            kw = node.keyword  # "ns:def"
        end = _scan_open_tag(region, kw)
        if end is None:
            raise Mismatch("tag-start", "Tag %r vs source %r" % (kw, region[:60]), node)
        tagtext = region[:end]
        for k, v in node.attributes.items():
            pat = r"\s%s\s*=\s*(['\"])" % re.escape(k)
            ok = False
            for m in re.finditer(pat, tagtext):
                q = m.group(1)
                e = tagtext.find(q, m.end())
                if e != -1 and tagtext[m.end():e].replace("\r\n", "\n") == v:
                    ok = True
                    break
            if not ok:
                raise Mismatch("tag-attr", "attribute %s=%r not found in %r" % (k, v, tagtext), node)
        tail = region[end:]
        if kw == "text" and not tagtext.endswith("/>"):
            if tail != "":
                raise Mismatch("texttag-gap", "between <%%text> and its body: %r" % tail, node)
            return "tag-text"
        if not is_glue(tail):
            raise Mismatch("tag-tail", "after tag %r: %r" % (tagtext, tail), node)
        return "tag"

    raise Mismatch("unknown-node", "unknown node %r" % (node,), node)


def account(text, template_node):
    """Raise Mismatch unless the nodes account for all of `text`. Returns list of kinds."""
    flat = flatten(template_node)
    starts = line_starts(text)
    n = len(text)
    offs = [offset_of(node, starts, n) for node, _ in flat]
    for a, b, (node, _) in zip(offs, offs[1:], flat[1:]):
        if b <= a:
            raise Mismatch("order", "node %r at offset %d does not follow offset %d" % (node, b, a), node)
    first = offs[0] if offs else n
    prefix = text[:first]
    m = CODING.match(text)
    if m and first >= m.end():
        prefix = text[m.end():first]
    if not is_glue(prefix):
        raise Mismatch("prefix", "source before the first node is not accounted for: %r" % prefix)
    kinds = []
    for i, (node, in_text) in enumerate(flat):
        end = offs[i + 1] if i + 1 < len(offs) else n
        kinds.append(check_node(text, node, in_text, text[offs[i]:end], offs[i]))
    return kinds

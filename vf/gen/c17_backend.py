"""Recording dict CacheImpl for C17 (the "in-tree reference dict backend").

Imported lazily through mako.cache.register_plugin, i.e. only after core.setup_repo() put the tree under test
first on sys.path.  Follows the plugin guidelines of doc/build/caching.rst: one impl per Template, values are
namespaced by ``cache.id``; the store may be shared by several templates.

The harness attaches to the Template object, before the first access of ``template.cache``:
    template._vf_store : dict shared by every template of the case, keyed (cache.id, key)
    template._vf_log   : list receiving (op, key, kwargs) for every backend call
"""
from mako.cache import CacheImpl


class RecImpl(CacheImpl):
    pass_context = False

    def __init__(self, cache):
        super().__init__(cache)
        self.store = cache.template._vf_store
        self.log = cache.template._vf_log
        self.ns = cache.id

    def get_or_create(self, key, creation_function, **kw):
        self.log.append(("goc", key, kw))
        k = (self.ns, key)
        if k in self.store:
            return self.store[k]
        value = creation_function()
        self.store[k] = value
        return value

    def set(self, key, value, **kw):
        self.log.append(("set", key, kw))
        self.store[(self.ns, key)] = value

    def get(self, key, **kw):
        self.log.append(("get", key, kw))
        return self.store.get((self.ns, key))

    def invalidate(self, key, **kw):
        self.log.append(("inv", key, kw))
        self.store.pop((self.ns, key), None)


class RecCtxImpl(RecImpl):
    pass_context = True

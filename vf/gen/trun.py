"""Run a tgen program through mako and through the reference, compare."""
import itertools
import json
import os

from vf.core import Failure, HarnessError
from vf.gen import tenv, tgen

_uri = itertools.count()


def run_ref(prog, enable_loop=True, buffer_filters=(), extra_ctx=None):
    ctx = tenv.make_ctx()
    if extra_ctx:
        ctx.update(extra_ctx)
    it = tgen.Interp(prog, ctx, buffer_filters=[f for f in buffer_filters], enable_loop=enable_loop,
                     filters=tenv.ref_filters(ctx))
    try:
        return ("ok", it.render())
    except tgen._Ctl as e:
        raise HarnessError("control-flow escaped the reference: %r" % e)
    except RecursionError:
        raise
    except Exception as e:
        if isinstance(e, RuntimeError) and "reference step limit" in str(e):
            return ("reject", "step-limit")
        return ("exc", type(e).__name__, str(e)[:200])


def run_mako(src, enable_loop=True, page_loop=False, buffer_filters=(), extra_ctx=None, **kw):
    from mako.template import Template

    ctx = tenv.make_ctx()
    if extra_ctx:
        ctx.update(extra_ctx)
    try:
        t = Template(src, uri="/tg_%d.html" % next(_uri), enable_loop=enable_loop, imports=tenv.IMPORTS,
                     buffer_filters=list(buffer_filters), **kw)
    except Exception as e:
        return ("compile-exc", type(e).__name__, str(e)[:300])
    try:
        compile(t.code, "<generated>", "exec")
    except SyntaxError as e:
        return ("code-does-not-compile", str(e))
    from vf import core as _core

    _core.note_case({"source": src, "kw": {"enable_loop": enable_loop, "buffer_filters": list(buffer_filters)}},
                    "mako render did not finish within its CPU budget and could not be interrupted")
    try:
        with cpu_guard():
            try:
                return ("ok", t.render_unicode(**ctx))
            except _Timeout:
                raise
            except Exception as e:
                return ("exc", type(e).__name__, str(e)[:200])
    except _Timeout:
        return ("timeout", "render exceeded %.0f s CPU (the reference finished within its step limit)" % MAKO_CPU_LIMIT_S)


class _Timeout(BaseException):
    pass


MAKO_CPU_LIMIT_S = 6.0


class cpu_guard:
    """raise _Timeout (repeatedly) in this thread once the CPU budget is used up"""

    def __init__(self, limit=None):
        self.limit = limit or MAKO_CPU_LIMIT_S

    def __enter__(self):
        import signal

        here = os.path.dirname(os.path.dirname(os.path.abspath(__file__)))

        def _raiser(fr, event, arg):
            # armed after the budget is used up: every further line of non-harness code raises again, so that neither a bare
            # `% except:` nor deep recursion with handlers can keep the render alive
            if fr.f_code.co_filename.startswith(here):
                return None
            raise _Timeout()

        def _alarm(signum, frame):
            import sys

            # only while code under test is running: a later strike that arrives when the harness has already caught the
            # time-out (and is, say, building its report inside the guarded block) must not raise into the harness
            f, under_test = frame, False
            while f is not None and f is not self.owner:
                if not f.f_code.co_filename.startswith(here):
                    under_test = True
                f = f.f_back
            if not under_test:
                return
            if self.armed:
                self.strikes += 1
                if self.strikes > 24:  # ~12 more CPU seconds of raising on every line did not unwind it
                    os._exit(71)
            f = frame
            while f is not None and f is not self.owner:
                if not f.f_code.co_filename.startswith(here):
                    f.f_trace = _raiser
                f = f.f_back
            sys.settrace(_raiser)
            self.armed = True
            raise _Timeout()

        import sys as _sys

        self.armed = False
        self.strikes = 0
        self.owner = _sys._getframe(1)  # the frame that entered the guard: everything above it is not guarded
        self.old = signal.signal(signal.SIGVTALRM, _alarm)
        signal.setitimer(signal.ITIMER_VIRTUAL, self.limit, 0.5)
        return self

    def __exit__(self, *a):
        import signal

        signal.setitimer(signal.ITIMER_VIRTUAL, 0)
        signal.signal(signal.SIGVTALRM, self.old)
        if self.armed:
            import sys

            sys.settrace(None)
        return False


def exc_equiv(a, b):
    """exception type names considered the same outcome"""
    fam = [{"NameError", "UnboundLocalError"}, {"RuntimeError", "RuntimeException"}]
    if a == b:
        return True
    return any(a in f and b in f for f in fam)


def compare(case, ref, got, src, what=""):
    if got[0] == "compile-exc" or got[0] == "code-does-not-compile":
        raise Failure(case, "template does not compile: %s\n--- source ---\n%s" % (got[1:], src), "compile:" + str(got[1]))
    if got[0] == "timeout":
        raise Failure(case, "mako: %s\n--- source ---\n%s" % (got[1], src), "mako-does-not-terminate")
    if ref[0] == "ok":
        if got[0] != "ok":
            raise Failure(case, "reference renders %r but mako raised %s\n--- source ---\n%s" % (ref[1], got[1:], src),
                          "raised:" + got[1])
        if got[1] != ref[1]:
            raise Failure(case, "mako rendered %r, reference %r\n--- source ---\n%s" % (got[1], ref[1], src), "output-differs" + what)
    else:
        if got[0] == "ok":
            raise Failure(case, "reference raises %s but mako rendered %r\n--- source ---\n%s" % (ref[1:], got[1], src),
                          "no-exception:" + ref[1])
        if not exc_equiv(got[1], ref[1]):
            raise Failure(case, "reference raises %s, mako raises %s\n--- source ---\n%s" % (ref[1:], got[1:], src),
                          "exception-differs:%s/%s" % (ref[1], got[1]))


def features_of(prog):
    """structural summary used for labels / non-trivial rules"""
    s = json.dumps(prog)
    f = {}
    f["depth"] = _depth(prog["body"])
    f["loop_attr"] = "loop." in s
    f["empty_body"] = _has_empty(prog["body"])
    f["indented"] = any(k in s for k in ['"ind": " ', '"ind": "\\t'])
    f["break"] = '"t": "break"' in s or '"t": "continue"' in s
    f["return"] = '"t": "return"' in s
    f["ternary"] = '"else": [' in s or "elif" in s or '"handlers"' in s
    f["ccall"] = '"t": "ccall"' in s
    f["capture"] = "capture(" in s
    f["buffered"] = '"buffered": true' in s
    f["filter"] = '"filter": ["' in s
    f["decorator"] = '"decorator": "' in s
    f["try"] = '"t": "try"' in s
    f["with"] = '"t": "with"' in s
    f["py"] = '"t": "py"' in s
    f["def"] = '"t": "def"' in s
    f["block"] = '"t": "block"' in s
    return f


def _depth(nodes):
    d = 0
    for n in nodes:
        subs = []
        if n["t"] == "if":
            subs = [b for _, b in n["arms"]] + ([n["else"]] if n.get("else") else [])
        elif n["t"] == "try":
            subs = [n["body"]] + [b for _, b in n["handlers"]]
        elif n["t"] == "ccall":
            subs = [n["body"]] + [x["body"] for x in n["defs"]]
        elif "body" in n:
            subs = [n["body"]] + ([n["else"]] if n.get("else") else [])
        for b in subs:
            d = max(d, 1 + _depth(b))
    return d


def _has_empty(nodes):
    for n in nodes:
        subs = []
        if n["t"] == "if":
            subs = [b for _, b in n["arms"]] + ([n["else"]] if n.get("else") is not None else [])
        elif n["t"] == "try":
            subs = [n["body"]] + [b for _, b in n["handlers"]]
        elif n["t"] in ("for", "while", "with"):
            subs = [n["body"]] + ([n["else"]] if n.get("else") is not None else [])
        elif n["t"] in ("def", "block", "ccall"):
            if _has_empty(n["body"]):
                return True
        for b in subs:
            if not b or all(x["t"] == "comment" for x in b) or _has_empty(b):
                return True
    return False


# ---------------------------------------------------------------- IR shrinker (greedy node deletion / hoisting)
def _bodies(node):
    """(container, key) pairs of child body lists of a node"""
    out = []
    t = node.get("t")
    if t == "if":
        for arm in node["arms"]:
            out.append((arm, 1))
        if node.get("else") is not None:
            out.append((node, "else"))
    elif t == "try":
        out.append((node, "body"))
        for h in node["handlers"]:
            out.append((h, 1))
    elif t == "ccall":
        out.append((node, "body"))
        out.append((node, "defs"))
    else:
        for k in ("body", "else"):
            if isinstance(node.get(k), list):
                out.append((node, k))
    return out


def _all_lists(prog):
    """every body list in the program, outermost first"""
    res = []

    def walk(lst):
        res.append(lst)
        for n in lst:
            for cont, key in _bodies(n):
                walk(cont[key])

    walk(prog["body"])
    return res


def shrink_prog(prog, still_fails, budget_s=20.0, max_evals=400):
    import copy
    import time

    t0 = time.time()
    evals = 0
    best = copy.deepcopy(prog)
    improved = True
    while improved:
        improved = False
        lists = _all_lists(best)
        for li in range(len(lists)):
            i = 0
            while True:
                lists = _all_lists(best)
                if li >= len(lists) or i >= len(lists[li]):
                    break
                if time.time() - t0 > budget_s or evals > max_evals:
                    return best
                cands = []
                # 1. delete node i
                c1 = copy.deepcopy(best)
                l1 = _all_lists(c1)[li]
                node = l1[i]
                del l1[i]
                cands.append(c1)
                # 2. replace a control node by its first body
                subs = _bodies(node)
                if subs and node.get("t") in ("if", "try"):
                    c2 = copy.deepcopy(best)
                    l2 = _all_lists(c2)[li]
                    cont, key = _bodies(l2[i])[0]
                    l2[i:i + 1] = cont[key]
                    cands.append(c2)
                ok = False
                for c in cands:
                    evals += 1
                    try:
                        if still_fails(c):
                            best = c
                            improved = True
                            ok = True
                            break
                    except Exception:
                        pass
                if not ok:
                    i += 1
    return best


def minimise(f, check_case, budget_s=20.0):
    """shrink the program of a failing case, keeping the failure key"""
    case = f.case
    key = f.key
    if key == "mako-does-not-terminate":
        return f  # every evaluation would burn the whole CPU budget again

    def still(prog):
        try:
            check_case(dict(case, prog=prog))
        except Failure as g:
            return g.key == key
        return False

    try:
        small = shrink_prog(case["prog"], still, budget_s=budget_s)
        check_case(dict(case, prog=small))
    except Failure as g:
        return g
    except HarnessError:
        return f
    return f

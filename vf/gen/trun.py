"""Run a tgen program through mako and through the reference, compare."""
import itertools
import json

from vf.core import Failure, HarnessError
from vf.gen import tenv, tgen

_uri = itertools.count()


def run_ref(prog, enable_loop=True, buffer_filters=(), extra_ctx=None):
    ctx = tenv.make_ctx()
    if extra_ctx:
        ctx.update(extra_ctx)
    it = tgen.Interp(prog, ctx, buffer_filters=[f for f in buffer_filters], enable_loop=enable_loop,
                     filters=tenv.ref_filters(ctx))
    try:
        return ("ok", it.render())
    except tgen._Ctl as e:
        raise HarnessError("control-flow escaped the reference: %r" % e)
    except RecursionError:
        raise
    except Exception as e:
        if isinstance(e, RuntimeError) and "reference step limit" in str(e):
            raise HarnessError("reference step limit (generator produced a non-terminating program)")
        return ("exc", type(e).__name__, str(e)[:200])


def run_mako(src, enable_loop=True, page_loop=False, buffer_filters=(), extra_ctx=None, **kw):
    from mako.template import Template

    ctx = tenv.make_ctx()
    if extra_ctx:
        ctx.update(extra_ctx)
    try:
        t = Template(src, uri="/tg_%d.html" % next(_uri), enable_loop=enable_loop, imports=tenv.IMPORTS,
                     buffer_filters=list(buffer_filters), **kw)
    except Exception as e:
        return ("compile-exc", type(e).__name__, str(e)[:300])
    try:
        compile(t.code, "<generated>", "exec")
    except SyntaxError as e:
        return ("code-does-not-compile", str(e))
    try:
        return ("ok", t.render_unicode(**ctx))
    except Exception as e:
        return ("exc", type(e).__name__, str(e)[:200])


def exc_equiv(a, b):
    """exception type names considered the same outcome"""
    fam = [{"NameError", "UnboundLocalError"}, {"RuntimeError", "RuntimeException"}]
    if a == b:
        return True
    return any(a in f and b in f for f in fam)


def compare(case, ref, got, src, what=""):
    if got[0] == "compile-exc" or got[0] == "code-does-not-compile":
        raise Failure(case, "template does not compile: %s\n--- source ---\n%s" % (got[1:], src), "compile:" + str(got[1]))
    if ref[0] == "ok":
        if got[0] != "ok":
            raise Failure(case, "reference renders %r but mako raised %s\n--- source ---\n%s" % (ref[1], got[1:], src),
                          "raised:" + got[1])
        if got[1] != ref[1]:
            raise Failure(case, "mako rendered %r, reference %r\n--- source ---\n%s" % (got[1], ref[1], src), "output-differs" + what)
    else:
        if got[0] == "ok":
            raise Failure(case, "reference raises %s but mako rendered %r\n--- source ---\n%s" % (ref[1:], got[1], src),
                          "no-exception")
        if not exc_equiv(got[1], ref[1]):
            raise Failure(case, "reference raises %s, mako raises %s\n--- source ---\n%s" % (ref[1:], got[1:], src),
                          "exception-differs")


def features_of(prog):
    """structural summary used for labels / non-trivial rules"""
    s = json.dumps(prog)
    f = {}
    f["depth"] = _depth(prog["body"])
    f["loop_attr"] = "loop." in s
    f["empty_body"] = _has_empty(prog["body"])
    f["indented"] = any(k in s for k in ['"ind": " ', '"ind": "\\t'])
    f["break"] = '"t": "break"' in s or '"t": "continue"' in s
    f["return"] = '"t": "return"' in s
    f["ternary"] = '"else": [' in s or "elif" in s or '"handlers"' in s
    f["ccall"] = '"t": "ccall"' in s
    f["capture"] = "capture(" in s
    f["buffered"] = '"buffered": true' in s
    f["filter"] = '"filter": ["' in s
    f["decorator"] = '"decorator": "' in s
    f["try"] = '"t": "try"' in s
    f["with"] = '"t": "with"' in s
    f["py"] = '"t": "py"' in s
    f["def"] = '"t": "def"' in s
    f["block"] = '"t": "block"' in s
    return f


def _depth(nodes):
    d = 0
    for n in nodes:
        subs = []
        if n["t"] == "if":
            subs = [b for _, b in n["arms"]] + ([n["else"]] if n.get("else") else [])
        elif n["t"] == "try":
            subs = [n["body"]] + [b for _, b in n["handlers"]]
        elif n["t"] == "ccall":
            subs = [n["body"]] + [x["body"] for x in n["defs"]]
        elif "body" in n:
            subs = [n["body"]] + ([n["else"]] if n.get("else") else [])
        for b in subs:
            d = max(d, 1 + _depth(b))
    return d


def _has_empty(nodes):
    for n in nodes:
        subs = []
        if n["t"] == "if":
            subs = [b for _, b in n["arms"]] + ([n["else"]] if n.get("else") is not None else [])
        elif n["t"] == "try":
            subs = [n["body"]] + [b for _, b in n["handlers"]]
        elif n["t"] in ("for", "while", "with"):
            subs = [n["body"]] + ([n["else"]] if n.get("else") is not None else [])
        elif n["t"] in ("def", "block", "ccall"):
            if _has_empty(n["body"]):
                return True
        for b in subs:
            if not b or all(x["t"] == "comment" for x in b) or _has_empty(b):
                return True
    return False

"""faultfs - crash / failure injection around the file-system calls made while a module file is written (C15).

`FaultFS` replaces (unittest.mock.patch.object) the file-system entry points that mako.template / mako.util
reach through their `os`, `shutil`, `tempfile` module references and the builtin `open`:

    tempfile.mkstemp  os.write  os.close  shutil.move (and os.rename / os.stat beneath it)  os.makedirs
    (and os.mkdir / os.path.exists beneath it)  os.stat  os.path.exists  open (util.read_file, read_python_file)

plus the entry points a *changed* writer could reach instead (os.open, os.replace, os.link, os.unlink/remove,
os.sendfile used by shutil's cross-device copy, os.truncate/ftruncate, os.fsync, os.chmod, os.utime, and the
write()/close() of file objects opened for writing through open / io.open / os.fdopen).  mako imports the modules
(`import os`), so the attribute on the module object is the name mako uses; the patch is process wide while the
context manager is active but calls are only *counted* while `armed` is true.

Every counted call gets an index 0,1,2... and a log entry (name, symbolic argument).  With a plan (k, mode) the
k-th call is hit once:

    fail_before  raise OSError(EIO) instead of the real call       (os.path.exists: return False)
    fail_after   do the real call, then raise OSError(EIO)          (os.path.exists: return False)
    fail_mid     write a strict prefix of the data, then raise     (write-like calls only)
    die_before   os._exit(137) instead of the real call
    die_after    do the real call, then os._exit(137)
    die_mid      write a strict prefix of the data, then os._exit(137)

die modes are meant for a forked child.  `on_fire(record)` is called just before the fault takes effect so that
the child can tell its parent which call was hit (the parent checks it against the fault-free log).

Nesting: shutil.move and os.makedirs are "containers" - they are counted themselves and the wrapped calls made
beneath them are counted too.  All other wrapped calls are leaves: what they call internally (os.path.exists ->
os.stat, mkstemp -> os.open, ...) is not counted.
"""
import builtins
import errno
import io
import os
import shutil
import tempfile
from unittest import mock

MODES = ("fail_before", "fail_after", "fail_mid", "die_before", "die_after", "die_mid")
FRACS = ("one", "half", "allbut1")
CONTAINERS = frozenset(["shutil.move", "os.makedirs"])
WRITE_LIKE = frozenset(["os.write", "file.write", "os.sendfile"])
EXIT_CODE = 137

_TARGETS = [
    (tempfile, "mkstemp", "tempfile.mkstemp"),
    (os, "write", "os.write"),
    (os, "close", "os.close"),
    (os, "open", "os.open"),
    (shutil, "move", "shutil.move"),
    (os, "rename", "os.rename"),
    (os, "replace", "os.replace"),
    (os, "link", "os.link"),
    (os, "symlink", "os.symlink"),
    (os, "unlink", "os.unlink"),
    (os, "remove", "os.remove"),
    (os, "makedirs", "os.makedirs"),
    (os, "mkdir", "os.mkdir"),
    (os, "stat", "os.stat"),
    (os.path, "exists", "os.path.exists"),
    (os, "sendfile", "os.sendfile"),
    (os, "truncate", "os.truncate"),
    (os, "ftruncate", "os.ftruncate"),
    (os, "fsync", "os.fsync"),
    (os, "chmod", "os.chmod"),
    (os, "utime", "os.utime"),
    (builtins, "open", "open"),
    (io, "open", "open"),
]


class InjectedFault(OSError):
    """The OSError raised by the fail_* modes (a plain OSError subclass, errno EIO)."""


def modes_for(name):
    """Fault modes that make sense for a call name."""
    if name in WRITE_LIKE:
        return MODES
    return tuple(m for m in MODES if not m.endswith("_mid"))


def prefix_len(n, frac):
    """Length of a strict prefix of n bytes."""
    if n <= 0:
        return 0
    if frac == "one":
        return min(1, n - 1)
    if frac == "allbut1":
        return n - 1
    return n // 2


class _WFile:
    """Proxy for a file object opened for writing: write() and close() become counted calls."""

    def __init__(self, fs, f):
        object.__setattr__(self, "_fs", fs)
        object.__setattr__(self, "_f", f)

    def write(self, data):
        return self._fs._invoke("file.write", self._f.write, (data,), {}, fobj=self._f)

    def close(self):
        if self._f.closed:
            return self._f.close()
        return self._fs._invoke("file.close", self._f.close, (), {}, fobj=self._f)

    def __enter__(self):
        self._f.__enter__()
        return self

    def __exit__(self, *a):
        self.close()
        return False

    def __iter__(self):
        return iter(self._f)

    def __getattr__(self, name):
        return getattr(self._f, name)

    def __setattr__(self, name, value):
        setattr(self._f, name, value)


class FaultFS:
    def __init__(self, k=None, mode=None, frac="half", root=None, on_fire=None):
        if mode is not None and mode not in MODES:
            raise ValueError(mode)
        self.k = k
        self.mode = mode
        self.frac = frac
        self.root = os.path.realpath(root) if root else None
        self.on_fire = on_fire
        self.armed = False
        self.n = 0
        self.log = []  # [name, symbolic arg]
        self.fired = None
        self._leaf = 0
        self._tmpnames = set()
        self._patches = []

    # -- context manager: install / remove the wrappers (not yet counting) ----
    def __enter__(self):
        seen = {}
        for mod, attr, name in _TARGETS:
            real = getattr(mod, attr, None)
            if real is None:
                continue
            w = seen.get(id(real))
            if w is None:
                w = seen[id(real)] = self._wrap(name, real)
            p = mock.patch.object(mod, attr, w)
            p.start()
            self._patches.append(p)
        return self

    def __exit__(self, *a):
        self.armed = False
        for p in reversed(self._patches):
            p.stop()
        self._patches = []
        return False

    def arm(self):
        self.armed = True

    def disarm(self):
        self.armed = False

    # -- describing calls ------------------------------------------------------
    def _sym(self, x):
        if isinstance(x, bytes):
            try:
                x = os.fsdecode(x)
            except Exception:
                return "<bytes>"
        if isinstance(x, int):
            return "<fd>"
        if isinstance(x, os.PathLike):
            x = os.fspath(x)
        if not isinstance(x, str):
            return "<%s>" % type(x).__name__
        head, base = os.path.split(x)
        if x in self._tmpnames or base in self._tmpnames:
            x = os.path.join(head, "<tmp>")
        if self.root and (x == self.root or x.startswith(self.root + os.sep)):
            x = "$R" + x[len(self.root):]
        return x

    def _describe(self, name, a, kw):
        try:
            if name in ("os.write", "file.write"):
                data = a[-1] if a else b""
                return "%s %d bytes" % ("<fd>" if name == "os.write" else "<file>", len(data))
            if name == "file.close":
                return "<file>"
            if name == "os.sendfile":
                return "<fd> <- <fd>"
            if name in ("shutil.move", "os.rename", "os.replace", "os.link", "os.symlink"):
                return "%s -> %s" % (self._sym(a[0]), self._sym(a[1]))
            if name == "tempfile.mkstemp":
                d = kw.get("dir", a[2] if len(a) > 2 else None)
                return "dir=%s" % (self._sym(d) if d is not None else "<default>")
            if name == "open":
                m = kw.get("mode", a[1] if len(a) > 1 else "r")
                return "%s %s" % (self._sym(a[0]), m)
            if name == "os.open":
                return "%s flags=%#o" % (self._sym(a[0]), a[1] if len(a) > 1 else kw.get("flags", 0))
            if a:
                return self._sym(a[0])
        except Exception:
            pass
        return ""

    # -- the wrappers -------------------------------------------------------------
    def _wrap(self, name, real):
        fs = self

        def wrapper(*a, **kw):
            if not fs.armed or fs._leaf:
                return real(*a, **kw)
            return fs._invoke(name, real, a, kw)

        wrapper.__name__ = getattr(real, "__name__", name)
        wrapper.__wrapped__ = real
        return wrapper

    def _invoke(self, name, real, a, kw, fobj=None):
        if not self.armed or self._leaf:
            return real(*a, **kw)
        idx = self.n
        self.n += 1
        desc = self._describe(name, a, kw)
        self.log.append([name, desc])
        leaf = name not in CONTAINERS
        if leaf:
            self._leaf += 1
        try:
            if idx == self.k and self.mode is not None:
                return self._fault(idx, name, desc, real, a, kw, fobj)
            r = real(*a, **kw)
        finally:
            if leaf:
                self._leaf -= 1
        return self._post(name, r, a, kw)

    def _post(self, name, r, a, kw):
        if name == "tempfile.mkstemp":
            try:
                self._tmpnames.add(r[1])
                self._tmpnames.add(os.path.basename(r[1]))
            except Exception:
                pass
        elif name == "open":
            m = kw.get("mode", a[1] if len(a) > 1 else "r")
            if isinstance(m, str) and any(c in m for c in "wax+"):
                return _WFile(self, r)
        return r

    def _fire(self, idx, name, desc):
        self.fired = {"idx": idx, "name": name, "arg": desc, "mode": self.mode}
        if self.on_fire is not None:
            self.on_fire(self.fired)

    def _die(self):
        os._exit(EXIT_CODE)

    def _partial(self, name, real, a, kw, fobj):
        """Perform a strict prefix of a write-like call."""
        if name == "os.write":
            fd, data = a[0], a[1]
            n = prefix_len(len(data), self.frac)
            if n:
                real(fd, bytes(data[:n]))
        elif name == "file.write":
            data = a[0]
            n = prefix_len(len(data), self.frac)
            if n:
                real(data[:n])
            try:
                fobj.flush()
            except Exception:
                pass
        elif name == "os.sendfile":
            out_fd, in_fd, offset, count = (list(a) + [None] * 4)[:4]
            try:
                total = os.fstat(in_fd).st_size - (offset or 0)
            except OSError:
                total = count or 0
            n = prefix_len(min(total, count if count is not None else total), self.frac)
            if n:
                real(out_fd, in_fd, offset, n)
        else:  # pragma: no cover - the enumerator only plans *_mid for write-like calls
            raise ValueError("mode %s is not applicable to %s" % (self.mode, name))

    def _fault(self, idx, name, desc, real, a, kw, fobj):
        mode = self.mode
        self._fire(idx, name, desc)
        if mode == "die_before":
            self._die()
        if mode == "die_after":
            try:
                real(*a, **kw)
            except BaseException:
                pass
            self._die()
        if mode == "die_mid":
            self._partial(name, real, a, kw, fobj)
            self._die()
        if mode == "fail_before":
            if name == "os.path.exists":
                return False
            raise InjectedFault(errno.EIO, "injected fault before %s" % name)
        if mode == "fail_after":
            real(*a, **kw)
            if name == "os.path.exists":
                return False
            raise InjectedFault(errno.EIO, "injected fault after %s" % name)
        if mode == "fail_mid":
            self._partial(name, real, a, kw, fobj)
            raise InjectedFault(errno.EIO, "injected fault midway through %s" % name)
        raise ValueError(mode)  # pragma: no cover

"""module= namespace used by C07 programs"""


def hello(context, a):
    context.write("{helper.hello:%s}" % a)
    return ""

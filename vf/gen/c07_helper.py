"""module= namespace used by C07 programs"""


def hello(context, a):
    context.write("{helper.hello:%s}" % a)
    return ""


def both(context, a):
    """also defined inline in some <%namespace module=...> tags: the inline def wins"""
    context.write("{helper.both:%s}" % a)
    return ""

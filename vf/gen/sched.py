"""Deterministic thread scheduler (DESIGN 3.5): worker threads run one at a time and hand a baton back at scheduling
points; the schedule is data (a list of choices), so executions replay exactly.

Scheduling points: (fine) every executed line of code whose file matches `trace_files` (sys.settrace per worker);
(coarse) CoLock acquire/release and explicit `point()` calls made by wrappers the harness installs.
"""
import sys
import threading


class Deadlock(Exception):
    pass


class StepLimit(Deadlock):
    """the execution needed more scheduling steps than allowed: a long run or a livelock, the scheduler cannot tell"""


class Scheduler:
    def __init__(self, chooser, trace=None, max_steps=20000):
        """chooser(runnable_tids, step, current_tid) -> tid; trace(filename) -> bool selects files traced by line"""
        self.chooser = chooser
        if hasattr(chooser, "sched"):
            chooser.sched = self
        self.trace = trace
        self.max_steps = max_steps
        self.events = {}
        self.back = threading.Event()
        self.state = {}
        self.blocked_on = {}
        self.current = None
        self.steps = 0
        self.log = []  # (tid, what) per scheduling decision
        self.choices = []  # (n_runnable, chosen index) where a real choice existed
        self.errors = {}
        self.results = {}
        self._tids = {}
        self.hook = None  # called in the scheduler thread between steps (invariants)
        self.preemptions = 0

    # -- worker side ----------------------------------------------------
    def tid(self):
        return self._tids.get(threading.get_ident())

    def point(self, what):
        """a scheduling point; no-op outside worker threads"""
        t = self.tid()
        if t is None:
            return
        self.log.append((t, what))
        ev = self.events[t]
        self.back.set()
        ev.wait()
        ev.clear()

    def block(self, lock):
        t = self.tid()
        self.state[t] = "blocked"
        self.blocked_on[t] = lock
        ev = self.events[t]
        self.back.set()
        ev.wait()
        ev.clear()

    def unblock(self, lock):
        for t, l in list(self.blocked_on.items()):
            if l is lock:
                del self.blocked_on[t]
                self.state[t] = "ready"

    def _tracer(self, frame, event, arg):
        if event != "call":
            return None
        if self.trace is not None and self.trace(frame.f_code.co_filename):
            return self._line
        return None

    def _line(self, frame, event, arg):
        if event == "line":
            self.point((frame.f_code.co_name, frame.f_lineno))
        return self._line

    def _body(self, t, fn):
        self._tids[threading.get_ident()] = t
        ev = self.events[t]
        ev.wait()
        ev.clear()
        if self.trace is not None:
            sys.settrace(self._tracer)
        try:
            self.results[t] = fn()
        except BaseException as e:  # noqa
            self.errors[t] = e
        finally:
            sys.settrace(None)
            self.state[t] = "done"
            self.back.set()

    # -- scheduler side -------------------------------------------------
    def run(self, fns):
        threads = []
        for t, fn in enumerate(fns):
            self.events[t] = threading.Event()
            self.state[t] = "ready"
            th = threading.Thread(target=self._body, args=(t, fn), daemon=True)
            threads.append(th)
        for th in threads:
            th.start()
        try:
            while True:
                runnable = [t for t in sorted(self.state) if self.state[t] == "ready"]
                if not runnable:
                    if all(s == "done" for s in self.state.values()):
                        break
                    raise Deadlock("no runnable thread; states %r" % (self.state,))
                self.steps += 1
                if self.steps > self.max_steps:
                    raise StepLimit("step limit %d exceeded (livelock?)" % self.max_steps)
                if len(runnable) > 1:
                    pick = self.chooser(runnable, self.steps, self.current)
                    self.choices.append((len(runnable), runnable.index(pick)))
                    if self.current in runnable and pick != self.current:
                        self.preemptions += 1
                else:
                    pick = runnable[0]
                self.current = pick
                self.back.clear()
                self.events[pick].set()
                if not self.back.wait(timeout=20):
                    raise Deadlock("worker %d did not come back within 20 s (blocked outside the scheduler?)" % pick)
                if self.hook is not None:
                    self.hook(self)
        finally:
            # release everything so daemon threads can finish
            for t, ev in self.events.items():
                if self.state.get(t) != "done":
                    self.state[t] = "abandoned"
                    ev.set()
        for th in threads:
            th.join(timeout=5)
        return self.results, self.errors


class CoLock:
    """cooperative replacement for threading.Lock: never blocks the OS thread while the scheduler owns the schedule"""

    def __init__(self, sched):
        self._s = sched  # a Scheduler, or a one-element list that holds the Scheduler once there is one
        self.owner = None
        self.real = threading.Lock()

    @property
    def sched(self):
        return self._s[0] if isinstance(self._s, list) else self._s

    def acquire(self, blocking=True, timeout=-1):
        s = self.sched
        t = s.tid() if s is not None else None
        if t is None:
            return self.real.acquire(blocking, timeout)
        s.point("lock.acquire")
        while self.owner is not None:
            if s.state.get(t) == "abandoned":
                raise Deadlock("abandoned")
            s.block(self)
        self.owner = t
        return True

    def release(self):
        s = self.sched
        t = s.tid() if s is not None else None
        if t is None:
            return self.real.release()
        if self.owner != t:
            raise RuntimeError("release of a lock owned by %r from %r" % (self.owner, t))
        self.owner = None
        s.unblock(self)
        s.point("lock.release")

    def locked(self):
        return self.owner is not None or self.real.locked()

    __enter__ = acquire

    def __exit__(self, *a):
        self.release()


# ---- choosers -----------------------------------------------------------------
class ReplayChooser:
    """follow a recorded list of indices (into the sorted runnable list); default 0 afterwards"""

    def __init__(self, indices):
        self.indices = list(indices)
        self.i = 0

    def __call__(self, runnable, step, current):
        if self.i < len(self.indices):
            idx = self.indices[self.i] % len(runnable)
        else:
            idx = 0
        self.i += 1
        return runnable[idx]


class ByteChooser:
    """random schedule from a byte string: keep running the current thread unless a byte says preempt"""

    def __init__(self, data, switch_percent=25):
        self.data = data
        self.i = 0
        self.p = switch_percent

    def _b(self):
        if self.i < len(self.data):
            b = self.data[self.i]
            self.i += 1
            return b
        return 0

    def __call__(self, runnable, step, current):
        if current in runnable and (self._b() % 100) >= self.p:
            return current
        return runnable[self._b() % len(runnable)]


class OnePreemptionChooser:
    """run thread `first` for k scheduling decisions, then every other thread to completion (lowest id first), then the rest:
    the schedules with exactly one preemption, at a chosen point (what a debugger-driven demo does)"""

    def __init__(self, k, first=0):
        self.k = k
        self.first = first
        self.n = 0
        self.sched = None       # set by the Scheduler
        self.exhausted = False  # thread `first` had finished before its k-th decision: larger k add no new schedule

    def __call__(self, runnable, step, current):
        self.n += 1
        if self.n <= self.k and self.first in runnable:
            return self.first
        if self.n <= self.k and self.sched is not None and self.sched.state.get(self.first) == "done":
            self.exhausted = True
        others = [t for t in runnable if t != self.first]
        return others[0] if others else runnable[0]


class TwoPreemptionChooser:
    """thread 0 runs for k1 scheduling decisions, is preempted; thread 1 runs for k2 decisions, is preempted; thread 0 runs
    to completion, then thread 1, then any other thread: every schedule of two threads with (at most) two preemptions"""

    def __init__(self, k1, k2):
        self.k1, self.k2 = k1, k2
        self.n0 = self.n1 = 0

    def __call__(self, runnable, step, current):
        if self.n0 < self.k1 and 0 in runnable:
            self.n0 += 1
            return 0
        if self.n1 < self.k2 and 1 in runnable:
            self.n0 = self.k1  # phase one is over even if thread 0 blocked early
            self.n1 += 1
            return 1
        self.n1 = self.k2
        for t in (0, 1):
            if t in runnable:
                return t
        return runnable[0]


def dfs_schedules(run_once, max_runs=2000):
    """enumerate all schedules by re-execution. run_once(ReplayChooser) -> list of (n_runnable, chosen) choices made.
    yields the number of executions; stops at max_runs (returns False if truncated)."""
    stack = [[]]
    runs = 0
    while stack:
        prefix = stack.pop()
        runs += 1
        choices = run_once(ReplayChooser(prefix))
        # explore siblings of every choice after the prefix
        for i in range(len(prefix), len(choices)):
            n, c = choices[i]
            base = [ch[1] for ch in choices[:i]]
            for alt in range(n):
                if alt != c:
                    stack.append(base + [alt])
        if runs >= max_runs:
            return runs, False
    return runs, True
